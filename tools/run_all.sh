#!/bin/bash
# usage: tools/run_all.sh [quick|thorough]   -- every registered check on the current tree; non-zero exit if any of them fails
cd "$(dirname "$0")/.."
tier=${1:-quick}; bad=0
for c in C01 C02 C03 C04 C05 C06 C07 C08 C09 C10 C11 C12 C13 C14 C15 C16 C17 C18 C19 C20; do
  ./check $c --tier $tier > /tmp/run_all_$c.txt 2>&1; rc=$?
  if [ $rc -ne 0 ]; then bad=1; echo "$c rc=$rc $(grep -E 'ANALYSIS-ERROR|VIOLATION' /tmp/run_all_$c.txt | head -2 | cut -c1-300)"; fi
done
[ $bad -eq 0 ] && echo "all 20 checks passed ($tier)"
exit $bad
