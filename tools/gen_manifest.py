#!/venv/bin/python
"""Regenerates /verif/MANIFEST.json from the table below (run after adding a property check)."""
import json, os, sys
HERE = os.path.dirname(os.path.dirname(os.path.abspath(__file__)))
sys.path.insert(0, HERE)
from xsa.manifest_table import CHECKS, NOT_APPLICABLE, FIX_COMMITS  # noqa

props = [json.loads(l) for l in open(os.path.join(HERE, 'properties.jsonl'))]
ids = [p['id'] for p in props]
checks = []
for pid in ids:
    if pid in CHECKS:
        c = CHECKS[pid]
        checks.append({
            'property_id': pid,
            'quick_cmd': f'./check {pid} --tier quick',
            'thorough_cmd': f'./check {pid} --tier thorough',
            'evidence_file': f'/verif/evidence/{pid}.json',
            'replay_cmd_template': f'./check {pid} --tier quick  # replay file {{path}} lists the violated rule instances',
            'engine': 'xsa',
            'level_claimed': {'category': 'other', 'text': c['text'], 'design_ref': c['ref']},
            'level_note': c['note'],
            'technique': c['technique'],
        })
na = [{'property_id': pid, 'reason': NOT_APPLICABLE[pid]} for pid in ids if pid not in CHECKS]
missing = [pid for pid in ids if pid not in CHECKS and pid not in NOT_APPLICABLE]
assert not missing, missing
man = {
    'version': 1,
    'setup_cmd': '/venv/bin/python -B -m xsa.setup',
    'hooks': {
        'guard': 'XMLSCHEMA_VERIF',
        'enable': 'none needed: the checks read the source of /repo/xmlschema and never import or run it; no hook or '
                  'instrumentation commit exists, the guard variable is read by nothing',
        'baseline_off_cmd': 'cd /repo && /venv/bin/python -m pytest -ra -q -p no:cacheprovider --timeout=900 '
                            '--continue-on-collection-errors',
        'source_commits': FIX_COMMITS,
        'add_only': True,
    },
    'engines': [{
        'name': 'xsa', 'path': '/verif/xsa', 'serves_properties': sorted(CHECKS),
        'kind_free_text': 'repository-specific static analyser: ast source index with C3 MRO, statement-level CFG '
                          '(dominators, post-dominators, control dependence, reaching definitions, must-pass-through), '
                          'table extractors, per-property rule modules with frozen instance tables, mutant/twin self-test',
    }],
    'checks': checks,
    'not_applicable': na,
    'notes': 'Static analysis only: every verdict is computed from the current source of /repo/xmlschema. '
             'Exit 0 = all obligations discharged (known findings printed as KNOWN-FINDING), 1 = VIOLATION line, '
             '2 = ANALYSIS-ERROR (missing anchor, unrecognised idiom, instance floor, self-test failure). '
             'Each claimed property is decided only for the structural clauses named in DESIGN.md; the behavioural '
             'remainder is stated as not decided there.',
}
with open(os.path.join(HERE, 'MANIFEST.json'), 'w') as fp:
    json.dump(man, fp, indent=1)
    fp.write('\n')
print('MANIFEST.json:', len(checks), 'checks,', len(na), 'not applicable')
