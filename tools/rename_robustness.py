#!/venv/bin/python
"""Robustness sweep: behaviour-preserving renames of locals in the functions a property's rules analyse.

usage: tools/rename_robustness.py C01 [C02 ...]     (one variant per local + one renaming all locals of a function)
Outcomes: ok (silent), alarm (a VIOLATION: false alarm), error (analysis error: fail-closed but noisy)."""
import os
import sys

sys.path.insert(0, os.path.dirname(os.path.dirname(os.path.abspath(__file__))))
from xsa.robust import TYPED, sweep          # noqa: E402


def main():
    for prop in sys.argv[1:]:
        res = sweep(prop, cap=24 if prop in TYPED else 0)
        for q, n, o, d in res:
            if o in ('alarm', 'error'):
                print(f'  {prop} {o.upper():6} {q.split(".", 2)[-1]}::{n}  {d}')
        print(f'{prop}: {len(res)} renames: ok={sum(1 for r in res if r[2] == "ok")} alarm={sum(1 for r in res if r[2] == "alarm")} '
              f'error={sum(1 for r in res if r[2] == "error")} skip={sum(1 for r in res if r[2] == "skip")}', flush=True)


if __name__ == '__main__':
    main()
