#!/venv/bin/python
"""Robustness sweep: behaviour-preserving renames of locals in the functions a property's rules analyse.

usage: tools/rename_robustness.py C01 [C02 ...]
For every function recorded in ctx.functions_analysed and every plain local of it, the local is renamed (all Name
occurrences inside that function, nested scopes included unless they rebind it) through the in-memory overlay and
the property's quick rules are re-run.  Outcomes: ok (exit 0), alarm (a VIOLATION: false alarm), error (analysis
error: fail-closed but noisy).  Prints one line per non-ok variant and a summary."""
import ast
import importlib
import os
import sys
from concurrent.futures import ProcessPoolExecutor

sys.path.insert(0, os.path.dirname(os.path.dirname(os.path.abspath(__file__))))
from xsa.index import AnalysisError, Index          # noqa: E402
from xsa.report import collect                       # noqa: E402

TYPED = {'C05', 'C09', 'C10', 'C18'}


def locals_of(fnode):
    params = {a.arg for a in fnode.args.posonlyargs + fnode.args.args + fnode.args.kwonlyargs}
    if fnode.args.vararg:
        params.add(fnode.args.vararg.arg)
    if fnode.args.kwarg:
        params.add(fnode.args.kwarg.arg)
    bound = set()
    for n in ast.walk(fnode):
        if isinstance(n, ast.Name) and isinstance(n.ctx, ast.Store):
            bound.add(n.id)
        elif isinstance(n, ast.ExceptHandler) and n.name:
            pass   # `except … as err` – renaming needs the handler too: skipped
        elif isinstance(n, (ast.Global, ast.Nonlocal)):
            params.update(n.names)
    handler_names = {n.name for n in ast.walk(fnode) if isinstance(n, ast.ExceptHandler) and n.name}
    return sorted(bound - params - handler_names - {'_'})


def rename(src: str, fnode, name: str, new: str) -> str:
    lines = src.split('\n')
    edits = []
    for n in ast.walk(fnode):
        if isinstance(n, ast.Name) and n.id == name:
            edits.append((n.lineno, n.col_offset, n.end_col_offset))
        elif isinstance(n, ast.MatchAs) and n.name == name:
            return src   # pattern capture: skip
    for ln, c0, c1 in sorted(set(edits), reverse=True):
        line = lines[ln - 1]
        b = line.encode('utf-8')
        if b[c0:c1].decode('utf-8') != name:
            return src
        lines[ln - 1] = (b[:c0] + new.encode() + b[c1:]).decode('utf-8')
    return '\n'.join(lines)


def run_one(args):
    prop, rel, qual, name = args
    mod = importlib.import_module(f'xsa.rules.{prop.lower()}')
    idx0 = Index()
    f = idx0.functions[qual]
    src = f.module.source
    new = rename(src, f.node, name, name + '_rn')
    if new == src:
        return (qual, name, 'skip', '')
    try:
        ast.parse(new)
    except SyntaxError:
        return (qual, name, 'skip', 'syntax')
    try:
        idx = Index(overlay={rel: new})
        ctx, viol, known = collect(prop, list(mod.RULES), 'quick', idx)
    except AnalysisError as e:
        return (qual, name, 'error', str(e)[:160])
    except Exception as e:
        return (qual, name, 'error', f'internal {type(e).__name__}: {e}'[:160])
    if viol:
        return (qual, name, 'alarm', f'{viol[0].rule} {viol[0].instance[:110]}')
    return (qual, name, 'ok', '')


def main():
    for prop in sys.argv[1:]:
        mod = importlib.import_module(f'xsa.rules.{prop.lower()}')
        idx = Index()
        ctx, viol, known = collect(prop, list(mod.RULES), 'quick', idx)
        jobs = []
        for q in sorted(ctx.functions_analysed):
            f = idx.functions.get(q)
            if f is None or isinstance(f.node, ast.Lambda):
                continue
            for name in locals_of(f.node):
                jobs.append((prop, f.module.relpath, q, name))
        if prop in TYPED:
            print(f'{prop}: typed rules (mypy per variant) — sweep limited to 24 variants')
            jobs = jobs[:24]
        res = []
        with ProcessPoolExecutor(max_workers=14) as ex:
            for r in ex.map(run_one, jobs, chunksize=4):
                res.append(r)
        bad = [r for r in res if r[2] in ('alarm', 'error')]
        for q, n, o, d in bad:
            print(f'  {prop} {o.upper():6} {q.split(".", 2)[-1]}::{n}  {d}')
        print(f'{prop}: {len(res)} renames: ok={sum(1 for r in res if r[2] == "ok")} alarm={sum(1 for r in res if r[2] == "alarm")} '
              f'error={sum(1 for r in res if r[2] == "error")} skip={sum(1 for r in res if r[2] == "skip")}', flush=True)


if __name__ == '__main__':
    main()
