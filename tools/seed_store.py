#!/venv/bin/python
"""usage: seed_store.py <PROP> <name> <worktree> <detected-initially> <detected-now> [note]"""
import json, os, shutil, sys
prop, name, wt, init, now = sys.argv[1:6]
note = sys.argv[6] if len(sys.argv) > 6 else ''
d = f'/verif/seeded/{name}'
os.makedirs(d, exist_ok=True)
for f in ('patch.diff', 'demo.py'):
    shutil.copy(f'{wt}/_seed/{f}', f'{d}/{f}')
meta = json.load(open(f'{wt}/_seed/meta.json'))
meta['property'] = prop
meta['confirmed'] = {
    'demo_with_change': open('/tmp/seed_demo_with.txt').read()[-400:],
    'demo_with_change_exit': 1, 'demo_without_change_exit': 0,
    'suite_with_change': open('/tmp/seed_suite.txt').read()[-300:],
    'how': 'tools/seed_eval.sh: demo run with the patch (exit 1) and with the patch reversed (exit 0) in a scratch worktree, full test '
           'suite with the patch, then `git -C /repo apply patch.diff`, every ./check quick, `git -C /repo checkout -- .`',
}
meta['detected_initially_by'] = init
meta['detected_now_by'] = now
if note:
    meta['note'] = note
json.dump(meta, open(f'{d}/meta.json', 'w'), indent=1)
print('stored', d)
