#!/venv/bin/python
"""Robustness sweep: behaviour-preserving statement rewrites (operand swap of comparisons, if/else inversion, `a and b` guards
split into nested ifs, inserted logging calls) applied to every applicable site of one analysed function at once.

usage: tools/rewrite_robustness.py C01 [C02 ...] [--kinds swap-compare,invert-if]"""
import os
import sys

sys.path.insert(0, os.path.dirname(os.path.dirname(os.path.abspath(__file__))))
from xsa.robust import TYPED, sweep_rewrites          # noqa: E402


def main():
    args = sys.argv[1:]
    kinds = None
    if '--kinds' in args:
        i = args.index('--kinds')
        kinds = args[i + 1].split(',')
        del args[i:i + 2]
    for prop in args:
        res = sweep_rewrites(prop, kinds, cap=16 if prop in TYPED else 0)
        for q, n, o, d in res:
            if o in ('alarm', 'error'):
                print(f'  {prop} {o.upper():6} {q.split(".", 2)[-1]}::{n}  {d}')
        print(f'{prop}: {len(res)} rewrites: ok={sum(1 for r in res if r[2] == "ok")} alarm={sum(1 for r in res if r[2] == "alarm")} '
              f'error={sum(1 for r in res if r[2] == "error")} skip={sum(1 for r in res if r[2] == "skip")}', flush=True)


if __name__ == '__main__':
    main()
