import sys, json
pid=sys.argv[1]
base=open('/verif/tools/seed_prompt.py').read()
avoid=json.load(open('/tmp/avoid.json')).get(pid,[])
import subprocess
txt=subprocess.run(['/venv/bin/python','/verif/tools/seed_prompt.py',pid],capture_output=True,text=True).stdout
extra='\n\nADDITIONAL CONSTRAINT FOR THIS ROUND: an earlier round already produced the following change for this property; yours must be different in kind and in a different function (prefer a different file), and should attack a different clause of the property statement:\n' + '\n'.join(' - '+a for a in avoid) + '\nIf, while reading the code, you notice that the UNCHANGED library already violates the property somewhere, say so at the end of your reply with a minimal reproducer (this is welcome, but does not replace the seeded change). Prefer a defect that arises from the interaction of two places (for example a helper whose contract changes slightly while its callers keep their assumptions), a changed exception handler, a reordered pair of statements, a default value, or state that is no longer reset. '
print(txt+extra)
