#!/bin/bash
# usage: tools/seed_eval.sh <PROP> [worktree]   -- confirm a seeded change and run the checks against it
P=$1; WT=${2:-/tmp/wt_$P}
S=$WT/_seed
[ -f $S/patch.diff ] || { echo "no patch in $S"; exit 2; }
cd $WT || exit 2
echo "== demo WITH change"; PYTHONPATH=$WT timeout 600 /venv/bin/python _seed/demo.py > /tmp/seed_demo_with.txt 2>&1; W=$?; tail -3 /tmp/seed_demo_with.txt; echo "exit=$W"
git apply -R $S/patch.diff || { echo "cannot reverse patch"; exit 2; }
echo "== demo WITHOUT change"; PYTHONPATH=$WT timeout 600 /venv/bin/python _seed/demo.py > /tmp/seed_demo_without.txt 2>&1; WO=$?; tail -2 /tmp/seed_demo_without.txt; echo "exit=$WO"
git apply $S/patch.diff
echo "== suite WITH change"; PYTHONPATH=$WT /venv/bin/python -m pytest -q -p no:cacheprovider -n 12 --timeout=900 2>&1 | tail -4 > /tmp/seed_suite.txt; cat /tmp/seed_suite.txt
echo "== checks on /repo with the patch applied"
cd /repo && git status --short | grep -q . && { echo "/repo dirty"; exit 2; }
git -C /repo apply $S/patch.diff || { echo "patch does not apply to /repo"; exit 2; }
cd /verif
for c in C01 C02 C03 C04 C05 C06 C07 C08 C09 C10 C11 C12 C13 C14 C15 C16 C17 C18 C19 C20; do
  [ -f xsa/rules/$(echo $c | tr A-Z a-z).py ] || continue
  out=$(./check $c --no-evidence 2>&1); rc=$?
  if [ $rc -ne 0 ]; then echo "--- $c rc=$rc"; echo "$out" | grep -E "VIOLATED|ANALYSIS-ERROR" | head -5; fi
done
git -C /repo checkout -- . ; git -C /repo status --short | head -3
echo "demo_with=$W demo_without=$WO"
