#!/venv/bin/python
"""Regenerate xsa/roles_ref.json (definition/use signatures of the locals of every function) from /repo as it stands.
Run after a reviewed change of /repo (e.g. a fix: commit) when the rules were re-confirmed against the new names."""
import json
import os
import sys

sys.path.insert(0, os.path.dirname(os.path.dirname(os.path.abspath(__file__))))
os.environ['XSA_NO_ROLES'] = '1'
from xsa.index import Index          # noqa: E402
from xsa.roles import REF, build_reference   # noqa: E402

ref = build_reference(Index())
with open(REF, 'w') as fp:
    json.dump(ref, fp, separators=(',', ':'), sort_keys=True)
    fp.write('\n')
print(f'{REF}: {len(ref)} functions, {sum(len(v["locals"]) for k, v in ref.items() if k != "__modules__")} locals, {sum(len(v["tests"]) for k, v in ref.items() if k != "__modules__")} tests')
