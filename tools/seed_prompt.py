import sys
pid=sys.argv[1]
prop=open(f'/tmp/prop_{pid}.txt').read()
print(f'''You are testing a verification tool by seeding a realistic defect into a Python library. Work ONLY inside the git worktree /tmp/wt_{pid} (a checkout of the open-source library sissaschool/xmlschema, a pure-Python XML Schema validator). Do NOT read, list or touch /verif or /repo, and do not look at any other /tmp/wt_* directory.

PROPERTY (a behavioural guarantee the library is supposed to give):
---
{prop}---

TASK: make ONE small, realistic source change under /tmp/wt_{pid}/xmlschema/ (the kind of regression a maintainer could introduce in a refactor or "optimisation": a dropped branch, a narrowed or reordered condition, a forgotten call, a cached value not reset, a wrong operand, an exception handler changed, ...) that BREAKS the property above, while:
 1. the package still imports and the existing test suite still passes. Run it with:
      cd /tmp/wt_{pid} && PYTHONPATH=/tmp/wt_{pid} /venv/bin/python -m pytest -q -p no:cacheprovider -n 8 --timeout=900 2>&1 | tail -5
    (exactly 2 failures, tests/test_locations.py::TestLocations::test_is_unc_path_function and ::test_normalize_url_slashes, are pre-existing in this sandbox and are fine; anything else failing means your change is not acceptable - try another one).
    Check `cd /tmp/wt_{pid} && PYTHONPATH=/tmp/wt_{pid} /venv/bin/python -c "import xmlschema; print(xmlschema.__file__)"` prints the worktree path.
 2. the breakage needs something SPECIFIC to manifest - a particular input shape, a multi-step sequence of API calls, an unusual option combination, or two cooperating code sites that each look fine alone - NOT something that ordinary use would expose at once.
 3. the change is in library code only (do not edit tests), keep it under ~15 changed lines.

DELIVERABLES (write them inside /tmp/wt_{pid}/_seed/):
 - patch.diff : output of `git -C /tmp/wt_{pid} diff -- xmlschema` (the source change only)
 - demo.py    : a small standalone script (run as `cd /tmp/wt_{pid} && PYTHONPATH=/tmp/wt_{pid} /venv/bin/python _seed/demo.py`) that exits with status 1 and prints what went wrong WITH your change, and exits 0 WITHOUT it (verify both: use `git diff > p.diff; git apply -R p.diff` / `git apply p.diff` (never `git stash`: the stash is shared by all worktrees) on the xmlschema dir to test the unchanged code). The demo must show the property violated through the public API (e.g. is_valid / iter_errors / decode / encode / XMLSchema(...)), not by inspecting internals.
 - meta.json  : {{"property": "{pid}", "summary": "<one sentence: what was changed>", "needs": "<what is needed for it to manifest>", "files": ["<changed files>"], "tests": "<tail of the pytest output you observed>"}}
Leave the change APPLIED in the worktree when you finish. There is no network. Reply with a short summary (what you changed, which file/function, what input exposes it, test-suite result). If after several attempts you cannot find a change that passes the suite, say so plainly and describe the closest attempt.''')
