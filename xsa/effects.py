"""Effect inventory: writes to state that outlives a validation call (used by C10.a / C18.d).

A *write* is an attribute/subscript store, ``del``, augmented assignment or a mutating method call.  The receiver
chain (``self.maps.elements._store[k]`` -> ``self``, ``.maps``, ``.elements``, ``._store``) is typed through L1; the
write is *persistent* when some prefix of the chain is an instance of a persistent class (schema components, global
maps, loaders, settings, module-level names, third-party parser objects held by components).  Locals are followed
one step through their reaching definitions (fresh object vs alias of persistent state).
"""
from __future__ import annotations

import ast
from dataclasses import dataclass
from typing import Optional

from .astutil import text, walk_no_nested
from .cfg import CFG
from .index import FuncInfo, Index, dotted
from .typed import Typed

MUTATORS = {'add', 'append', 'extend', 'update', 'clear', 'pop', 'popitem', 'remove', 'discard', 'setdefault', 'insert', 'sort',
            'reverse', 'appendleft', 'popleft', '__setitem__', '__delitem__', 'difference_update', 'intersection_update',
            'symmetric_difference_update', 'subtract'}

PERSISTENT_ROOTS = (
    'xmlschema.validators.xsdbase.XsdValidator',          # XsdComponent, XMLSchemaBase, every XSD component
    'xmlschema.validators.xsd_globals.XsdGlobals',
    'xmlschema.validators.builders.StagedMap',
    'xmlschema.validators.builders.GlobalMaps',
    'xmlschema.validators.builders.XsdBuilders',
    'xmlschema.loaders.SchemaLoader',
    'xmlschema.settings.ResourceSettings',
    'xmlschema.caching.SchemaCache',
    'xmlschema.xpath.proxy.XMLSchemaProxy',
    'xmlschema.xpath.assertion_parser.XsdAssertionXPathParser',
    'xmlschema.validators.identities.FieldValueSelector',  # cached on XsdIdentity.elements
    'xmlschema.namespaces.NamespaceResourcesMap',
    'xmlschema.namespaces.NamespaceView',
)
# per-call / per-document classes: writes to them do not outlive the call
PERCALL_ROOTS = (
    'xmlschema.validators.validation.ValidationContext',
    'xmlschema.namespaces.NamespaceMapper',
    'xmlschema.validators.identities.IdentityCounter',
    'xmlschema.validators.models.ModelVisitor',
    'xmlschema.validators.models.OccursCalculator',
    'xmlschema.exceptions.XMLSchemaException',
    'xmlschema.resources.xml_loader.XMLResourceLoader',    # the document, not the schema
    'xmlschema.resources.xml_resource.XMLResourceManager',
    'xmlschema.dataobjects.DataElement',
    'xmlschema.converters.base.ElementData',
    'xmlschema.xpath.selectors.ElementSelector',
)
THIRD_PARTY_PERSISTENT = ('elementpath.xpath2', 'elementpath.xpath1', 'elementpath.xpath3', 'elementpath.xpath30', 'elementpath.xpath31',
                          'elementpath.xpath_tokens', 'elementpath.tdop', 'elementpath.schema_proxy')   # xpath_nodes: the document's XPath tree (per document)
FRESH_CALLS = ('copy', '_copy', 'deepcopy', 'dict', 'list', 'set', 'tuple', 'Counter', 'OrderedDict', 'defaultdict', 'deque', 'sorted',
               'Element', 'ElementData')


@dataclass
class Write:
    func: FuncInfo
    node: ast.AST
    kind: str                  # setattr | setitem | del | augassign | mutcall
    target: str                # text of the written location / call
    owner_class: str           # persistent class (or 'module') the state belongs to
    owner_expr: str            # the prefix expression that is persistent
    attr: str                  # first attribute after the owner prefix ('' for the object itself)

    @property
    def key(self) -> str:
        return f'{self.func.qualname}|{self.kind}|{self.target[:60]}'


class Effects:
    def __init__(self, idx: Index, typed: Typed) -> None:
        self.idx = idx
        self.typed = typed
        self.persistent = set()
        self.percall = set()
        for r in PERSISTENT_ROOTS:
            c = idx.classes.get(r)
            if c is not None:
                self.persistent.update(k.qualname for k in idx.subclasses(c))
        for r in PERCALL_ROOTS:
            c = idx.classes.get(r)
            if c is not None:
                self.percall.update(k.qualname for k in idx.subclasses(c))
        self.persistent -= self.percall
        self.unknown_roots = 0

    def class_kind(self, classes: list[str]) -> Optional[str]:
        """'persistent' / 'percall' / None (builtin or unknown)."""
        res = None
        for cn in classes:
            if cn in self.persistent or any(cn == p or cn.startswith(p + '.') for p in THIRD_PARTY_PERSISTENT):
                return 'persistent'
            if cn in self.percall:
                res = 'percall'
        return res

    def _chain(self, e: ast.AST) -> list[ast.AST]:
        """prefixes of an attribute/subscript chain, root first."""
        out = []
        cur = e
        while True:
            out.append(cur)
            if isinstance(cur, ast.Attribute):
                cur = cur.value
            elif isinstance(cur, ast.Subscript):
                cur = cur.value
            else:
                break
        return list(reversed(out))

    def owner(self, f: FuncInfo, recv: ast.AST, cfg_cache: dict, node_of) -> Optional[tuple[str, str, str]]:
        """(owner class, owner expr text, first attr after owner) if the receiver chain touches persistent state."""
        chain = self._chain(recv)
        root = chain[0]
        # module-level names
        if isinstance(root, ast.Name):
            name = root.id
            if name in f.module.assigns and name not in f.params and not self._is_local(f, name):
                return ('module', name, '')
        # a local that only ever holds a freshly created object (constructor, copy, create_* factory, object.__new__)
        if isinstance(root, ast.Name) and root.id not in ('self', 'cls') and root.id not in f.params:
            g, rd = cfg_cache.get(f.qualname, (None, None))
            if g is None:
                g = CFG(f.node)
                rd = g.reaching_defs()
                cfg_cache[f.qualname] = (g, rd)
            n = node_of(g)
            if n is not None:
                defs = rd[n].get(root.id, set())
                if defs and all(self._fresh_def(f, d, root.id) for d in defs):
                    # a shallow copy is fresh only at its top level: a write one attribute further down lands in an object
                    # the copy shares with its source
                    if len(chain) >= 2:
                        for d in defs:
                            src = self._shallow_copy_source(d)
                            if src is None:
                                continue
                            o = self.owner(f, src, cfg_cache, lambda g_, d=d: d)
                            if o is None and isinstance(src, (ast.Attribute, ast.Subscript)):
                                o = self.owner(f, src.value, cfg_cache, lambda g_, d=d: d)
                            if o is not None:
                                nxt = chain[1]
                                attr = nxt.attr if isinstance(nxt, ast.Attribute) else '[]'
                                return (o[0], f'{root.id} = shallow copy of {text(src)}', attr)
                    return None
        first_percall = False
        for i, pref in enumerate(chain):
            classes = self.typed.classes_of(f, pref)
            if isinstance(pref, ast.Name) and pref.id in ('self', 'cls') and f.cls is not None and not classes:
                classes = [f.cls.qualname]
            k = self.class_kind(classes)
            if k == 'persistent':
                nxt = chain[i + 1] if i + 1 < len(chain) else None
                attr = nxt.attr if isinstance(nxt, ast.Attribute) else ('[]' if isinstance(nxt, ast.Subscript) else '')
                pc = [c for c in classes if c in self.persistent or any(c.startswith(p) for p in THIRD_PARTY_PERSISTENT)]
                return (pc[0], text(pref), attr)
            if k == 'percall' and i == 0:
                first_percall = True
        if first_percall:
            return None
        # local alias of persistent state: one step through reaching definitions
        if isinstance(root, ast.Name) and root.id not in ('self', 'cls'):
            g, rd = cfg_cache.get(f.qualname, (None, None))
            if g is None:
                g = CFG(f.node)
                rd = g.reaching_defs()
                cfg_cache[f.qualname] = (g, rd)
            n = node_of(g)
            if n is not None:
                defs = rd[n].get(root.id, set())
                for d in defs:
                    if d is g.entry or d.ast is None:
                        continue
                    vals = []
                    if d.kind == 'stmt' and isinstance(d.ast, (ast.Assign, ast.AnnAssign)) and getattr(d.ast, 'value', None) is not None:
                        tg = d.ast.targets[0] if isinstance(d.ast, ast.Assign) else d.ast.target
                        if isinstance(tg, ast.Name):
                            vals.append(d.ast.value)
                    for v in vals:
                        if isinstance(v, ast.Call):
                            continue          # result of a call: treated as fresh (constructors, copies, getters)
                        if isinstance(v, (ast.List, ast.Dict, ast.Set, ast.ListComp, ast.DictComp, ast.SetComp, ast.Constant, ast.Tuple)):
                            continue
                        if isinstance(v, ast.Name) and v.id != root.id and v.id in f.module.assigns and v.id not in f.params and not self._is_local(f, v.id):
                            # alias of a module-level object: `dummy = _DUMMY_ELEMENT`
                            return ('module', f'{root.id} = {v.id}', chain[1].attr if len(chain) > 1 and isinstance(chain[1], ast.Attribute) else '')
                        if isinstance(v, (ast.Attribute, ast.Subscript)):
                            o = self.owner(f, v, cfg_cache, lambda g_, d=d: d)
                            if o is not None:
                                return (o[0], f'{root.id} = {text(v)}', o[2] or (v.attr if isinstance(v, ast.Attribute) else '[]'))
        return None

    def _fresh_def(self, f: FuncInfo, d, name: str) -> bool:
        if d.ast is None or d.kind != 'stmt' or not isinstance(d.ast, (ast.Assign, ast.AnnAssign)):
            return False
        v = getattr(d.ast, 'value', None)
        tg = d.ast.targets[0] if isinstance(d.ast, ast.Assign) else d.ast.target
        if not (isinstance(tg, ast.Name) and tg.id == name) or v is None:
            return False
        while isinstance(v, ast.Call) and text(v.func) == 'cast' and len(v.args) == 2:
            v = v.args[1]
        if not isinstance(v, ast.Call):
            return False
        fn = v.func
        d_ = dotted(fn)
        last = d_.split('.')[-1] if d_ else (fn.attr if isinstance(fn, ast.Attribute) else '')
        if last in ('copy', '_copy', 'deepcopy', '__new__') or last.startswith('create_'):
            return True
        full = self.idx.resolve_name(f.module, d_) if d_ else None
        if full in self.idx.classes:
            return True
        # self.builders.<x>_class(...)
        if last.endswith('_class') or text(fn) in ('type(self)', 'self.__class__'):
            return True
        return False

    @staticmethod
    def _shallow_copy_source(d) -> Optional[ast.AST]:
        """the copied expression when definition ``d`` is ``x = copy(src)`` / ``x = src.copy()`` / ``x = src._copy()``."""
        v = getattr(d.ast, 'value', None)
        while isinstance(v, ast.Call) and text(v.func) == 'cast' and len(v.args) == 2:
            v = v.args[1]
        if not isinstance(v, ast.Call):
            return None
        fn = v.func
        if isinstance(fn, ast.Name) and fn.id == 'copy' and len(v.args) == 1:
            return v.args[0]
        if isinstance(fn, ast.Attribute) and dotted(fn) in ('copy.copy', '_copy.copy') and len(v.args) == 1:
            return v.args[0]
        if isinstance(fn, ast.Attribute) and fn.attr in ('copy', '_copy', '__copy__') and not v.args:
            return fn.value
        return None

    def _is_local(self, f: FuncInfo, name: str) -> bool:
        """Is ``name`` (re)bound as a plain local in f (a subscript/attribute store on it does not bind it)?"""
        if any(isinstance(g, ast.Global) and name in g.names for g in walk_no_nested(f.node)):
            return False
        for s in walk_no_nested(f.node):
            tg = []
            if isinstance(s, ast.Assign):
                tg = s.targets
            elif isinstance(s, (ast.AnnAssign, ast.AugAssign, ast.For, ast.comprehension)):
                tg = [s.target]
            elif isinstance(s, ast.NamedExpr):
                tg = [s.target]
            for t in tg:
                for x in _flatten(t):
                    if isinstance(x, ast.Name) and x.id == name:
                        return True
        return False

    def writes(self, f: FuncInfo, cfg_cache: dict) -> list[Write]:
        out: list[Write] = []

        def locate(stmt):
            def node_of(g):
                ns = g.nodes_of(stmt) or g.owners(stmt)
                return ns[0] if ns else None
            return node_of
        # map each expression to its statement for CFG lookup
        for stmt in walk_no_nested(f.node):
            if not isinstance(stmt, ast.stmt):
                continue
            targets = []
            if isinstance(stmt, ast.Assign):
                for t in stmt.targets:
                    targets.extend((x, 'setattr' if isinstance(x, ast.Attribute) else 'setitem') for x in _flatten(t)
                                   if isinstance(x, (ast.Attribute, ast.Subscript)))
            elif isinstance(stmt, (ast.AugAssign, ast.AnnAssign)) and isinstance(stmt.target, (ast.Attribute, ast.Subscript)):
                if not (isinstance(stmt, ast.AnnAssign) and stmt.value is None):
                    targets.append((stmt.target, 'augassign' if isinstance(stmt, ast.AugAssign) else 'setattr'))
            elif isinstance(stmt, ast.Delete):
                targets.extend((t, 'del') for t in stmt.targets if isinstance(t, (ast.Attribute, ast.Subscript)))
            for t, kind in targets:
                recv = t.value
                o = self.owner(f, recv, cfg_cache, locate(stmt))
                if o is not None:
                    attr = o[2] or (t.attr if isinstance(t, ast.Attribute) else '[]')
                    out.append(Write(f, stmt, kind, text(t), o[0], o[1], attr))
            # mutating calls anywhere in the statement header (not nested statements)
            for e in _header_exprs(stmt):
                for c in ast.walk(e):
                    if isinstance(c, ast.Call) and isinstance(c.func, ast.Attribute) and c.func.attr in MUTATORS:
                        # skip calls on repo classes that define the method themselves (resolved as calls by the call graph)
                        rc = self.typed.classes_of(f, c.func.value)
                        if any(cn in self.idx.classes and self.idx.classes[cn].find_method(c.func.attr) is not None for cn in rc):
                            continue
                        o = self.owner(f, c.func.value, cfg_cache, locate(stmt))
                        if o is not None:
                            out.append(Write(f, c, 'mutcall', text(c.func), o[0], o[1], o[2] or ''))
        return out


def _flatten(t):
    if isinstance(t, (ast.Tuple, ast.List)):
        for e in t.elts:
            yield from _flatten(e)
    elif isinstance(t, ast.Starred):
        yield from _flatten(t.value)
    else:
        yield t


def _header_exprs(stmt: ast.stmt):
    """expressions evaluated by the statement itself (not by nested statements)."""
    if isinstance(stmt, (ast.If, ast.While)):
        return [stmt.test]
    if isinstance(stmt, (ast.For, ast.AsyncFor)):
        return [stmt.iter]
    if isinstance(stmt, (ast.With, ast.AsyncWith)):
        return [i.context_expr for i in stmt.items]
    if isinstance(stmt, ast.Try):
        return []
    if isinstance(stmt, ast.Match):
        return [stmt.subject]
    if isinstance(stmt, (ast.FunctionDef, ast.AsyncFunctionDef, ast.ClassDef)):
        return []
    return [stmt]
