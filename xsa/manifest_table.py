"""Source of MANIFEST.json (tools/gen_manifest.py)."""
NOTE = ('Trusted base: CPython ast, the rule instance tables in /verif/xsa/rules (each exception carries its reason), '
        'third-party code (elementpath, stdlib) is outside the analysed source. Decides only the clauses listed in '
        'DESIGN.md for this property; the quantification over runtime values stays undecided.')
PENDING = 'check not built yet in this session (design in DESIGN.md §2); will be claimed once its rules run'

CHECKS = {
    'C01': dict(ref='DESIGN.md §2 C01', technique='CFG must-pass-through (error flush), comparison normalisation, decision-chain case split',
                text='Partial: decides that the validating consumer never drops a model-visitor error and attaches it to the parent '
                     'element on every path, and that the occurrence predicates have the specified direction. Does not decide '
                     'that the visitor recognises exactly the model language.', note=NOTE),
    'C02': dict(ref='DESIGN.md §2 C02', technique='table extraction from builtins.py, comparison normalisation, reaching definitions',
                text='Partial: lexical-guard table, boolean codec, facet validator directions, normalisation-before-test and '
                     'facets-on-decoded-value are decided on every path/entry; equality with the XSD value spaces is not.', note=NOTE),
    'C03': dict(ref='DESIGN.md §2 C03', technique='CFG definite assignment, must-pass-through, control-dependence path conditions',
                text='Partial: an undeclared attribute is never silently accepted or validated with a stale declaration, required and '
                     'prohibited uses are reported, defaults/fixed/fill-missing obey their switches — on every path of '
                     'XsdAttributeGroup.raw_decode. The verdict over the product of uses x namespaces x wildcards is not decided.', note=NOTE),
    'C04': dict(ref='DESIGN.md §2 C04', technique='interval analysis of exit status, reaching definitions of the validation mode, '
                                                    'parameter-forwarding check on wrapper pairs, CFG must-pass-through',
                text='Partial: exit status faithful to the error count, one validation mode flows to every report and recursive call, '
                     'wrappers forward every parameter and their verdict depends on the iterator only, every completing path of the '
                     'drivers runs the document-wide reference check. Equality of verdicts over all documents/sources is not decided.',
                note=NOTE),
    'C05': dict(ref='DESIGN.md §2 C05', technique='CFG must-pass-through (error flush), table extraction (encoder lexical table)',
                text='Partial: no collected encode error is dropped on any path of XsdElement/XsdGroup.raw_encode, every built-in whose '
                     'python type has a non-lexical str() has a repo encoder, atomic encoders validate what they return. '
                     'Round-trip equality and validity of encoder output for all data are not decided.', note=NOTE),
    'C07': dict(ref='DESIGN.md §2 C07', technique='CFG must-pass-through and dominance, reaching definitions, control-dependence path conditions',
                text='Partial: the xsi:type pipeline (lookup, derivation, block, abstract, rebound type used for content and attributes) '
                     'is complete on every path; the path condition of nil acceptance; block levels and abstract refusal. Derivation '
                     'reachability over arbitrary type graphs and value-space comparison of fixed values are not decided.', note=NOTE),
    'C08': dict(ref='DESIGN.md §2 C08', technique='control-dependence path conditions, writer/reader table agreement, CFG must-pass-through',
                text='Partial: only complete tuples enter a key reference, the ID table writer and reader agree on their constants and a '
                     'second definition is reported, the scope-exit and end-of-document checks run on every completing path, counters '
                     'report on the second occurrence. Value-space equality of field tuples and scope nesting are not decided.', note=NOTE),
    'C11': dict(ref='DESIGN.md §2 C11', technique='handler-coverage analysis over the exception class hierarchy, explicit raise-set closures '
                                                    'from an instance table, counter/guard analysis of the parser loops, call-graph cycle vs recursion limit',
                text='Partial: converter exceptions are captured at every converter call site, the explicit raise-set of each guarded '
                     'callee is covered by the handlers at every guarding site, validation errors are raised only inside guarded '
                     'validator callables, the depth/element limit guards are well-formed with the documented threshold, and the depth '
                     'limit is compared with the recursion budget. Termination and implicit interpreter exceptions are not decided.',
                note=NOTE),
    'C12': dict(ref='DESIGN.md §2 C12', technique='who-may-call over import-resolved callees, CFG must-pass-through, per-mode partial evaluation '
                                                    'of the decision chain, reaching definitions (separator-terminated prefix)',
                text='Partial: only XMLResource.open (plus reviewed write-mode sites) opens files/URLs; access_control precedes the first '
                     'open on every path; the blocking condition per allow mode equals the specification table; sandbox containment is '
                     'segment-aware; allow/defuse reach every sub-resource construction. Confinement for every spelling of a URL is not decided.',
                note=NOTE),
    'C13': dict(ref='DESIGN.md §2 C13', technique='handler table, handler-coverage over the exception hierarchy, CFG must-pass-through, per-mode partial '
                                                    'evaluation, who-may-parse over import-resolved callees, truth-table edge cuts over the '
                                                    'position tests of the buffered reader',
                text='Partial: the three refusing expat handlers are installed unconditionally, the refusal cannot be swallowed on the way to '
                     'the caller, every defused open passes the scanner, is_defused() equals the specification per mode, XML is parsed only '
                     'by the loaders/scanner, the expat reader is put in parameter-entity mode ALWAYS (base-class mode read from the standard '
                     'library source), a failed scan is raised, and the buffered wrapper of a non-seekable stream hands the parser the bytes '
                     'the scanner saw (rewind on every return, realignment of the wrapped stream, buffer served only inside it). That expat invokes the handlers for every payload is trusted, not decided.', note=NOTE),
    'C14': dict(ref='DESIGN.md §2 C14', technique='comparison normalisation with operands identified by their definitions, control-dependence '
                                                    'path conditions, dominance, finite-table evaluation of the attribute-use test',
                text='Partial: build-time facet restriction tests reject in the same direction as the run-time validators, new bounds are '
                     'decoded by the base type, occurrence restriction has the specified direction and is consulted, the post-build '
                     'content-model and attribute restriction checks are present with exact path conditions and run before the maps are '
                     'marked built. Language inclusion of content models and wildcard inclusion are not decided.', note=NOTE),
    'C17': dict(ref='DESIGN.md §2 C17', technique='CFG must-pass-through (paired map updates), dominance, alias-vs-copy recognition, per-loop stack invariants',
                text='Partial: the prefix->URI and URI->prefix maps of NamespaceMapper move together on every path, scope snapshots are by '
                     'value and taken before the merge, the loaders\' namespace stack discipline holds, a copied context gets a private '
                     'converter. Resolution of every decoded key for every nesting is not decided.', note=NOTE),
    'C18': dict(ref='DESIGN.md §2 C18', technique='lock-discipline analysis: lexical lock regions, dominance, CFG must-pass-through incl. implicit exception edges',
                text='Partial: double-checked build lock shape with publication last, cache table writes under the cache lock, non-blocking '
                     'lazy lock released on every exit, fresh locks after pickle/copy. Equality of results under all interleavings is not decided.',
                note=NOTE),
    'C19': dict(ref='DESIGN.md §2 C19', technique='typestate (fresh/stale context element) propagated over the CFG, must-pass-through',
                text='Partial: every error gets an element (defaulted from the element under validation before it is raised/collected) and no '
                     'report reachable after a child was processed relies on the stale context element. That the reported path selects '
                     'exactly the damaged node for every fault is not decided.', note=NOTE),
    'C20': dict(ref='DESIGN.md §2 C20', technique='transitive control dependence with taint (max_depth), reaching definitions (schema_path provenance)',
                text='Partial: no verdict-producing statement of the element/group decoders is control dependent on max_depth (one known '
                     'finding), only the descent is cut; the path-driven drivers select the declaration through get_element with the '
                     'defaulted schema path and report missing declarations. Correspondence of schema.find(path) with the governing '
                     'declaration is not decided.', note=NOTE),
    'C06': dict(ref='DESIGN.md §2 C06', technique='sibling cross-check of the lazy and full parser loops, typestate of pruned subtrees over the CFG of the '
                                                    'lazy iterators (edge-cut reachability within one iteration), must-pass-through in the drivers',
                text='Partial: decides structural necessary conditions of lazy = full - the lazy parser loop keeps the namespace stack like '
                     'the full one and binds the maps before it yields; a subtree is pruned only on its end event at the lazy depth, after '
                     'everything of it was yielded, and only the maps of removed nodes are dropped; the drivers flush errors per chunk, '
                     'validate the pruned root above the cut on counters that are merged back before the end-of-document reference check; '
                     'every chunk gets its own namespace context; the live ancestor list is remembered by copy; one iteration at a time. '
                     'Equality of verdicts, errors and data for every chunking of every document is not decided; lazy depth >= 2 is not '
                     'claimed by the property itself.', note=NOTE),
    'C15': dict(ref='DESIGN.md §2 C15', technique='edge-cut reachability within loop iterations of check_model and XsdGlobals.check, handler shape, '
                                                    'copy-vs-alias of the live path list, predicate shape',
                text='Partial: decides the structural necessary conditions around the determinism checker - every complex content model is '
                     'checked after the build and a model error fails a strict build; each leaf particle is compared with every remembered '
                     'leaf and paths are remembered by copy; the EDC report depends on the consistency test alone (open content included) and '
                     'precedes the overlap shortcut; an element competing with an XSD 1.1 wildcard gets precedence instead of an error, and the '
                     'wildcard honours it; same name implies same type. Does NOT decide that distinguishable_paths separates exactly the '
                     'deterministic pairs - the accept/reject verdict for a given model (e.g. the quoted (a, c+, a*)+) is out of static reach.',
                note=NOTE),
    'C16': dict(ref='DESIGN.md §2 C16', technique='partial evaluation of hand-written case splits per pair of constraint kinds (folding of the if-chain, no '
                                                    'execution), canonical vocabulary of set relations compared with the set reading, path conditions at derivation sites',
                text='Partial: for every kind of namespace constraint (notNamespace / ##any / ##other / list) is_namespace_allowed folds to the '
                     'membership test of the denoted set; is_matching asks about the right namespace; for all 16 pairs of kinds is_restriction '
                     'folds to the inclusion and is_overlap to the non-empty intersection of the denoted sets; derivations call the matching '
                     'operation. Two known findings (XSI namespace admitted by every list/##other constraint; union(##other, list containing '
                     'the target namespace) drops it). Does NOT decide the in-place algebra of union()/intersection() beyond that clause, nor '
                     'notQName.', note=NOTE),
    'C09': dict(ref='DESIGN.md §2 C09', technique='type-resolved call graph (mypy expression types + class-hierarchy analysis) with '
                                                    'observation-site detection, pickle/copy pairing of lock attributes, reaching definitions',
                text='Partial: no function reachable from the on-demand builder enumerates, measures or copies a staged global map (so the '
                     'outcome cannot depend on what happens to be built already), every lock/cache attribute is excluded from the pickled '
                     'state and recreated under its own name, locations are compared in normalised form. Equality of outcomes for permuted '
                     'or split schemas is not decided.',
                note=NOTE + ' Additionally trusts the mypy type map for receiver classes; untyped receivers fall back to name-based '
                            'class-hierarchy analysis (counted as imprecise in the evidence).'),
    'C10': dict(ref='DESIGN.md §2 C10', technique='effect inventory over the type-resolved validation-time call graph compared with a reviewed '
                                                    'table; dominance (scratch context reset); monotonicity of widening writes',
                text='Partial: every write to state that outlives a validation call (attribute/subscript stores, del, mutating calls on '
                     'persistent classes or module-level names) is one of the reviewed rows, the widening rows only add, the shared scratch '
                     'context is cleared before each use, contexts are per call. That the allowed shared state is behaviour-neutral for '
                     'all histories is not decided.',
                note=NOTE + ' Additionally trusts the mypy type map; constructor edges of persistent classes are cut (fresh objects).'),
}
NOT_APPLICABLE = {
}
FIX_COMMITS = ['0d39fae', 'ee7fbf0', 'ec74ff3', '0116491', '72bb2c6', '4feb9ab', '7a4e62d', '30a94f5', '6402c4d', 'ecfd2cd', '4061701', '189c2b3', '32b357f', '55a609d', 'a42390f', '47eaeb4', 'f5ca257', '5af3cbd', 'b005669', '4d357b3', '2d00ca1', '2d446c7', 'c2c108f', '4d59c40', '4b7bf54', 'bbdb6e6', '82136ff', '8e33f76', '8b08716', 'aa32fce', 'ab06ad9', 'b32c66b', 'f376e1c', 'ec43b70', 'ce59fc4', '493279c', '5984c10', 'd77b084', '6574beb', 'c3b8fef', '5e30e77', '45fc811', 'e9ab341', '707dd96', '564aab0', '0c2564c', 'dfda84c', '520a577', '4633d65', 'eda068b', '4189ddb', '63b1bca', '3f24dc5', '25e94da', '6817b4f', '5728b71', '732bf61', 'e472405', 'd902390', 'f5e7af7', '1134d7e', '89cc536', 'f1770d9', 'b3ccfbc', '79bc8c5', '1d2ede5', '6816ebb', '3b0bbf7', '08a23d6', '3e736a9', 'aabcb54', '8bd58bd', '86ea39e', 'cad588d', 'a9b2656', '9db1dd7', '9d953c9', 'daf365e', '85e8340', 'e56e7e0']
