"""setup_cmd: nothing to build — verify the interpreter and that the package parses."""
import sys
from .index import Index
idx = Index()
print(f'xsa ready: python {sys.version.split()[0]}, {len(idx.modules)} modules, {len(idx.functions)} functions indexed')
