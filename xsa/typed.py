"""L1 typed facts (expression span -> static classes) with a digest-keyed cache, and L2 the call graph."""
from __future__ import annotations

import ast
import fcntl
import json
import os
import shutil
import subprocess
import sys
import tempfile
import time
from typing import Iterable, Optional

from .index import AnalysisError, ClassInfo, FuncInfo, Index, dotted
from .astutil import text, walk_no_nested

VERIF = os.path.dirname(os.path.dirname(os.path.abspath(__file__)))
CACHE = os.path.join(VERIF, '.cache')


class Typed:
    def __init__(self, idx: Index, data: dict) -> None:
        self.idx = idx
        self.types: dict[str, dict[str, list[str]]] = data['types']
        self.meta = {k: data[k] for k in ('mypy', 'wall_s', 'expressions', 'errors')}
        self._line_maps: dict[str, list[Optional[list[int]]]] = {}

    def _col(self, m, lineno: int, byte_col: int) -> int:
        """ast col offsets are UTF-8 byte offsets; mypy's are character offsets."""
        lines = self._line_maps.get(m.name)
        if lines is None:
            lines = m.source.split('\n')
            self._line_maps[m.name] = lines
        try:
            ln = lines[lineno - 1]
        except IndexError:
            return byte_col
        if ln.isascii():
            return byte_col
        return len(ln.encode('utf-8')[:byte_col].decode('utf-8', 'ignore'))

    def classes_of(self, f: FuncInfo, e: ast.AST) -> list[str]:
        """Static classes of expression ``e`` in function ``f`` ([] when the checker has no type for it)."""
        m = f.module
        rows = self.types.get(m.name)
        if rows is None or not hasattr(e, 'lineno'):
            return []
        key = f'{e.lineno}:{self._col(m, e.lineno, e.col_offset)}:{e.end_lineno}:{self._col(m, e.end_lineno, e.end_col_offset)}'
        return rows.get(key, [])


def _build(repo: str, out: str) -> None:
    env = dict(os.environ)
    env['PYTHONPATH'] = VERIF
    p = subprocess.run([sys.executable, '-B', '-m', 'xsa.typed_worker', repo, out], env=env, cwd=VERIF,
                       stdout=subprocess.PIPE, stderr=subprocess.PIPE, text=True, timeout=900)
    if p.returncode != 0 or not os.path.exists(out):
        raise AnalysisError(f'mypy facts build failed (rc={p.returncode}): {p.stderr[-400:]}')


def load(idx: Index) -> Typed:
    """Typed facts for the tree ``idx`` was built from (cached by source digest; overlays are materialised
    in a scratch copy outside /repo and /verif and removed afterwards)."""
    os.makedirs(CACHE, exist_ok=True)
    out = os.path.join(CACHE, f'l1-{idx.digest[:32]}.json')
    lock = open(os.path.join(CACHE, f'l1-{idx.digest[:32]}.lock'), 'w')   # per tree state: variants build in parallel
    try:
        fcntl.flock(lock, fcntl.LOCK_EX)
        if not os.path.exists(out):
            if idx.overlay:
                tmp = tempfile.mkdtemp(prefix='xsa-l1-')
                try:
                    shutil.copytree(os.path.join(idx.repo, idx.pkg), os.path.join(tmp, idx.pkg),
                                    ignore=shutil.ignore_patterns('__pycache__', 'locale', 'schemas'))
                    for rel, src in idx.overlay.items():
                        with open(os.path.join(tmp, rel), 'w', encoding='utf-8') as fp:
                            fp.write(src)
                    _build(tmp, out)
                finally:
                    shutil.rmtree(tmp, ignore_errors=True)
            else:
                _build(idx.repo, out)
            # keep the cache small: only files that no concurrent run can still need (older than two hours) are pruned
            now = time.time()
            olds = sorted((os.path.join(CACHE, x) for x in os.listdir(CACHE) if x.startswith('l1-') and x.endswith('.json')),
                          key=lambda x: _mtime(x))
            for x in olds[:-60]:
                if now - _mtime(x) < 7200:
                    continue
                for y in (x, x[:-5] + '.lock'):
                    try:
                        os.remove(y)
                    except OSError:
                        pass
        with open(out) as fp:          # read under the lock: a concurrent prune cannot take the file away in between
            data = json.load(fp)
    finally:
        fcntl.flock(lock, fcntl.LOCK_UN)
        lock.close()
    return Typed(idx, data)


def _mtime(path: str) -> float:
    try:
        return os.path.getmtime(path)
    except OSError:
        return 0.0


# ------------------------------------------------------------------------------------------ L2 call graph
DUNDER_FOR = {'iter': '__iter__', 'getitem': '__getitem__', 'contains': '__contains__', 'len': '__len__', 'call': '__call__',
              'enter': '__enter__', 'copy': '__copy__', 'setitem': '__setitem__', 'delitem': '__delitem__', 'bool': '__bool__'}


class CallGraph:
    """Edges between repo functions. Receivers are resolved through L1 types; an untyped (Any) receiver falls
    back to class-hierarchy analysis by method name and the edge is marked imprecise."""

    def __init__(self, idx: Index, typed: Typed, cut: Iterable[str] = ()) -> None:
        self.idx = idx
        self.typed = typed
        self.cut = set(cut)
        self.edges: dict[str, set[str]] = {}
        self.imprecise: set[tuple[str, str]] = set()
        self.sites: dict[tuple[str, str], list[int]] = {}
        self._by_method: dict[str, list[FuncInfo]] = {}
        for f in idx.functions.values():
            if f.cls is not None:
                self._by_method.setdefault(f.name, []).append(f)
        self.stats = {'calls': 0, 'resolved': 0, 'imprecise': 0, 'external': 0}
        for f in idx.functions.values():
            if f.module.name.startswith('xmlschema.testing'):
                continue
            self._scan(f)

    # --- resolution helpers
    def _methods_on(self, classes: list[str], name: str) -> tuple[list[FuncInfo], bool]:
        """Methods ``name`` reachable on receivers of the given static classes (+ overrides in subclasses)."""
        out: list[FuncInfo] = []
        known = False
        for cn in classes:
            if cn.startswith('type['):
                cn = cn[5:-1]
            c = self.idx.classes.get(cn)
            if c is None:
                continue
            known = True
            for k in self.idx.subclasses(c):
                m = k.find_method(name)
                if m is not None and m not in out:
                    out.append(m)
        return out, known

    def _add(self, f: FuncInfo, callee: FuncInfo, line: int, imprecise: bool = False) -> None:
        if callee.qualname in self.cut:
            return
        self.edges.setdefault(f.qualname, set()).add(callee.qualname)
        self.sites.setdefault((f.qualname, callee.qualname), []).append(line)
        if imprecise:
            self.imprecise.add((f.qualname, callee.qualname))

    def _attr_targets(self, f: FuncInfo, recv: ast.AST, name: str, line: int) -> bool:
        classes = self.typed.classes_of(f, recv)
        # `self` inside a method: the class and its subclasses
        if isinstance(recv, ast.Name) and recv.id in ('self', 'cls') and f.cls is not None and not classes:
            classes = [f.cls.qualname]
        if isinstance(recv, ast.Call) and text(recv.func) == 'super' and f.cls is not None:
            for b in f.cls.mro()[1:]:
                if name in b.methods:
                    self._add(f, b.methods[name], line)
                    return True
            return False
        ms, known = self._methods_on(classes, name)
        if ms:
            for m in ms:
                self._add(f, m, line)
            return True
        if known:
            return False      # a repo class without such a method: attribute holding a callable etc.
        root = recv
        while isinstance(root, (ast.Attribute, ast.Subscript, ast.Call)):
            root = root.value if not isinstance(root, ast.Call) else root.func
        if isinstance(root, ast.Name) and root.id in f.module.imports and not (self.idx.resolve_name(f.module, root.id) or '').startswith(self.idx.pkg):
            return False      # a call into an imported third-party / stdlib module
        if not classes or classes == ['Any'] or 'Any' in classes:
            # untyped receiver: class-hierarchy analysis by name (imprecise)
            cands = self._by_method.get(name, [])
            if cands and not name.startswith('__') and len(cands) <= 40 and name not in ('get', 'update', 'copy', 'clear', 'items', 'keys',
                                                                                          'values', 'append', 'pop', 'add', 'strip', 'split',
                                                                                          'format', 'join', 'encode', 'decode', 'read', 'close'):
                for m in cands:
                    self._add(f, m, line, imprecise=True)
                self.stats['imprecise'] += 1
                return True
        return False

    def _scan(self, f: FuncInfo) -> None:
        idx = self.idx
        for n in walk_no_nested(f.node):
            if isinstance(n, ast.Call):
                self.stats['calls'] += 1
                fn = n.func
                ok = False
                if isinstance(fn, ast.Attribute):
                    ok = self._attr_targets(f, fn.value, fn.attr, n.lineno)
                    if not ok:
                        d = dotted(fn)
                        full = idx.resolve_name(f.module, d) if d else None
                        if full in idx.functions:
                            self._add(f, idx.functions[full], n.lineno)
                            ok = True
                        elif full in idx.classes:
                            init = idx.classes[full].find_method('__init__')
                            if init is not None:
                                self._add(f, init, n.lineno)
                            ok = True
                elif isinstance(fn, ast.Name):
                    full = idx.resolve_name(f.module, fn.id)
                    if full in idx.functions:
                        self._add(f, idx.functions[full], n.lineno)
                        ok = True
                    elif full in idx.classes:
                        for k in ('__init__', '__new__'):
                            init = idx.classes[full].find_method(k)
                            if init is not None:
                                self._add(f, init, n.lineno)
                        ok = True
                    else:
                        # nested function, or a variable holding an instance of a repo class (-> __call__)
                        nested = idx.functions.get(f'{f.qualname}.<locals>.{fn.id}')
                        if nested is not None:
                            self._add(f, nested, n.lineno)
                            ok = True
                        else:
                            ms, known = self._methods_on(self.typed.classes_of(f, fn), '__call__')
                            for m in ms:
                                self._add(f, m, n.lineno)
                            ok = bool(ms)
                            if fn.id == 'len' and n.args:
                                ms, _ = self._methods_on(self.typed.classes_of(f, n.args[0]), '__len__')
                                for m in ms:
                                    self._add(f, m, n.lineno)
                            if fn.id in ('copy', '_copy') and n.args:
                                ms, _ = self._methods_on(self.typed.classes_of(f, n.args[0]), '__copy__')
                                for m in ms:
                                    self._add(f, m, n.lineno)
                            if fn.id in ('iter', 'list', 'tuple', 'set', 'sorted', 'any', 'all', 'sum', 'enumerate', 'reversed', 'filter', 'map', 'next') and n.args:
                                for a in n.args:
                                    ms, _ = self._methods_on(self.typed.classes_of(f, a), '__iter__')
                                    for m in ms:
                                        self._add(f, m, n.lineno)
                if ok:
                    self.stats['resolved'] += 1
                else:
                    self.stats['external'] += 1
            elif isinstance(n, (ast.For, ast.comprehension)):
                ms, _ = self._methods_on(self.typed.classes_of(f, n.iter), '__iter__')
                for m in ms:
                    self._add(f, m, n.iter.lineno)
            elif isinstance(n, ast.Subscript):
                name = '__getitem__' if isinstance(n.ctx, ast.Load) else '__setitem__' if isinstance(n.ctx, ast.Store) else '__delitem__'
                ms, _ = self._methods_on(self.typed.classes_of(f, n.value), name)
                for m in ms:
                    self._add(f, m, n.lineno)
            elif isinstance(n, ast.Compare):
                for op, c in zip(n.ops, n.comparators):
                    if isinstance(op, (ast.In, ast.NotIn)):
                        ms, _ = self._methods_on(self.typed.classes_of(f, c), '__contains__')
                        for m in ms:
                            self._add(f, m, n.lineno)
            elif isinstance(n, (ast.With, ast.AsyncWith)):
                for it in n.items:
                    for nm_ in ('__enter__', '__exit__'):
                        ms, _ = self._methods_on(self.typed.classes_of(f, it.context_expr), nm_)
                        for m in ms:
                            self._add(f, m, n.lineno)
            elif isinstance(n, ast.Attribute) and isinstance(n.ctx, ast.Load):
                # property reads
                classes = self.typed.classes_of(f, n.value)
                if isinstance(n.value, ast.Name) and n.value.id == 'self' and f.cls is not None and not classes:
                    classes = [f.cls.qualname]
                for cn in classes:
                    c = idx.classes.get(cn)
                    if c is None:
                        continue
                    for k in idx.subclasses(c):
                        m = k.find_method(n.attr)
                        if m is not None and any(d.split('.')[-1] in ('property', 'cached_property', 'schema_cached_property') for d in m.decorators):
                            self._add(f, m, n.lineno)
            elif isinstance(n, (ast.FunctionDef, ast.AsyncFunctionDef, ast.Lambda)) and n is not f.node:
                q = f'{f.qualname}.<locals>.{getattr(n, "name", "<lambda>")}'
                if q in idx.functions:
                    self._add(f, idx.functions[q], n.lineno)    # a nested def is assumed to be called

    def reachable(self, roots: Iterable[str]) -> dict[str, Optional[str]]:
        """qualname -> predecessor on a shortest path from the roots (None for roots)."""
        from collections import deque
        prev: dict[str, Optional[str]] = {}
        dq = deque()
        for r in roots:
            if r in self.idx.functions and r not in prev:
                prev[r] = None
                dq.append(r)
        while dq:
            x = dq.popleft()
            for y in sorted(self.edges.get(x, ())):
                if y not in prev:
                    prev[y] = x
                    dq.append(y)
        return prev

    def path_to(self, prev: dict[str, Optional[str]], q: str) -> list[str]:
        out = []
        cur: Optional[str] = q
        while cur is not None:
            out.append(cur)
            cur = prev.get(cur)
        return list(reversed(out))
