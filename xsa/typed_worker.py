"""L1 worker: one mypy library build of <repo>/xmlschema; dumps expression spans -> static type classes.

Run as a separate process (``python -m xsa.typed_worker <repo> <out.json>``): mypy's teardown is slow
and its compiled node classes cannot be subclassed, so the worker only extracts what the rules need —
for every expression the type checker typed: (module, line, col, end_line, end_col) -> list of class
full names (``Any`` when untyped) — and leaves through os._exit.
"""
from __future__ import annotations

import json
import os
import sys
import time


def summarize(t, depth=0) -> list[str]:
    import mypy.types as T
    if depth > 4:
        return ['?']
    t = T.get_proper_type(t)
    if isinstance(t, T.Instance):
        return [t.type.fullname]
    if isinstance(t, T.UnionType):
        out = []
        for it in t.items:
            for s in summarize(it, depth + 1):
                if s not in out:
                    out.append(s)
        return out
    if isinstance(t, T.NoneType):
        return ['None']
    if isinstance(t, T.AnyType):
        return ['Any']
    if isinstance(t, T.TypeVarType):
        return summarize(t.upper_bound, depth + 1)
    if isinstance(t, T.TupleType):
        return summarize(t.partial_fallback, depth + 1)
    if isinstance(t, T.TypedDictType):
        return ['builtins.dict']
    if isinstance(t, T.LiteralType):
        return summarize(t.fallback, depth + 1)
    if isinstance(t, T.TypeType):
        return ['type[' + ','.join(summarize(t.item, depth + 1)) + ']']
    if isinstance(t, T.CallableType):
        if t.is_type_obj():
            return ['type[' + t.type_object().fullname + ']']
        return ['callable']
    if isinstance(t, T.Overloaded):
        return ['callable']
    if isinstance(t, T.UninhabitedType):
        return ['Never']
    return ['?']


def main(repo: str, out: str) -> None:
    t0 = time.time()
    from mypy import build
    from mypy.options import Options
    from mypy.find_sources import create_source_list
    import mypy.nodes as N
    os.chdir(repo)
    opts = Options()
    opts.preserve_asts = True
    opts.export_types = True
    opts.incremental = False
    opts.cache_dir = os.devnull
    opts.python_version = (3, 12)
    opts.follow_imports = 'silent'
    opts.ignore_missing_imports = True
    opts.check_untyped_defs = True
    opts.warn_unreachable = False
    srcs = create_source_list(['xmlschema'], opts)
    res = build.build(srcs, opts)
    data = {}
    n_expr = 0
    all_types = res.types
    SKIP = {'node', 'def_var', 'info', 'type', 'unanalyzed_type', 'original_def', 'impl', 'func_def', 'var', 'typ',
            'type_annotation', 'unanalyzed_type_annotation', 'defn', 'fullname', 'names', 'imports', 'plugin_deps',
            'alias_deps', 'analyzed', 'type_guard', 'type_is', 'bound_args', 'original_first_arg', 'deco_line', 'definition'}
    attr_cache = {}

    def attrs_of(tp):
        a = attr_cache.get(tp)
        if a is None:
            a = [n for n in dir(tp) if not n.startswith('_') and n not in SKIP and not callable(getattr(tp, n, None))]
            attr_cache[tp] = a
        return a

    for mod, f in res.files.items():
        if not mod.startswith('xmlschema'):
            continue
        rows = {}
        seen = set()
        stack = list(f.defs)
        while stack:
            node = stack.pop()
            if id(node) in seen:
                continue
            seen.add(id(node))
            if isinstance(node, N.Expression):
                t = all_types.get(node)
                if t is not None:
                    line = getattr(node, 'line', -1)
                    col = getattr(node, 'column', -1)
                    el = getattr(node, 'end_line', None)
                    ec = getattr(node, 'end_column', None)
                    if line is not None and line >= 0 and el is not None and ec is not None:
                        key = f'{line}:{col}:{el}:{ec}'
                        sm = summarize(t)
                        if key in rows:
                            for x in sm:
                                if x not in rows[key]:
                                    rows[key].append(x)
                        else:
                            rows[key] = sm
                        n_expr += 1
            for name in attrs_of(type(node)):
                try:
                    v = getattr(node, name)
                except Exception:
                    continue
                if isinstance(v, N.Node):
                    stack.append(v)
                elif isinstance(v, (list, tuple)):
                    for x in v:
                        if isinstance(x, N.Node):
                            stack.append(x)
                        elif isinstance(x, (list, tuple)):
                            for y in x:
                                if isinstance(y, N.Node):
                                    stack.append(y)
        data[mod] = rows
    # class table as mypy sees it (used only for cross-checking the ast index)
    classes = {}
    for mod, f in res.files.items():
        if not mod.startswith('xmlschema'):
            continue
        for name, sym in f.names.items():
            node = sym.node
            if isinstance(node, N.TypeInfo) and node.fullname.startswith('xmlschema'):
                classes[node.fullname] = [b.fullname for b in node.mro]
    import mypy.version
    with open(out + '.tmp', 'w') as fp:
        json.dump({'mypy': mypy.version.__version__, 'wall_s': round(time.time() - t0, 2), 'expressions': n_expr,
                   'errors': len(res.errors), 'types': data, 'classes': classes}, fp)
    os.replace(out + '.tmp', out)
    sys.stdout.flush()
    os._exit(0)


if __name__ == '__main__':
    main(sys.argv[1], sys.argv[2])
