"""Per-mode decision tables by partial evaluation of an if/elif chain (or a boolean expression).

The analyser folds the tests ``<mode expr> == '<literal>'`` for one mode value and treats every
other recognised test as a propositional *atom*; it then enumerates the (finite) truth assignments
of the atoms and records the outcome (raise / return value) of the decision code.  The result is a
boolean function per mode that is compared with a specification formula over the same atoms.
Nothing of the repository is executed: the walk is over syntax, with an explicit fragment; a
construct outside the fragment is an analysis error (UNRECOGNISED-IDIOM), not a verdict.
"""
from __future__ import annotations

import ast
import itertools
from typing import Callable, Optional

from .astutil import text
from .index import AnalysisError


class Unrecognised(AnalysisError):
    pass


class Outcome(Exception):
    def __init__(self, kind: str, value=None):
        self.kind = kind      # 'raise' | 'return'
        self.value = value


def _has_exit(stmts) -> bool:
    return any(isinstance(x, (ast.Return, ast.Raise)) for s in stmts for x in ast.walk(s))


class Evaluator:
    def __init__(self, mode_expr: str, atoms: list[tuple[str, Callable[[ast.AST], bool]]]):
        """atoms: (atom name, recogniser on an expression node)."""
        self.mode_expr = mode_expr
        self.atoms = atoms

    def atom_of(self, e: ast.AST) -> Optional[str]:
        for name, rec in self.atoms:
            if rec(e):
                return name
        return None

    def ev(self, e: ast.AST, mode: str, env: dict[str, bool]):
        if isinstance(e, ast.Constant):
            return e.value
        if isinstance(e, ast.UnaryOp) and isinstance(e.op, ast.Not):
            return not self.ev(e.operand, mode, env)
        if isinstance(e, ast.BoolOp):
            if isinstance(e.op, ast.And):
                r = True
                for v in e.values:
                    r = self.ev(v, mode, env)
                    if not r:
                        return r
                return r
            r = False
            for v in e.values:
                r = self.ev(v, mode, env)
                if r:
                    return r
            return r
        if isinstance(e, ast.Compare) and len(e.ops) == 1 and text(e.left) == self.mode_expr \
                and isinstance(e.comparators[0], ast.Constant) and isinstance(e.ops[0], (ast.Eq, ast.NotEq)):
            r = mode == e.comparators[0].value
            return r if isinstance(e.ops[0], ast.Eq) else not r
        if isinstance(e, ast.Compare) and len(e.ops) == 1 and text(e.left) == self.mode_expr \
                and isinstance(e.ops[0], (ast.In, ast.NotIn)) and isinstance(e.comparators[0], (ast.Tuple, ast.Set, ast.List)):
            vals = [x.value for x in e.comparators[0].elts if isinstance(x, ast.Constant)]
            r = mode in vals
            return r if isinstance(e.ops[0], ast.In) else not r
        a = self.atom_of(e)
        if a is not None:
            return env[a]
        raise Unrecognised(f'UNRECOGNISED-IDIOM decision test `{text(e)[:60]}` is outside the folded fragment')

    def run(self, stmts, mode: str, env: dict[str, bool]) -> None:
        for s in stmts:
            if isinstance(s, ast.Expr) and isinstance(s.value, ast.Constant):
                continue
            if isinstance(s, ast.Return):
                raise Outcome('return', None if s.value is None else self.ev(s.value, mode, env))
            if isinstance(s, ast.Raise):
                raise Outcome('raise', text(s.exc.func if isinstance(s.exc, ast.Call) else s.exc) if s.exc is not None else None)
            if isinstance(s, ast.If):
                if not _has_exit(s.body) and not _has_exit(s.orelse):
                    continue    # bookkeeping only (e.g. normalising a local string)
                if self.ev(s.test, mode, env):
                    self.run(s.body, mode, env)
                else:
                    self.run(s.orelse, mode, env)
                continue
            if isinstance(s, ast.Match) and text(s.subject) == self.mode_expr:
                done = False
                for c in s.cases:
                    p = c.pattern
                    vals = None
                    if isinstance(p, ast.MatchValue) and isinstance(p.value, ast.Constant):
                        vals = [p.value.value]
                    elif isinstance(p, ast.MatchOr):
                        vals = [q.value.value for q in p.patterns if isinstance(q, ast.MatchValue) and isinstance(q.value, ast.Constant)]
                    elif isinstance(p, ast.MatchAs) and p.pattern is None:
                        vals = [mode]
                    if vals is None:
                        raise Unrecognised(f'UNRECOGNISED-IDIOM case pattern `{text(p)}`')
                    if mode in vals and (c.guard is None or self.ev(c.guard, mode, env)):
                        self.run(c.body, mode, env)
                        done = True
                        break
                continue
            if isinstance(s, (ast.Assign, ast.AugAssign, ast.AnnAssign, ast.Pass)) or \
                    (isinstance(s, ast.Expr) and isinstance(s.value, ast.Call) and not _has_exit([s])):
                continue    # local bookkeeping
            raise Unrecognised(f'UNRECOGNISED-IDIOM statement `{text(s)[:60]}` in a decision function')

    def table(self, stmts, modes: list[str]) -> dict[str, dict[tuple, tuple[str, object]]]:
        names = [n for n, _ in self.atoms]
        out: dict[str, dict[tuple, tuple[str, object]]] = {}
        for m in modes:
            rows = {}
            for vals in itertools.product((False, True), repeat=len(names)):
                env = dict(zip(names, vals))
                try:
                    self.run(stmts, m, env)
                    rows[vals] = ('fallthrough', None)
                except Outcome as o:
                    rows[vals] = (o.kind, o.value)
            out[m] = rows
        return out
