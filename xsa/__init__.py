"""xsa — static analysis of /repo/xmlschema for the properties in /verif/properties.jsonl."""
