"""Rule context, findings, known-findings matching, evidence writing, exit codes."""
from __future__ import annotations

import json
import os
import re
import sys
import time
import traceback
from dataclasses import dataclass, field
from typing import Any, Callable, Optional

from .index import AnalysisError, Index

VERIF = os.path.dirname(os.path.dirname(os.path.abspath(__file__)))
KNOWN_FILE = os.path.join(VERIF, 'known_findings.json')


@dataclass
class Obligation:
    rule: str
    instance: str
    loc: str
    ok: bool
    detail: str = ''
    key: str = ''
    nontrivial: bool = True

    def as_dict(self) -> dict:
        return {'rule': self.rule, 'instance': self.instance, 'loc': self.loc,
                'verdict': 'ok' if self.ok else 'VIOLATED', 'detail': self.detail}


def squash(text: str) -> str:
    return re.sub(r'\s+', ' ', text).strip()


class Ctx:
    """Shared state handed to every rule of one property run."""

    def __init__(self, prop: str, idx: Index, tier: str = 'quick') -> None:
        self.prop = prop
        self.idx = idx
        self.tier = tier
        self.obligations: list[Obligation] = []
        self.notes: list[str] = []
        self.functions_analysed: set[str] = set()
        self.counters: dict[str, int] = {}
        self.trusted: list[str] = []
        self.assumptions: list[str] = []
        self.explanations: list[str] = []
        self._typed = None
        self.floor_failures: list[str] = []

    # -- recording
    def ob(self, rule: str, instance: str, loc: str, ok: bool, detail: str = '', key: Optional[str] = None,
           nontrivial: bool = True) -> bool:
        k = key if key is not None else instance
        self.obligations.append(Obligation(rule, instance, loc, bool(ok), detail, f'{rule}|{squash(k)}', nontrivial))
        return bool(ok)

    def note(self, text: str) -> None:
        self.notes.append(text)

    def analysed(self, *qualnames: str) -> None:
        self.functions_analysed.update(qualnames)

    def count(self, name: str, n: int = 1) -> None:
        self.counters[name] = self.counters.get(name, 0) + n

    def floor(self, rule: str, what: str, count: int, minimum: int) -> None:
        self.counters[f'{rule}:{what}'] = count
        if count < minimum:
            # deferred: if the same run also reports a violation, the violation is the verdict
            self.floor_failures.append(f'{rule}: only {count} {what} found, expected at least {minimum} '
                                       f'(the rule would pass vacuously)')

    def explain(self, text: str) -> None:
        self.explanations.append(text)

    def unrecognised(self, rule: str, loc: str, what: str) -> None:
        raise AnalysisError(f'UNRECOGNISED-IDIOM {rule} at {loc}: {what}')

    @property
    def typed(self):
        if self._typed is None:
            from . import typed
            self._typed = typed.load(self.idx)
        return self._typed


def load_known() -> dict:
    with open(KNOWN_FILE) as fp:
        return json.load(fp)


def collect(prop: str, rules: list, tier: str, idx: Index):
    """Run the rules; split failed obligations into (violations, known findings)."""
    ctx = Ctx(prop, idx, tier)
    for r in rules:
        r(ctx)
    rec = [(q, a, b) for q, a, b in getattr(idx, 'recovered_names', []) if q in ctx.functions_analysed]
    if rec:
        ctx.note('locals recognised under another name (xsa/roles.py; diagnostics use the reference name): '
                 + ', '.join(f'{q.split(".", 1)[-1]}: {a} -> {b}' for q, a, b in rec[:20]))
    known = load_known()
    known_keys = {}
    for k in known.get('findings', []):
        if k.get('property') == prop and k.get('status', 'known') == 'known':
            known_keys[k['key']] = k
    viol = []
    known_hit = []
    for o in ctx.obligations:
        if o.ok:
            continue
        if o.key in known_keys:
            known_hit.append(o)
        else:
            viol.append(o)
    if ctx.floor_failures and not viol:
        raise AnalysisError('; '.join(ctx.floor_failures))
    return ctx, viol, known_hit


def run_property(prop: str, rules: list[Callable[[Ctx], None]], tier: str, level: str = 'other',
                 idx: Optional[Index] = None, write_evidence: bool = True, quiet: bool = False,
                 extra: Optional[Callable[[Ctx], dict]] = None, t0: Optional[float] = None) -> int:
    """Run the rules of one property; print report; write evidence; return exit code."""
    t0 = t0 or time.time()
    seed = int(os.environ.get('VERIF_SEED', '0') or 0)
    out = (lambda *a: None) if quiet else (lambda *a: print(*a, flush=True))
    try:
        idx = idx or Index()
        ctx, viol, known_hit = collect(prop, rules, tier, idx)
        extra_cov = extra(ctx) if extra else {}
    except AnalysisError as e:
        out(f'ANALYSIS-ERROR property={prop} {e}')
        return 2
    except Exception:
        out(f'ANALYSIS-ERROR property={prop} internal error')
        if not quiet:
            traceback.print_exc()
        return 2
    total = len(ctx.obligations)
    okc = sum(1 for o in ctx.obligations if o.ok)
    by_rule: dict[str, list[Obligation]] = {}
    for o in ctx.obligations:
        by_rule.setdefault(o.rule, []).append(o)
    out(f'== {prop} tier={tier} repo={idx.repo} modules={len(idx.modules)} functions={len(idx.functions)}')
    for rname in sorted(by_rule):
        obs = by_rule[rname]
        out(f'  {rname}: {sum(1 for o in obs if o.ok)}/{len(obs)} obligations discharged')
    for n in ctx.notes:
        out(f'  note: {n}')
    for o in known_hit:
        out(f'KNOWN-FINDING: property={prop} {o.rule} {o.loc} {o.instance}: {o.detail}')
    replay = ''
    if viol:
        os.makedirs(os.path.join(VERIF, 'replay'), exist_ok=True)
        replay = os.path.join(VERIF, 'replay', f'{prop}.json')
        with open(replay, 'w') as fp:
            json.dump({'property': prop, 'repo': idx.repo, 'digest': idx.digest,
                       'violations': [dict(o.as_dict(), key=o.key) for o in viol]}, fp, indent=1)
        for o in viol:
            out(f'  VIOLATED {o.rule} {o.loc} {o.instance}: {o.detail}')
            out(f'    key: {o.key}')
        out(f'VIOLATION property={prop} replay={replay}')
    if write_evidence:
        distinct = len({o.key for o in ctx.obligations if o.nontrivial})
        samples = []
        seen_rules = set()
        for o in ctx.obligations:       # at least two per rule, failing ones first
            c = sum(1 for s in samples if s['rule'] == o.rule)
            if c < 3:
                samples.append(o.as_dict())
        for o in known_hit + viol:
            d = o.as_dict()
            if d not in samples:
                samples.append(d)
        cov: dict[str, Any] = {
            'explanation': ' '.join(ctx.explanations) or f'static rules of {prop}',
            'obligations': total,
            'discharged': okc,
            'evaluations': total,
            'distinct_nontrivial': distinct,
            'rule': 'one obligation per rule instance (a construct in the current source the rule template '
                    'matched); distinct = distinct rule|construct keys; an instance is non-trivial when it '
                    'matched a real construct of /repo (floors make vacuous passes an analysis error)',
            'samples': samples,
            'rules': {r: {'obligations': len(v), 'discharged': sum(1 for o in v if o.ok)} for r, v in sorted(by_rule.items())},
            'functions_analysed': sorted(ctx.functions_analysed),
            'counters': ctx.counters,
            'modules_parsed': len(idx.modules),
            'functions_indexed': len(idx.functions),
            'source_digest': idx.digest,
            'known_findings': [f'{o.rule} {o.loc} {o.instance}' for o in known_hit],
            'notes': ctx.notes,
            'trusted_base': ctx.trusted or ['CPython ast module', 'the rule instance tables in /verif/xsa/rules'],
            'checker_cmd': f'./check {prop} --tier {tier}',
            'exhaustive': True,
        }
        cov.update(extra_cov or {})
        ev = {
            'property_id': prop, 'tier': tier, 'seed': seed, 'level': level, 'coverage': cov,
            'assumptions': ctx.assumptions or ['the interpreter executes the analysed source as written'],
            'wall_s': round(time.time() - t0, 3), 'violations': len(viol),
        }
        os.makedirs(os.path.join(VERIF, 'evidence'), exist_ok=True)
        with open(os.path.join(VERIF, 'evidence', f'{prop}.json'), 'w') as fp:
            json.dump(ev, fp, indent=1, sort_keys=False)
            fp.write('\n')
    out(f'== {prop}: {okc}/{total} obligations discharged, {len(known_hit)} known finding(s), '
        f'{len(viol)} violation(s), {time.time() - t0:.2f}s')
    return 1 if viol else 0
