"""C19 — error location (structural clauses).

C19.a every collected error gets an element     C19.b no stale element after recursion (typestate over the CFG)
"""
from __future__ import annotations

import ast

from ..astutil import calls, get_arg, text, walk_no_nested
from ..index import AnalysisError
from ..report import Ctx
from .common import REPORTERS, call_nodes, cfg_of, guards, is_reporter_call

VCTX = 'xmlschema.validators.validation.ValidationContext'
ELEM_ARG = {'validation_error': (3, 'obj'), 'children_validation_error': (2, 'elem'), 'missing_element_error': (2, 'elem'),
            'decode_error': (2, 'obj'), 'encode_error': (2, 'obj')}


def rule_a(ctx: Ctx) -> None:
    rule = 'C19.a'
    f = ctx.idx.method(VCTX, 'raise_or_collect')
    g = cfg_of(ctx, f)
    sets = [n for n in g.nodes if n.kind == 'stmt' and isinstance(n.ast, ast.Assign) and text(n.ast.targets[0]) == 'error.elem' and text(n.ast.value) == 'self.elem']
    ok = len(sets) == 1
    det = ''
    if ok:
        from .common import bool_atoms, bool_eval
        gs = guards(ctx, f, sets[0])
        # one test guards the fallback: it holds for an error with no location at all when the context has an element (every other atom may only narrow
        # the notion of "no location": `… is None` atoms on the error), and fails when the error has an element or the context has none
        tests = []
        ok = len(gs) == 1
        for t, lab in gs:
            try:
                e_ = ast.parse(t, mode='eval').body
            except SyntaxError:
                ok = False
                continue
            atoms = bool_atoms(e_)
            need = {'error.elem is None', 'self.elem is not None'}
            extra = [a for a in atoms if a not in need]
            ok = ok and lab == 'T' and need <= set(atoms) and all(a.startswith('error.') and a.endswith(' is None') for a in extra)
            if ok:
                env = {a: True for a in atoms}
                ok = bool_eval(e_, env) and not bool_eval(e_, {**env, 'error.elem is None': False}) and not bool_eval(e_, {**env, 'self.elem is not None': False})
            tests += [n for n in g.nodes if n.kind == 'if' and text(n.ast.test) == t]
        det = '' if ok else f'guards {sorted(gs)}'
        # before the error leaves the function (raise) or is stored (append)
        outs = [n for n in g.nodes if n.kind == 'raise'] + [n for n, c in call_nodes(g, lambda c: text(c.func) == 'self.errors.append')]
        for o in outs:
            ok = ok and g.must_pass(g.entry, [o], tests, kinds='nTF') is None
    ctx.ob(rule, 'raise_or_collect attaches the context element to an error that has none, before raising or collecting it', f.loc(), ok, det,
           key='raise_or_collect|default-elem')
    # XsdElement.raw_decode sets context.elem = obj before its first report that does not name the element
    e = ctx.idx.func('xmlschema.validators.elements.XsdElement.raw_decode')
    ge = cfg_of(ctx, e)
    ce = [n for n in ge.nodes if n.kind == 'stmt' and isinstance(n.ast, ast.Assign) and text(n.ast.targets[0]) == 'context.elem' and text(n.ast.value) == 'obj']
    ok = len(ce) >= 1
    ctx.ob(rule, 'XsdElement.raw_decode records the element under validation in the context', e.loc(ce[0].ast) if ce else e.loc(), ok, '', key='XsdElement.raw_decode|sets-elem')
    # every path to attribute/content decoding passes the assignment (they report through the context element)
    if ok:
        targets = [n for n, c in call_nodes(ge, lambda c: text(c.func) in ('attribute_group.raw_decode', 'content_decoder.raw_decode'))]
        w = None
        for t in targets:
            w = w or ge.must_pass(ge.entry, [t], ce, kinds='nTF')
        ctx.ob(rule, 'attributes and simple content (which report without naming an element) are decoded after context.elem is set', e.loc(), w is None and bool(targets),
               '', key='XsdElement.raw_decode|elem-before-decoders')
    # a copied context (validation hook / inheritable attributes) keeps the element: __copy__ copies every slot
    cp = ctx.idx.method(VCTX, '__copy__')
    ok = 'for attr in iter_class_slots(self)' in text(cp.node) and 'setattr(context, attr, getattr(self, attr))' in text(cp.node)
    ctx.ob(rule, 'a copied context keeps the current element', cp.loc(), ok, '', key='ValidationContext.__copy__|slots')
    # children_validation_error builds the error on the parent element with the child index
    ch = ctx.idx.method(VCTX, 'children_validation_error')
    ctor = [c for c in calls(ch.node) if text(c.func) == 'XMLSchemaChildrenValidationError']
    ok = len(ctor) == 1
    if ok:
        kw = {k.arg: text(k.value) for k in ctor[0].keywords}
        ok = kw.get('elem') == 'elem' and kw.get('index') == 'index' and kw.get('particle') == 'particle'
    ctx.ob(rule, 'a content-model error is built on the parent element with the index of the offending child', ch.loc(), ok, '', key='children_validation_error|ctor')
    # validation_error keeps an explicit obj and the source needed to compute the path
    ve = ctx.idx.method(VCTX, 'validation_error')
    src = text(ve.node)
    ok = 'XMLSchemaValidationError(validator, obj, str(error), self.source, self.namespaces)' in src and 'error.source = self.source' in src
    ctx.ob(rule, 'validation_error passes the instance object and the source to the error (the path is computed from them)', ve.loc(), ok, '', key='validation_error|ctor')
    ctx.explain('C19.a: the element of an error defaults to the element under validation, which XsdElement.raw_decode records '
                'before any decoder that reports without naming an element.')


def stale_analysis(ctx: Ctx, rule: str, qualname: str, elem_param: str, initially_fresh: bool, floor: int) -> None:
    f = ctx.idx.func(qualname)
    g = cfg_of(ctx, f)
    short = qualname.split('.', 2)[-1]

    def recurses(n) -> bool:
        for e in n.exprs:
            for c in calls(e):
                if isinstance(c.func, ast.Attribute) and c.func.attr == 'raw_decode' and c.args:
                    recv = text(c.func.value)
                    if recv in ('attribute_group', 'xsd_attribute'):
                        continue        # attribute decoding never descends into elements
                    return True
        return False

    def refreshes(n) -> bool:
        return n.kind == 'stmt' and isinstance(n.ast, ast.Assign) and text(n.ast.targets[0]) == 'context.elem' and text(n.ast.value) == elem_param
    # forward may-analysis: STALE reaches?
    stale_in = {n: False for n in g.nodes}
    if not initially_fresh:
        stale_in[g.entry] = True
    work = list(g.nodes)
    while work:
        n = work.pop()
        out = stale_in[n]
        if refreshes(n):
            out = False
        if recurses(n):
            out = True
        for m, lab in g.succ[n]:
            if lab in 'nTFxi' and out and not stale_in[m]:
                stale_in[m] = True
                work.append(m)
    n_after = 0
    for n, c in call_nodes(g, is_reporter_call):
        if not stale_in[n] and not recurses(n):
            continue
        n_after += 1
        meth = c.func.attr
        pos, kw = ELEM_ARG[meth]
        a = get_arg(c, pos, kw)
        ok = a is not None and text(a) == elem_param
        ctx.ob(rule, f'{short}: a report after a child was processed names the current element explicitly: {text(c)[:70]}', f.loc(c), ok,
               '' if ok else f'element argument is `{text(a)}`: context.elem may still designate a descendant, so the error would be '
               f'located at the wrong node', key=f'{qualname}|stale|{meth}|{text(c.args[2])[:30] if len(c.args) > 2 else ""}|{"" if ok else text(a)}')
    ctx.floor(rule, f'reports reachable after recursion in {short}', n_after, floor)
    # attribute decoding reports through context.elem (its `obj` is a mapping or a string, never the element): it runs while context.elem is fresh
    for n, c in call_nodes(g, lambda c: isinstance(c.func, ast.Attribute) and c.func.attr == 'raw_decode' and text(c.func.value) in ('attribute_group', 'xsd_attribute')):
        ok = not stale_in[n]
        ctx.ob(rule, f'{short}: `{text(c)[:60]}` runs while context.elem designates the element that carries the attributes', f.loc(c), ok,
               '' if ok else 'the attributes are decoded after a raw_decode call that descends into the children and nothing restores context.elem: an attribute error '
               '(bad value, missing required, undeclared) is located at the last decoded descendant - path, elem and sourceline of another node', key=f'{qualname}|attributes-fresh')


def rule_b(ctx: Ctx) -> None:
    rule = 'C19.b'
    stale_analysis(ctx, rule, 'xmlschema.validators.elements.XsdElement.raw_decode', 'obj', initially_fresh=False, floor=5)
    stale_analysis(ctx, rule, 'xmlschema.validators.groups.XsdGroup.raw_decode', 'obj', initially_fresh=True, floor=2)
    stale_analysis(ctx, rule, 'xmlschema.validators.wildcards.XsdAnyElement.raw_decode', 'obj', initially_fresh=True, floor=0)
    ctx.explain('C19.b: typestate {fresh, stale} of context.elem propagated over the CFG (stale after any raw_decode call that may '
                'descend into child elements, fresh after `context.elem = obj`); every report reachable in the stale state must '
                'pass the current element explicitly.')


def rule_c(ctx: Ctx) -> None:
    """The positional predicate of an error path is decided by a count over *all* children of the parent."""
    rule = 'C19.c'
    f = ctx.idx.func('xmlschema.utils.etree.etree_getpath')
    ctx.analysed(f.qualname)
    deciders = []
    for n in walk_no_nested(f.node):
        if isinstance(n, ast.If):
            both = list(n.body) + list(n.orelse)
            if any(isinstance(x, ast.JoinedStr) and any(isinstance(v, ast.Constant) and '[' in str(v.value) for v in x.values)
                   for s_ in both for x in ast.walk(s_)):
                if not any(isinstance(x, ast.If) for s_ in n.body for x in ast.walk(s_)):
                    deciders.append(n)
    ctx.floor(rule, 'tests deciding the positional predicate in etree_getpath', len(deciders), 1)
    for d in deciders:
        names = {x.id for x in ast.walk(d.test) if isinstance(x, ast.Name)}
        loops = [lp for lp in walk_no_nested(f.node) if isinstance(lp, ast.For) and
                 any(isinstance(x, (ast.AugAssign, ast.Assign)) and
                     any(isinstance(t, ast.Name) and t.id in names for t in ([x.target] if isinstance(x, ast.AugAssign) else x.targets))
                     for s_ in lp.body for x in ast.walk(s_))]
        loops = [lp for lp in loops if not any(inner is not lp and inner in loops for inner in ast.walk(lp) if isinstance(inner, ast.For))]   # innermost
        direct = [s_ for s_ in walk_no_nested(f.node) if isinstance(s_, ast.Assign) and any(isinstance(t, ast.Name) and t.id in names for t in s_.targets)
                  and isinstance(s_.value, ast.Call) and text(s_.value.func) in ('sum', 'len')]
        ok = bool(loops) or bool(direct)
        det = ''
        for lp in loops:
            if text(lp.iter) not in ('parent', 'list(parent)', 'iter(parent)'):
                ok = False
                det = f'the count iterates `{text(lp.iter)}`, not all children of the parent'
            ex = [x for s_ in lp.body for x in ast.walk(s_) if isinstance(x, (ast.Break, ast.Return))]
            if ex:
                ok = False
                det = f'the counting loop leaves early (line {ex[0].lineno}): same-named siblings after the element are not counted, so the first of ' \
                      f'several same-named siblings gets no [n] predicate and its path selects all of them'
        ctx.ob(rule, f'etree_getpath: the same-name sibling count that decides `{text(d.test)}` scans every child of the parent', f.loc(d), ok, det,
               key='etree_getpath|full-scan')
    # error paths ask for positions
    import re
    ex = ctx.idx.module('validators.exceptions')
    uses = [c for fn in ctx.idx.iter_functions('validators') for c in calls(fn.node) if text(c.func).endswith('etree_getpath')]
    ok = bool(uses) and all(any(k.arg == 'add_position' and text(k.value) == 'True' for k in c.keywords) for c in uses)
    ctx.ob(rule, 'validation errors compute their path with add_position=True', f'{ex.relpath}:1', ok, f'{len(uses)} call site(s)', key='error-path|add-position')
    ctx.explain('C19.c: the test that decides whether a step gets a positional predicate depends on a counter that is computed by '
                'a loop over all children of the parent with no early exit.')


def rule_d(ctx: Ctx) -> None:
    """A validation error that is raised (to be reported by the caller) carries the instance it is about: the constructor is
    XMLSchemaValidationError(validator, obj, reason); a two-argument construction passes the reason text as the object, so the error
    has neither reason nor element and is located wherever the context element happens to point."""
    rule = 'C19.d'
    names = ('XMLSchemaValidationError', 'XMLSchemaDecodeError', 'XMLSchemaEncodeError')
    n = 0
    for f in ctx.idx.iter_functions('validators'):
        if isinstance(f.node, ast.Lambda) or f.module.name.endswith('.exceptions'):
            continue
        for c in calls(f.node):
            nm_ = text(c.func).split('.')[-1]
            if nm_ not in names:
                continue
            n += 1
            kw = {k.arg for k in c.keywords}
            has_reason = len(c.args) >= 3 or 'reason' in kw or nm_ != 'XMLSchemaValidationError'
            ok = has_reason and (len(c.args) >= 2 or 'obj' in kw)
            ctx.ob(rule, f'{f.qualname.split(".", 2)[-1]}: `{text(c)[:60]}` passes (validator, obj, reason)', f.loc(c), ok,
                   '' if ok else 'two positional arguments: the reason is taken as the invalid object; no reason, no element', key=f'{f.qualname}|ctor|{text(c)[:50]}')
    ctx.floor(rule, 'constructions of validation errors in validators/', n, 40)
    # inside check_dynamic_context (which receives the child element) every raise names that element
    f = ctx.idx.func('xmlschema.validators.groups.XsdGroup.check_dynamic_context')
    p = f.params[1]
    for r in walk_no_nested(f.node):
        if isinstance(r, ast.Raise) and isinstance(r.exc, ast.Call) and 'ValidationError' in text(r.exc.func):
            ok = len(r.exc.args) >= 2 and text(r.exc.args[1]) == p
            ctx.ob(rule, f'check_dynamic_context: the raised error is about the child element `{p}`', f.loc(r), ok, '', key=f'check_dynamic_context|raise|{text(r.exc.args[0]) if r.exc.args else ""}|{text(r.exc)[:40]}')
    ctx.explain('C19.d: arity/argument check of every validation-error construction in validators/ (validator, obj, reason).')


def rule_e(ctx: Ctx) -> None:
    """No error outside the damaged node: facets pushed on the context for one node must not survive to be applied to another one
    (the pattern hand-off slot is emptied by its consumer on every path, also when every member type fails - C02.g body)."""
    from .c02 import rule_g as patterns_slot
    patterns_slot(ctx, 'C19.e')


REF_MIRROR_EXEMPT = {
    'name': 'set by _parse_reference() itself',
    '_block': 'read only through the `block` property, which delegates to self.ref',
    '_final': 'read only through the `final` property, which delegates to self.ref',
    'min_occurs': 'occurrences belong to the particle, not to the declaration', 'max_occurs': 'occurrences belong to the particle, not to the declaration',
    '_built': 'build flag', 'selected_by': 'assigned by _parse() for every element and shared in the reference branch',
}


def rule_f(ctx: Ctx) -> None:
    """A reference particle validates like the declaration it refers to.  _parse() runs the declaration parsers (_parse_type,
    _parse_constraints, …) only when `self.ref is None`; for <xs:element ref="…"/> the reference branch of _parse_attributes is the
    only place where the slots those parsers would fill are given a value, so it has to copy every one of them that validation reads."""
    rule = 'C19.f'
    n = 0
    for cq in ('xmlschema.validators.elements.XsdElement', 'xmlschema.validators.elements.Xsd11Element'):
        c = ctx.idx.cls(cq)
        pa = c.find_method('_parse_attributes')
        pr = c.methods.get('_parse') or c.find_method('_parse')
        if pa is None or pr is None:
            raise AnalysisError(f'missing anchor {cq}._parse/_parse_attributes')
        # (1) declaration parsers: called from _parse under `self.ref is None`
        g = cfg_of(ctx, pr)
        decl = []
        for nd, cl in call_nodes(g, lambda cl: text(cl.func).startswith('self._parse_')):
            if ('self.ref is None', 'T') in guards(ctx, pr, nd):
                decl.append(text(cl.func).split('.')[-1])
        ctx.floor(rule, f'{c.name}: declaration parsers run only for non-references', len(decl), 2)
        filled = {}
        for nm_ in decl:
            m = c.find_method(nm_)
            if m is None:
                continue
            for x in walk_no_nested(m.node):
                tg = []
                if isinstance(x, ast.Assign):
                    tg = x.targets
                elif isinstance(x, (ast.AugAssign, ast.AnnAssign)):
                    tg = [x.target]
                for t in tg:
                    if isinstance(t, ast.Attribute) and text(t.value) == 'self':
                        filled.setdefault(t.attr, m.name)
            for cl in calls(m.node):
                if text(cl.func) == 'self._set_type':
                    filled.setdefault('type', m.name)
        # the non-reference part of _parse_attributes (after the reference branch returned)
        g2 = cfg_of(ctx, pa)
        refs = [x for x in g2.nodes if x.kind == 'if' and text(x.ast.test) == 'self._parse_reference()']
        if len(refs) != 1:
            raise AnalysisError(f'{rule}: expected `if self._parse_reference():` in {pa.qualname}')
        from .common import reach_cut
        nonref = reach_cut(g2, [m for m, lab in g2.succ[refs[0]] if lab == 'F'], set(), kinds='nTF')
        refpart = reach_cut(g2, [m for m, lab in g2.succ[refs[0]] if lab == 'T'], set(), avoid=[x for x in nonref if x.kind not in ('exit',)], kinds='nTF')
        for x in nonref:
            if x.kind == 'stmt' and isinstance(x.ast, ast.Assign):
                for t in x.ast.targets:
                    if isinstance(t, ast.Attribute) and text(t.value) == 'self':
                        filled.setdefault(t.attr, '_parse_attributes')
        copied = set()
        for x in refpart:
            if x.kind == 'stmt' and isinstance(x.ast, ast.Assign) and isinstance(x.ast.value, ast.Attribute) and text(x.ast.value.value) == 'xsd_element':
                for t in x.ast.targets:
                    if isinstance(t, ast.Attribute) and text(t.value) == 'self' and t.attr == x.ast.value.attr:
                        copied.add(t.attr)
            if x.kind == 'stmt' and isinstance(x.ast, ast.Expr) and isinstance(x.ast.value, ast.Call) and text(x.ast.value.func) == 'self._set_type' \
                    and x.ast.value.args and text(x.ast.value.args[0]) == 'xsd_element.type':
                copied.add('type')
        # (2) slots that validation reads on self
        read = set()
        for m in c.mro_methods() if hasattr(c, 'mro_methods') else []:
            pass
        val_methods = [m for k_ in c.mro() for m in k_.methods.values()
                       if m.name in ('raw_decode', 'raw_encode', 'iter_decode', 'iter_encode', 'collect_key_fields', 'get_type', 'check_dynamic_context', 'data_value',
                                     'is_matching', 'match', 'is_restriction', 'is_consistent', 'is_overlap', 'iter_substitutes', 'get_attributes', 'text_decode',
                                     'has_fixed_value', 'get_binding', 'is_substitute', 'match_child', 'get_alternative_type')]
        for m in val_methods:
            for x in ast.walk(m.node):
                if isinstance(x, ast.Attribute) and isinstance(x.ctx, ast.Load) and text(x.value) == 'self':
                    read.add(x.attr)
        for slot, where in sorted(filled.items()):
            if slot in REF_MIRROR_EXEMPT:
                continue
            if slot not in read:
                continue
            n += 1
            ok = slot in copied
            ctx.ob(rule, f'{c.name}: the slot `{slot}` (filled by {where} for a declaration, read by validation) is copied from the referenced element', pa.loc(refs[0].ast), ok,
                   '' if ok else f'the reference branch of _parse_attributes does not assign self.{slot} = xsd_element.{slot}: <xs:element ref="…"/> particles validate with the class '
                   f'default of `{slot}` - e.g. a global element declared with fixed="1.0" and used by reference accepts any value, the damaged document is reported valid',
                   key=f'{c.name}|ref-mirror|{slot}')
    ctx.floor(rule, 'declaration slots mirrored by reference particles', n, 8)
    ctx.explain('C19.f: slots assigned by the declaration parsers that _parse() runs only under `self.ref is None` (and by the non-reference part of _parse_attributes), '
                'intersected with the slots the validation methods read on self, must all be copied from `xsd_element` in the reference branch.')


def rule_g(ctx: Ctx) -> None:
    """The path of an error selects the element in the document *under the namespace map reported with it*.  An unprefixed step is
    resolved with the default namespace of that map, so the step for an element in no namespace is only right when the map has no
    default namespace - the code that writes the step has to look at `namespaces['']`."""
    rule = 'C19.g'
    gp = ctx.idx.func('xmlschema.utils.etree.etree_getpath')
    pq = ctx.idx.func('xmlschema.utils.qnames.get_prefixed_qname')
    ctx.analysed(gp.qualname)
    ctx.analysed(pq.qualname)
    steps = [c for c in calls(gp.node) if text(c.func) == 'get_prefixed_qname' and len(c.args) >= 2 and text(c.args[1]) == 'namespaces']
    ctx.floor(rule, 'path steps written through get_prefixed_qname', len(steps), 2)
    g = cfg_of(ctx, pq)
    # exits of get_prefixed_qname that hand back a name without a namespace untouched
    bare = []
    for r in g.nodes:
        if r.kind == 'return' and r.ast.value is not None and text(r.ast.value) == 'qname':
            gs = guards(ctx, pq, r)
            if any("qname[0] != '{'" in t and lab == 'T' for t, lab in gs):
                knows_default = any(("namespaces.get('')" in t or "'' in namespaces" in t or "namespaces['']" in t) for t, _ in gs)
                bare.append((r, knows_default))
    handled_in_caller = any("namespaces.get('')" in text(x) or "'' in namespaces" in text(x) for x in ast.walk(gp.node) if isinstance(x, (ast.If, ast.IfExp)))
    ok = bool(bare) and (all(k for _, k in bare) or handled_in_caller)
    ctx.ob(rule, 'etree_getpath: the step of an element in no namespace takes the default namespace of the reported map into account', gp.loc(steps[0]) if steps else gp.loc(), ok,
           '' if ok else f'get_prefixed_qname returns a name without namespace unchanged (line {bare[0][0].lineno if bare else 0}) whatever `namespaces` maps "" to, and etree_getpath '
           'does not look either: for <root xmlns="urn:A"><child xmlns="">bad</child></root> the error path is /root/child with namespaces {"": "urn:A"}, which selects nothing',
           key='etree_getpath|no-namespace-step-under-default-namespace')
    ctx.explain('C19.g: the no-namespace exit of get_prefixed_qname (guard `qname[0] != \'{\'`) and its caller etree_getpath are searched for a test of the default namespace of the map.')


def rule_h(ctx: Ctx) -> None:
    """Errors found after the walk (dangling IDREF, unresolved keyref) are about a particular node too.  Reported with the document
    root as their element, they are located outside "the damaged node or its parent"."""
    rule = 'C19.h'
    n = 0
    for f in ctx.idx.iter_functions('validators'):
        if isinstance(f.node, ast.Lambda):
            continue
        for c in calls(f.node):
            if not is_reporter_call(c, None) and not is_reporter_call(c):
                continue
            objs = [text(a) for a in c.args[3:4]] + [text(k.value) for k in c.keywords if k.arg in ('obj', 'elem')]
            if not any(o.endswith('source.root') for o in objs):
                continue
            n += 1
            what = 'IDREF' if 'IDREF' in text(f.node) and any('id_map' in text(x) for x in ast.walk(f.node) if isinstance(x, ast.For) and any(y is c for y in ast.walk(x))) else 'keyref'
            if what == 'keyref':
                # reached only for counters still enabled after the walk: lazy runs, whose trees are pruned (explored separately by the property)
                ctx.ob(rule, f'{f.qualname.split(".", 2)[-1]}: the keyref report after the walk concerns lazy runs only', f.loc(c),
                       'counter.enabled' in text(f.node), '', key=f'{f.qualname}|after-walk-at-root|keyref', nontrivial=False)
                continue
            ctx.ob(rule, f'{f.qualname.split(".", 2)[-1]}: the {what} error found after the walk is located at the node it is about', f.loc(c), False,
                   f'`{text(c)[:90]}` reports at the document root: the table consulted after the walk keeps values, not the referencing elements - a single bad {what} value deep in the '
                   'document yields one error at "/root" and none at the damaged node or its parent', key=f'{f.qualname}|after-walk-at-root|{what}')
    ctx.floor(rule, 'after-walk reports located at the document root', n, 0)
    ctx.explain('C19.h: reporter calls whose element argument is `context.source.root` (reports issued after the walk).')


def rule_i(ctx: Ctx) -> None:
    """A missing child is reported (at its parent): the occurrence bookkeeping of a re-entered nested group starts from zero - C01.h body."""
    from .c01 import rule_h as group_reset
    group_reset(ctx, 'C19.i')


def rule_j(ctx: Ctx) -> None:
    """No error outside the damaged node's ancestor chain and subtree: once a content model is broken the remaining children are matched
    without the model (XsdGroup.match_element) and still have to be validated with their own declaration.  The two sibling matchers
    agree: both return what `<particle>.match(name, …)` resolves - for a member of a substitution group the member's declaration, not the
    head whose name test succeeded."""
    rule = 'C19.j'
    n = 0
    for cq in ('xmlschema.validators.groups.XsdGroup', 'xmlschema.validators.models.ModelVisitor'):
        f = ctx.idx.method(cq, 'match_element')
        ctx.analysed(f.qualname)
        rets = [r for r in ast.walk(f.node) if isinstance(r, ast.Return) and r.value is not None and not (isinstance(r.value, ast.Constant) and r.value.value is None)]
        resolved = set()
        for x in ast.walk(f.node):
            if isinstance(x, ast.Assign) and isinstance(x.value, ast.Call) and isinstance(x.value.func, ast.Attribute) and x.value.func.attr == 'match' and isinstance(x.targets[0], ast.Name):
                resolved.add(x.targets[0].id)
        for r in rets:
            n += 1
            v = r.value
            ok = (isinstance(v, ast.Call) and isinstance(v.func, ast.Attribute) and v.func.attr == 'match') or (isinstance(v, ast.Name) and v.id in resolved)
            # a particle returned after a bare name test is the declaration named in the model, i.e. the head for a substitute
            ctx.ob(rule, f'{cq.split(".")[-1]}.match_element: `return {text(v)[:40]}` hands back the declaration resolved by <particle>.match(…)', f.loc(r), ok,
                   '' if ok else 'the particle itself is returned after `is_matching`: for <sub substitutionGroup="head"> the head is returned and the child is validated with the '
                   'head\'s type - after a single misplaced sibling the valid subtree <sub><n/><m/></sub> gets "Unexpected child with tag \'m\'"', key=f'{cq}.match_element|resolved|{text(v)[:30]}')
    ctx.floor(rule, 'returns of the child matchers', n, 2)
    ctx.explain('C19.j: sibling agreement of XsdGroup.match_element (model-less) and ModelVisitor.match_element: every non-None return value is the result of a `.match(…)` call.')


VCTX_Q = 'xmlschema.validators.validation.ValidationContext'


def rule_k(ctx: Ctx) -> None:
    """The reporter is handed the element the error belongs to.  For a message it builds the error around that element; for a *ready-made* error (an
    extra validator's, a nested validator's) whose own `obj` is a value, it must still take the element from the argument - otherwise the fallback in
    raise_or_collect supplies context.elem, which after the children were decoded is the last descendant (the typestate rule C19.b counts on this)."""
    rule = 'C19.k'
    f = ctx.idx.method(VCTX_Q, 'validation_error')
    ctx.analysed(f.qualname)
    g = cfg_of(ctx, f)
    p = [x for x in f.params if x != 'self']
    objp = p[3] if len(p) > 3 else 'obj'
    errp = p[2] if len(p) > 2 else 'error'
    sets = [n for n in g.nodes if n.kind == 'stmt' and isinstance(n.ast, ast.Assign) and text(n.ast.targets[0]) == f'{errp}.elem' and text(n.ast.value) == objp]
    ok = False
    for n in sets:
        gs = guards(ctx, f, n)
        ready = (f'not isinstance({errp}, XMLSchemaValidationError)', 'F') in gs or (f'isinstance({errp}, XMLSchemaValidationError)', 'T') in gs
        if ready:
            ok = True
    ctx.ob(rule, 'ValidationContext.validation_error: a ready-made error without an element gets the element argument', f.loc(sets[0].ast) if sets else f.loc(), ok,
           '' if ok else f'no `{errp}.elem = {objp}` on the branch for error instances: an XMLSchemaValidationError(xsd_element, "some string", reason) yielded by an extra_validator for '
           '<a> is located at the last descendant of <a> (context.elem is stale after the children)', key='validation_error|ready-made-elem')
    ctx.explain('C19.k: in ValidationContext.validation_error the branch taken for an error instance assigns `error.elem = obj` (under its own None/element tests) before raise_or_collect.')


def lazy_path_kept(ctx: Ctx, rule: str) -> None:
    """An error on a lazy resource stores the *path* of its element, never the element (`elem` stays None).  The fallback of raise_or_collect - "no element:
    take context.elem" - therefore also looks at the path, or every lazy error is re-located at the element processed last."""
    from .common import atom_forces
    f = ctx.idx.method(VCTX_Q, 'raise_or_collect')
    ctx.analysed(f.qualname)
    g = cfg_of(ctx, f)
    p = [x for x in f.params if x != 'self']
    errp = p[1] if len(p) > 1 else 'error'
    falls = [n for n in g.nodes if n.kind == 'stmt' and isinstance(n.ast, ast.Assign) and text(n.ast.targets[0]) == f'{errp}.elem' and text(n.ast.value) == 'self.elem']
    ctx.floor(rule, 'fallbacks to context.elem in raise_or_collect', len(falls), 1)
    for n in falls:
        ok = False
        for t, lab in guards(ctx, f, n):
            if lab != 'T':
                continue
            try:
                e = ast.parse(t, mode='eval').body
            except SyntaxError:
                continue
            for atom in (f'{errp}.path is None', f'{errp}._path is None'):
                if atom_forces(e, atom, False, False):
                    ok = True
        ctx.ob(rule, 'ValidationContext.raise_or_collect: context.elem replaces the location of an error only when it has neither element nor path', f.loc(n.ast), ok,
               '' if ok else 'the fallback looks at `error.elem` alone, which is None for every error on a lazy resource: a children error is located at the last decoded '
               'descendant (/root/a[2]/b instead of /root/a[2]) and the final IDREF check at the last chunk instead of the root - other paths than full validation reports',
               key='raise_or_collect|lazy-path-kept')
    ctx.explain(f'{rule}: the path condition of `error.elem = self.elem` in raise_or_collect is false whenever `error.path is None` is false (truth table of the guard).')


def rule_l(ctx: Ctx) -> None:
    lazy_path_kept(ctx, 'C19.l')


def rule_m(ctx: Ctx) -> None:
    """An attribute outside the namespace constraint of the wildcard is a fault of the element that carries it and must produce an error there, also for
    processContents="skip" (wild.constraint_first body, = C16.f / C03.h)."""
    from .wild import constraint_first
    constraint_first(ctx, 'C19.m')


RULES = [rule_a, rule_b, rule_c, rule_d, rule_e, rule_f, rule_g, rule_h, rule_i, rule_j, rule_k, rule_l, rule_m]
