"""C19 — error location (structural clauses).

C19.a every collected error gets an element     C19.b no stale element after recursion (typestate over the CFG)
"""
from __future__ import annotations

import ast

from ..astutil import calls, get_arg, text, walk_no_nested
from ..index import AnalysisError
from ..report import Ctx
from .common import REPORTERS, call_nodes, cfg_of, guards, is_reporter_call

VCTX = 'xmlschema.validators.validation.ValidationContext'
ELEM_ARG = {'validation_error': (3, 'obj'), 'children_validation_error': (2, 'elem'), 'missing_element_error': (2, 'elem'),
            'decode_error': (2, 'obj'), 'encode_error': (2, 'obj')}


def rule_a(ctx: Ctx) -> None:
    rule = 'C19.a'
    f = ctx.idx.method(VCTX, 'raise_or_collect')
    g = cfg_of(ctx, f)
    sets = [n for n in g.nodes if n.kind == 'stmt' and isinstance(n.ast, ast.Assign) and text(n.ast.targets[0]) == 'error.elem' and text(n.ast.value) == 'self.elem']
    ok = len(sets) == 1
    det = ''
    if ok:
        gs = guards(ctx, f, sets[0])
        ok = gs == {('error.elem is None and self.elem is not None', 'T')}
        det = '' if ok else f'guards {sorted(gs)}'
        # before the error leaves the function (raise) or is stored (append)
        outs = [n for n in g.nodes if n.kind == 'raise'] + [n for n, c in call_nodes(g, lambda c: text(c.func) == 'self.errors.append')]
        tests = [n for n in g.nodes if n.kind == 'if' and text(n.ast.test) == 'error.elem is None and self.elem is not None']
        for o in outs:
            ok = ok and g.must_pass(g.entry, [o], tests, kinds='nTF') is None
    ctx.ob(rule, 'raise_or_collect attaches the context element to an error that has none, before raising or collecting it', f.loc(), ok, det,
           key='raise_or_collect|default-elem')
    # XsdElement.raw_decode sets context.elem = obj before its first report that does not name the element
    e = ctx.idx.func('xmlschema.validators.elements.XsdElement.raw_decode')
    ge = cfg_of(ctx, e)
    ce = [n for n in ge.nodes if n.kind == 'stmt' and isinstance(n.ast, ast.Assign) and text(n.ast.targets[0]) == 'context.elem' and text(n.ast.value) == 'obj']
    ok = len(ce) >= 1
    ctx.ob(rule, 'XsdElement.raw_decode records the element under validation in the context', e.loc(ce[0].ast) if ce else e.loc(), ok, '', key='XsdElement.raw_decode|sets-elem')
    # every path to attribute/content decoding passes the assignment (they report through the context element)
    if ok:
        targets = [n for n, c in call_nodes(ge, lambda c: text(c.func) in ('attribute_group.raw_decode', 'content_decoder.raw_decode'))]
        w = None
        for t in targets:
            w = w or ge.must_pass(ge.entry, [t], ce, kinds='nTF')
        ctx.ob(rule, 'attributes and simple content (which report without naming an element) are decoded after context.elem is set', e.loc(), w is None and bool(targets),
               '', key='XsdElement.raw_decode|elem-before-decoders')
    # a copied context (validation hook / inheritable attributes) keeps the element: __copy__ copies every slot
    cp = ctx.idx.method(VCTX, '__copy__')
    ok = 'for attr in iter_class_slots(self)' in text(cp.node) and 'setattr(context, attr, getattr(self, attr))' in text(cp.node)
    ctx.ob(rule, 'a copied context keeps the current element', cp.loc(), ok, '', key='ValidationContext.__copy__|slots')
    # children_validation_error builds the error on the parent element with the child index
    ch = ctx.idx.method(VCTX, 'children_validation_error')
    ctor = [c for c in calls(ch.node) if text(c.func) == 'XMLSchemaChildrenValidationError']
    ok = len(ctor) == 1
    if ok:
        kw = {k.arg: text(k.value) for k in ctor[0].keywords}
        ok = kw.get('elem') == 'elem' and kw.get('index') == 'index' and kw.get('particle') == 'particle'
    ctx.ob(rule, 'a content-model error is built on the parent element with the index of the offending child', ch.loc(), ok, '', key='children_validation_error|ctor')
    # validation_error keeps an explicit obj and the source needed to compute the path
    ve = ctx.idx.method(VCTX, 'validation_error')
    src = text(ve.node)
    ok = 'XMLSchemaValidationError(validator, obj, str(error), self.source, self.namespaces)' in src and 'error.source = self.source' in src
    ctx.ob(rule, 'validation_error passes the instance object and the source to the error (the path is computed from them)', ve.loc(), ok, '', key='validation_error|ctor')
    ctx.explain('C19.a: the element of an error defaults to the element under validation, which XsdElement.raw_decode records '
                'before any decoder that reports without naming an element.')


def stale_analysis(ctx: Ctx, rule: str, qualname: str, elem_param: str, initially_fresh: bool, floor: int) -> None:
    f = ctx.idx.func(qualname)
    g = cfg_of(ctx, f)
    short = qualname.split('.', 2)[-1]

    def recurses(n) -> bool:
        for e in n.exprs:
            for c in calls(e):
                if isinstance(c.func, ast.Attribute) and c.func.attr == 'raw_decode' and c.args:
                    recv = text(c.func.value)
                    if recv in ('attribute_group', 'xsd_attribute'):
                        continue        # attribute decoding never descends into elements
                    return True
        return False

    def refreshes(n) -> bool:
        return n.kind == 'stmt' and isinstance(n.ast, ast.Assign) and text(n.ast.targets[0]) == 'context.elem' and text(n.ast.value) == elem_param
    # forward may-analysis: STALE reaches?
    stale_in = {n: False for n in g.nodes}
    if not initially_fresh:
        stale_in[g.entry] = True
    work = list(g.nodes)
    while work:
        n = work.pop()
        out = stale_in[n]
        if refreshes(n):
            out = False
        if recurses(n):
            out = True
        for m, lab in g.succ[n]:
            if lab in 'nTFxi' and out and not stale_in[m]:
                stale_in[m] = True
                work.append(m)
    n_after = 0
    for n, c in call_nodes(g, is_reporter_call):
        if not stale_in[n] and not recurses(n):
            continue
        n_after += 1
        meth = c.func.attr
        pos, kw = ELEM_ARG[meth]
        a = get_arg(c, pos, kw)
        ok = a is not None and text(a) == elem_param
        ctx.ob(rule, f'{short}: a report after a child was processed names the current element explicitly: {text(c)[:70]}', f.loc(c), ok,
               '' if ok else f'element argument is `{text(a)}`: context.elem may still designate a descendant, so the error would be '
               f'located at the wrong node', key=f'{qualname}|stale|{meth}|{text(c.args[2])[:30] if len(c.args) > 2 else ""}|{"" if ok else text(a)}')
    ctx.floor(rule, f'reports reachable after recursion in {short}', n_after, floor)


def rule_b(ctx: Ctx) -> None:
    rule = 'C19.b'
    stale_analysis(ctx, rule, 'xmlschema.validators.elements.XsdElement.raw_decode', 'obj', initially_fresh=False, floor=5)
    stale_analysis(ctx, rule, 'xmlschema.validators.groups.XsdGroup.raw_decode', 'obj', initially_fresh=True, floor=2)
    stale_analysis(ctx, rule, 'xmlschema.validators.wildcards.XsdAnyElement.raw_decode', 'obj', initially_fresh=True, floor=0)
    ctx.explain('C19.b: typestate {fresh, stale} of context.elem propagated over the CFG (stale after any raw_decode call that may '
                'descend into child elements, fresh after `context.elem = obj`); every report reachable in the stale state must '
                'pass the current element explicitly.')


RULES = [rule_a, rule_b]
