"""C19 — error location (structural clauses).

C19.a every collected error gets an element     C19.b no stale element after recursion (typestate over the CFG)
"""
from __future__ import annotations

import ast

from ..astutil import calls, get_arg, text, walk_no_nested
from ..index import AnalysisError
from ..report import Ctx
from .common import REPORTERS, call_nodes, cfg_of, guards, is_reporter_call

VCTX = 'xmlschema.validators.validation.ValidationContext'
ELEM_ARG = {'validation_error': (3, 'obj'), 'children_validation_error': (2, 'elem'), 'missing_element_error': (2, 'elem'),
            'decode_error': (2, 'obj'), 'encode_error': (2, 'obj')}


def rule_a(ctx: Ctx) -> None:
    rule = 'C19.a'
    f = ctx.idx.method(VCTX, 'raise_or_collect')
    g = cfg_of(ctx, f)
    sets = [n for n in g.nodes if n.kind == 'stmt' and isinstance(n.ast, ast.Assign) and text(n.ast.targets[0]) == 'error.elem' and text(n.ast.value) == 'self.elem']
    ok = len(sets) == 1
    det = ''
    if ok:
        gs = guards(ctx, f, sets[0])
        ok = gs == {('error.elem is None and self.elem is not None', 'T')}
        det = '' if ok else f'guards {sorted(gs)}'
        # before the error leaves the function (raise) or is stored (append)
        outs = [n for n in g.nodes if n.kind == 'raise'] + [n for n, c in call_nodes(g, lambda c: text(c.func) == 'self.errors.append')]
        tests = [n for n in g.nodes if n.kind == 'if' and text(n.ast.test) == 'error.elem is None and self.elem is not None']
        for o in outs:
            ok = ok and g.must_pass(g.entry, [o], tests, kinds='nTF') is None
    ctx.ob(rule, 'raise_or_collect attaches the context element to an error that has none, before raising or collecting it', f.loc(), ok, det,
           key='raise_or_collect|default-elem')
    # XsdElement.raw_decode sets context.elem = obj before its first report that does not name the element
    e = ctx.idx.func('xmlschema.validators.elements.XsdElement.raw_decode')
    ge = cfg_of(ctx, e)
    ce = [n for n in ge.nodes if n.kind == 'stmt' and isinstance(n.ast, ast.Assign) and text(n.ast.targets[0]) == 'context.elem' and text(n.ast.value) == 'obj']
    ok = len(ce) >= 1
    ctx.ob(rule, 'XsdElement.raw_decode records the element under validation in the context', e.loc(ce[0].ast) if ce else e.loc(), ok, '', key='XsdElement.raw_decode|sets-elem')
    # every path to attribute/content decoding passes the assignment (they report through the context element)
    if ok:
        targets = [n for n, c in call_nodes(ge, lambda c: text(c.func) in ('attribute_group.raw_decode', 'content_decoder.raw_decode'))]
        w = None
        for t in targets:
            w = w or ge.must_pass(ge.entry, [t], ce, kinds='nTF')
        ctx.ob(rule, 'attributes and simple content (which report without naming an element) are decoded after context.elem is set', e.loc(), w is None and bool(targets),
               '', key='XsdElement.raw_decode|elem-before-decoders')
    # a copied context (validation hook / inheritable attributes) keeps the element: __copy__ copies every slot
    cp = ctx.idx.method(VCTX, '__copy__')
    ok = 'for attr in iter_class_slots(self)' in text(cp.node) and 'setattr(context, attr, getattr(self, attr))' in text(cp.node)
    ctx.ob(rule, 'a copied context keeps the current element', cp.loc(), ok, '', key='ValidationContext.__copy__|slots')
    # children_validation_error builds the error on the parent element with the child index
    ch = ctx.idx.method(VCTX, 'children_validation_error')
    ctor = [c for c in calls(ch.node) if text(c.func) == 'XMLSchemaChildrenValidationError']
    ok = len(ctor) == 1
    if ok:
        kw = {k.arg: text(k.value) for k in ctor[0].keywords}
        ok = kw.get('elem') == 'elem' and kw.get('index') == 'index' and kw.get('particle') == 'particle'
    ctx.ob(rule, 'a content-model error is built on the parent element with the index of the offending child', ch.loc(), ok, '', key='children_validation_error|ctor')
    # validation_error keeps an explicit obj and the source needed to compute the path
    ve = ctx.idx.method(VCTX, 'validation_error')
    src = text(ve.node)
    ok = 'XMLSchemaValidationError(validator, obj, str(error), self.source, self.namespaces)' in src and 'error.source = self.source' in src
    ctx.ob(rule, 'validation_error passes the instance object and the source to the error (the path is computed from them)', ve.loc(), ok, '', key='validation_error|ctor')
    ctx.explain('C19.a: the element of an error defaults to the element under validation, which XsdElement.raw_decode records '
                'before any decoder that reports without naming an element.')


def stale_analysis(ctx: Ctx, rule: str, qualname: str, elem_param: str, initially_fresh: bool, floor: int) -> None:
    f = ctx.idx.func(qualname)
    g = cfg_of(ctx, f)
    short = qualname.split('.', 2)[-1]

    def recurses(n) -> bool:
        for e in n.exprs:
            for c in calls(e):
                if isinstance(c.func, ast.Attribute) and c.func.attr == 'raw_decode' and c.args:
                    recv = text(c.func.value)
                    if recv in ('attribute_group', 'xsd_attribute'):
                        continue        # attribute decoding never descends into elements
                    return True
        return False

    def refreshes(n) -> bool:
        return n.kind == 'stmt' and isinstance(n.ast, ast.Assign) and text(n.ast.targets[0]) == 'context.elem' and text(n.ast.value) == elem_param
    # forward may-analysis: STALE reaches?
    stale_in = {n: False for n in g.nodes}
    if not initially_fresh:
        stale_in[g.entry] = True
    work = list(g.nodes)
    while work:
        n = work.pop()
        out = stale_in[n]
        if refreshes(n):
            out = False
        if recurses(n):
            out = True
        for m, lab in g.succ[n]:
            if lab in 'nTFxi' and out and not stale_in[m]:
                stale_in[m] = True
                work.append(m)
    n_after = 0
    for n, c in call_nodes(g, is_reporter_call):
        if not stale_in[n] and not recurses(n):
            continue
        n_after += 1
        meth = c.func.attr
        pos, kw = ELEM_ARG[meth]
        a = get_arg(c, pos, kw)
        ok = a is not None and text(a) == elem_param
        ctx.ob(rule, f'{short}: a report after a child was processed names the current element explicitly: {text(c)[:70]}', f.loc(c), ok,
               '' if ok else f'element argument is `{text(a)}`: context.elem may still designate a descendant, so the error would be '
               f'located at the wrong node', key=f'{qualname}|stale|{meth}|{text(c.args[2])[:30] if len(c.args) > 2 else ""}|{"" if ok else text(a)}')
    ctx.floor(rule, f'reports reachable after recursion in {short}', n_after, floor)


def rule_b(ctx: Ctx) -> None:
    rule = 'C19.b'
    stale_analysis(ctx, rule, 'xmlschema.validators.elements.XsdElement.raw_decode', 'obj', initially_fresh=False, floor=5)
    stale_analysis(ctx, rule, 'xmlschema.validators.groups.XsdGroup.raw_decode', 'obj', initially_fresh=True, floor=2)
    stale_analysis(ctx, rule, 'xmlschema.validators.wildcards.XsdAnyElement.raw_decode', 'obj', initially_fresh=True, floor=0)
    ctx.explain('C19.b: typestate {fresh, stale} of context.elem propagated over the CFG (stale after any raw_decode call that may '
                'descend into child elements, fresh after `context.elem = obj`); every report reachable in the stale state must '
                'pass the current element explicitly.')


def rule_c(ctx: Ctx) -> None:
    """The positional predicate of an error path is decided by a count over *all* children of the parent."""
    rule = 'C19.c'
    f = ctx.idx.func('xmlschema.utils.etree.etree_getpath')
    ctx.analysed(f.qualname)
    deciders = []
    for n in walk_no_nested(f.node):
        if isinstance(n, ast.If):
            both = list(n.body) + list(n.orelse)
            if any(isinstance(x, ast.JoinedStr) and any(isinstance(v, ast.Constant) and '[' in str(v.value) for v in x.values)
                   for s_ in both for x in ast.walk(s_)):
                if not any(isinstance(x, ast.If) for s_ in n.body for x in ast.walk(s_)):
                    deciders.append(n)
    ctx.floor(rule, 'tests deciding the positional predicate in etree_getpath', len(deciders), 1)
    for d in deciders:
        names = {x.id for x in ast.walk(d.test) if isinstance(x, ast.Name)}
        loops = [lp for lp in walk_no_nested(f.node) if isinstance(lp, ast.For) and
                 any(isinstance(x, (ast.AugAssign, ast.Assign)) and
                     any(isinstance(t, ast.Name) and t.id in names for t in ([x.target] if isinstance(x, ast.AugAssign) else x.targets))
                     for s_ in lp.body for x in ast.walk(s_))]
        loops = [lp for lp in loops if not any(inner is not lp and inner in loops for inner in ast.walk(lp) if isinstance(inner, ast.For))]   # innermost
        direct = [s_ for s_ in walk_no_nested(f.node) if isinstance(s_, ast.Assign) and any(isinstance(t, ast.Name) and t.id in names for t in s_.targets)
                  and isinstance(s_.value, ast.Call) and text(s_.value.func) in ('sum', 'len')]
        ok = bool(loops) or bool(direct)
        det = ''
        for lp in loops:
            if text(lp.iter) not in ('parent', 'list(parent)', 'iter(parent)'):
                ok = False
                det = f'the count iterates `{text(lp.iter)}`, not all children of the parent'
            ex = [x for s_ in lp.body for x in ast.walk(s_) if isinstance(x, (ast.Break, ast.Return))]
            if ex:
                ok = False
                det = f'the counting loop leaves early (line {ex[0].lineno}): same-named siblings after the element are not counted, so the first of ' \
                      f'several same-named siblings gets no [n] predicate and its path selects all of them'
        ctx.ob(rule, f'etree_getpath: the same-name sibling count that decides `{text(d.test)}` scans every child of the parent', f.loc(d), ok, det,
               key='etree_getpath|full-scan')
    # error paths ask for positions
    import re
    ex = ctx.idx.module('validators.exceptions')
    uses = [c for fn in ctx.idx.iter_functions('validators') for c in calls(fn.node) if text(c.func).endswith('etree_getpath')]
    ok = bool(uses) and all(any(k.arg == 'add_position' and text(k.value) == 'True' for k in c.keywords) for c in uses)
    ctx.ob(rule, 'validation errors compute their path with add_position=True', f'{ex.relpath}:1', ok, f'{len(uses)} call site(s)', key='error-path|add-position')
    ctx.explain('C19.c: the test that decides whether a step gets a positional predicate depends on a counter that is computed by '
                'a loop over all children of the parent with no early exit.')


def rule_d(ctx: Ctx) -> None:
    """A validation error that is raised (to be reported by the caller) carries the instance it is about: the constructor is
    XMLSchemaValidationError(validator, obj, reason); a two-argument construction passes the reason text as the object, so the error
    has neither reason nor element and is located wherever the context element happens to point."""
    rule = 'C19.d'
    names = ('XMLSchemaValidationError', 'XMLSchemaDecodeError', 'XMLSchemaEncodeError')
    n = 0
    for f in ctx.idx.iter_functions('validators'):
        if isinstance(f.node, ast.Lambda) or f.module.name.endswith('.exceptions'):
            continue
        for c in calls(f.node):
            nm_ = text(c.func).split('.')[-1]
            if nm_ not in names:
                continue
            n += 1
            kw = {k.arg for k in c.keywords}
            has_reason = len(c.args) >= 3 or 'reason' in kw or nm_ != 'XMLSchemaValidationError'
            ok = has_reason and (len(c.args) >= 2 or 'obj' in kw)
            ctx.ob(rule, f'{f.qualname.split(".", 2)[-1]}: `{text(c)[:60]}` passes (validator, obj, reason)', f.loc(c), ok,
                   '' if ok else 'two positional arguments: the reason is taken as the invalid object; no reason, no element', key=f'{f.qualname}|ctor|{text(c)[:50]}')
    ctx.floor(rule, 'constructions of validation errors in validators/', n, 40)
    # inside check_dynamic_context (which receives the child element) every raise names that element
    f = ctx.idx.func('xmlschema.validators.groups.XsdGroup.check_dynamic_context')
    p = f.params[1]
    for r in walk_no_nested(f.node):
        if isinstance(r, ast.Raise) and isinstance(r.exc, ast.Call) and 'ValidationError' in text(r.exc.func):
            ok = len(r.exc.args) >= 2 and text(r.exc.args[1]) == p
            ctx.ob(rule, f'check_dynamic_context: the raised error is about the child element `{p}`', f.loc(r), ok, '', key=f'check_dynamic_context|raise|{text(r.exc.args[0]) if r.exc.args else ""}|{text(r.exc)[:40]}')
    ctx.explain('C19.d: arity/argument check of every validation-error construction in validators/ (validator, obj, reason).')


def rule_e(ctx: Ctx) -> None:
    """No error outside the damaged node: facets pushed on the context for one node must not survive to be applied to another one
    (the pattern hand-off slot is emptied by its consumer on every path, also when every member type fails - C02.g body)."""
    from .c02 import rule_g as patterns_slot
    patterns_slot(ctx, 'C19.e')


RULES = [rule_a, rule_b, rule_c, rule_d, rule_e]
