"""C11 — verdict or library error; limits (structural clauses).

C11.a converter exceptions are captured         C11.b conversion-site adequacy (closure raise-sets vs handlers)
C11.c no direct raise of a validation error on the lax path
C11.d limit guards are well-formed              C11.e the documented depth limit is attainable
"""
from __future__ import annotations

import ast
from typing import Iterable, Optional

from ..astutil import ancestors, calls, enclosing_map, enclosing_try_handlers, text, walk_no_nested
from ..index import AnalysisError, FuncInfo, builtin_exc_chain
from ..report import Ctx
from ..tables import literal_value
from .common import REPORTERS, call_nodes, cfg_of, guards, is_reporter_call, reporter_calls

V = 'xmlschema.validators'
ST = f'{V}.simple_types'

# concrete classes the registered converters raise (int/float/Decimal by language definition; the
# elementpath.datatypes constructors additionally raise OverflowError for out-of-range years)
CONVERTER_RAISES_DECODE = ('ValueError', 'TypeError', 'OverflowError', 'InvalidOperation')
CONVERTER_RAISES_ENCODE = ('ValueError', 'OverflowError', 'InvalidOperation')


def handler_classes(ctx: Ctx, f: FuncInfo, handlers: Iterable[ast.ExceptHandler]) -> set[str]:
    """Simple names of the classes listed by the handlers (tuple elements resolved through module-level aliases)."""
    out: set[str] = set()
    for h in handlers:
        if h.type is None:
            out.add('BaseException')
            continue
        for e in (h.type.elts if isinstance(h.type, ast.Tuple) else [h.type]):
            out.add(text(e).split('.')[-1])
    return out


def covers(ctx: Ctx, f: FuncInfo, names: set[str], cls: str) -> bool:
    """Is exception class ``cls`` (simple or dotted name, as seen from f's module) caught by a handler listing ``names``?"""
    chain = ctx.idx.exception_class_chain(cls, f.module)
    if not chain or chain == {cls}:
        chain = builtin_exc_chain(cls.split('.')[-1])
    return bool(chain & names)


def site_handlers(f: FuncInfo, node: ast.AST, parents) -> list[ast.ExceptHandler]:
    hs: list[ast.ExceptHandler] = []
    for t, handlers in enclosing_try_handlers(node, parents):
        hs.extend(handlers)
    return hs


def rule_a(ctx: Ctx) -> None:
    rule = 'C11.a'
    n = 0
    for f in ctx.idx.iter_functions('validators'):
        if isinstance(f.node, ast.Lambda):
            continue
        par = None
        for c in calls(f.node):
            if isinstance(c.func, ast.Attribute) and c.func.attr in ('to_python', 'from_python', 'python_type') \
                    and isinstance(c.func.value, ast.Name):
                if par is None:
                    par = enclosing_map(f.node)
                    ctx.analysed(f.qualname)
                n += 1
                decode_side = f.name in ('raw_decode', 'get_atomic_value') or c.func.attr == 'to_python'
                need = CONVERTER_RAISES_DECODE if decode_side else CONVERTER_RAISES_ENCODE
                hs = site_handlers(f, c, par)
                names = handler_classes(ctx, f, hs)
                missing = [k for k in need if not covers(ctx, f, names, k)]
                ok = not missing
                short = f.qualname.split('.', 3)[-1]
                ctx.ob(rule, f'{short}: exceptions of the converter call `{text(c)[:40]}` are captured', f.loc(c), ok,
                       '' if ok else f'handlers {sorted(names)} do not cover {missing} '
                       f'(e.g. OverflowError from a year that does not fit, int(float("inf")))',
                       key=f'{f.qualname}|{text(c.func)}|{sorted(names)}')
    ctx.floor(rule, 'converter call sites (to_python / from_python / python_type)', n, 7)
    # callers that ask the converter wrapper to re-raise (strict=True) must catch the same set
    m = 0
    for f in ctx.idx.iter_functions('validators'):
        if isinstance(f.node, ast.Lambda):
            continue
        for c in calls(f.node, attr='get_atomic_value'):
            if any(k.arg == 'strict' and text(k.value) == 'True' for k in c.keywords):
                par = enclosing_map(f.node)
                m += 1
                names = handler_classes(ctx, f, site_handlers(f, c, par))
                missing = [k for k in CONVERTER_RAISES_DECODE if not covers(ctx, f, names, k)]
                ctx.ob(rule, f'{f.qualname.split(".", 3)[-1]}: a strict get_atomic_value() probe catches what the converter re-raises', f.loc(c),
                       not missing, '' if not missing else f'handlers {sorted(names)} do not cover {missing}', key=f'{f.qualname}|strict-probe')
    ctx.floor(rule, 'strict get_atomic_value probes', m, 1)
    ctx.trusted.append('raise-set of the registered converters: ValueError, TypeError, OverflowError, decimal.InvalidOperation')
    ctx.explain('C11.a: every call of a registered converter in validators/ sits inside try-handlers that cover the '
                'converter raise-set (ValueError, TypeError, ArithmeticError family).')


# ------------------------------------------------------------------------------------- C11.b
def explicit_raises(ctx: Ctx, f: FuncInfo) -> list[tuple[str, ast.Raise]]:
    """(class name, raise stmt) for every explicit `raise Class(...)` of f that is not caught inside f."""
    out = []
    par = enclosing_map(f.node)
    for r in walk_no_nested(f.node):
        if not isinstance(r, ast.Raise) or r.exc is None:
            continue
        e = r.exc.func if isinstance(r.exc, ast.Call) else r.exc
        if not isinstance(e, (ast.Name, ast.Attribute)):
            continue
        name = text(e)
        full = ctx.idx.resolve_name(f.module, name)
        is_class = (full in ctx.idx.classes) or name.split('.')[-1] in builtin_exc_chain(name.split('.')[-1]) and name.split('.')[-1][0].isupper() \
            and name.split('.')[-1].endswith(('Error', 'Exception', 'Warning', 'Exceeded', 'Blocked', 'Forbidden', 'StopValidation'))
        if not is_class:
            continue   # `raise err` re-raise of a caught object
        hs = site_handlers(f, r, par)
        names = handler_classes(ctx, f, hs)
        if hs and covers(ctx, f, names, name):
            continue
        out.append((name, r))
    ctx.analysed(f.qualname)
    return out


def closure_raises(ctx: Ctx, funcs: list[FuncInfo]) -> list[tuple[str, FuncInfo, ast.Raise]]:
    out = []
    for f in funcs:
        for name, r in explicit_raises(ctx, f):
            out.append((name, f, r))
    return out


# reviewed exceptions: (guarded callee, raised class) -> reason
REVIEWED = {
    ('get_value', 'XMLSchemaNotBuiltError'): 'raised by FieldValueSelector.__init__ only for an unbuilt field; fields are built before validation starts',
    ('get_instance_type', 'XMLSchemaValidationError'): 'latent: xsd_attribute.validate(type_name) on an xsi:type attribute declaration resolves to '
                                                       'xs:anySimpleType, which cannot fail — no failing input exists',
}


def rule_b(ctx: Ctx) -> None:
    rule = 'C11.b'
    idx = ctx.idx
    staged_get = idx.func(f'{V}.builders.StagedMap.__getitem__')
    git = idx.func(f'{V}.xsd_globals.XsdGlobals.get_instance_type')
    cdc = idx.func(f'{V}.groups.XsdGroup.check_dynamic_context')
    identity = idx.cls(f'{V}.identities.IdentityCounter')
    conv_base = idx.cls('xmlschema.converters.base.XMLSchemaConverter')
    fvs_get = idx.func(f'{V}.identities.FieldValueSelector.get_value')
    upd = idx.func(f'{V}.identities.XsdIdentity.update_elements')
    rows = [
        # callee attribute name, receiver predicate, closure, guarded-at functions
        ('check_dynamic_context', lambda r: r == 'self', [cdc, git, staged_get], [f'{V}.groups.XsdGroup.raw_decode']),
        ('get_instance_type', lambda r: r == 'self.maps', [git, staged_get],
         [f'{V}.elements.XsdElement.raw_decode', f'{V}.elements.XsdElement.raw_encode']),
        ('increase', lambda r: r == 'counter', idx.overrides(identity, 'increase'), [f'{V}.elements.XsdElement.collect_key_fields']),
        ('get_value', lambda r: True, [fvs_get], [f'{V}.elements.XsdElement.collect_key_fields']),
        ('update_elements', lambda r: r.endswith('identity'), [upd], [f'{V}.elements.XsdElement.raw_decode']),
        ('element_decode', lambda r: r == 'context.converter', idx.overrides(conv_base, 'element_decode'),
         [f'{V}.elements.XsdElement.raw_decode']),
        ('element_encode', lambda r: r == 'context.converter', idx.overrides(conv_base, 'element_encode'),
         [f'{V}.elements.XsdElement.raw_encode', f'{V}.wildcards.XsdAnyElement.raw_encode']),
    ]
    total_sites = 0
    sibling: dict[str, list[tuple[str, frozenset]]] = {}
    for callee, recv_ok, closure, sites in rows:
        rz = closure_raises(ctx, closure)
        classes = sorted({n.split('.')[-1] for n, _, _ in rz})
        ctx.count(f'{rule}:closure {callee} raises {classes}')
        for q in sites:
            f = idx.func(q)
            par = enclosing_map(f.node)
            cs = [c for c in calls(f.node) if isinstance(c.func, ast.Attribute) and c.func.attr == callee and recv_ok(text(c.func.value))]
            if not cs:
                raise AnalysisError(f'{rule}: guarded call .{callee}() not found in {q}')
            for c in cs:
                total_sites += 1
                hs = site_handlers(f, c, par)
                names = handler_classes(ctx, f, hs)
                sibling.setdefault(callee, []).append((f'{q}:{c.lineno}', frozenset(names)))
                short = q.split('.', 3)[-1]
                if not hs:
                    ctx.ob(rule, f'{short}: call of {callee}() is guarded by a try', f.loc(c), False, 'no enclosing try', key=f'{q}|{callee}|unguarded')
                    continue
                # handlers report
                rep = all(any(True for s in h.body for _ in reporter_calls(s)) or
                          any(True for s in h.body for _ in calls(s, attr='append', recv='errors')) for h in hs
                          if not any(isinstance(x, ast.Raise) and x.exc is None for x in h.body))
                ctx.ob(rule, f'{short}: the handlers around {callee}() report through the context', f.loc(c), rep, '', key=f'{q}|{callee}|reports')
                for name, rf, r in rz:
                    simple = name.split('.')[-1]
                    if (callee, simple) in REVIEWED:
                        ctx.ob(rule, f'{short}: {simple} from {rf.name} is a reviewed exception', f.loc(c), True,
                               REVIEWED[(callee, simple)], key=f'{q}|{callee}|reviewed|{simple}', nontrivial=False)
                        continue
                    chain = idx.exception_class_chain(name, rf.module)
                    ok = bool(chain & names)
                    ctx.ob(rule, f'{short}: {simple} raised by {rf.qualname.split(".", 3)[-1]} is caught at the {callee}() call',
                           f.loc(c), ok, '' if ok else f'handlers {sorted(names)} do not cover {simple} (raised at {rf.loc(r)}): '
                           f'lax validation would raise instead of collecting', key=f'{q}|{callee}|{simple}|{rf.name}')
    ctx.floor(rule, 'guarded conversion sites', total_sites, 8)
    # sibling cross-check: the same lookup (get_instance_type) guarded for the same classes everywhere
    gi_sites = sibling.get('get_instance_type', [])
    f = idx.func(f'{V}.groups.XsdGroup.raw_decode')
    par = enclosing_map(f.node)
    for c in calls(f.node, attr='check_dynamic_context'):
        names = handler_classes(ctx, f, site_handlers(f, c, par))
        for site, other in gi_sites:
            # whatever the element-level sites catch for the lookup must be caught for the group-level lookup too
            miss = {k for k in other if k in ('KeyError', 'TypeError') and not (builtin_exc_chain(k) & names)}
            ctx.ob(rule, f'sibling agreement: the group-level xsi:type lookup is guarded like {site.split(".")[-1]}', f.loc(c), not miss,
                   '' if not miss else f'{sorted(miss)} caught there but not here', key=f'sibling|check_dynamic_context|{site.rsplit(":", 1)[0]}')
    # validator callables: every call site in validators/ raw_* methods is inside try/except XMLSchemaValidationError + report
    n_val = 0
    for f in idx.iter_functions('validators'):
        if f.name not in ('raw_decode', 'raw_encode') or isinstance(f.node, ast.Lambda):
            continue
        par = None
        loop_vars = {text(n.target) for n in walk_no_nested(f.node) if isinstance(n, ast.For) and text(n.iter) in ('self.validators', 'patterns')}
        for c in calls(f.node):
            fn = text(c.func)
            if fn in loop_vars or fn in ('self.patterns', 'patterns'):
                if par is None:
                    par = enclosing_map(f.node)
                n_val += 1
                hs = site_handlers(f, c, par)
                names = handler_classes(ctx, f, hs)
                ok = covers(ctx, f, names, 'XMLSchemaValidationError') and \
                    all(any(True for s in h.body for _ in reporter_calls(s)) for h in hs)
                ctx.ob(rule, f'{f.qualname.split(".", 3)[-1]}: validator call `{fn}(…)` is guarded and its error reported', f.loc(c), ok,
                       '' if ok else f'handlers {sorted(names)}', key=f'{f.qualname}|validator|{fn}|{text(c.args[0]) if c.args else ""}')
    ctx.floor(rule, 'validator callable call sites', n_val, 16)
    ctx.explain('C11.b: for each guarded callee of the instance table the explicit raise-set of its closure is recomputed from '
                'the source and must be covered (class hierarchy) by the handlers at every guarding site.')


# ------------------------------------------------------------------------------------- C11.c
VALIDATION_ERRORS = ('XMLSchemaValidationError', 'XMLSchemaDecodeError', 'XMLSchemaEncodeError', 'XMLSchemaChildrenValidationError')
API_MISUSE = {
    f'{V}.complex_types.XsdComplexType.decode': 'text passed to a complex type without simple content: wrong API use, before any data is processed',
    f'{V}.complex_types.XsdComplexType.raw_decode': 'text passed to a complex type without simple content: wrong API use',
    f'{V}.schemas.XMLSchemaBase.iter_encode': 'no element declaration can be selected for the data: encoding cannot start',
}


def rule_c(ctx: Ctx) -> None:
    rule = 'C11.c'
    idx = ctx.idx
    facets_mod = idx.module('validators.facets')
    helpers_mod = idx.module('validators.helpers')
    n = 0
    for f in idx.iter_functions('validators'):
        if isinstance(f.node, ast.Lambda):
            continue
        for r in walk_no_nested(f.node):
            if not isinstance(r, ast.Raise) or r.exc is None:
                continue
            e = r.exc.func if isinstance(r.exc, ast.Call) else r.exc
            if not isinstance(e, (ast.Name, ast.Attribute)) or text(e).split('.')[-1] not in VALIDATION_ERRORS:
                continue
            n += 1
            where = f.qualname
            if f.module is facets_mod and f.cls is not None:
                kind = 'facet validator'
                ok = True
            elif f.module is helpers_mod and f.name.endswith('_validator'):
                kind = 'built-in validator function'
                ok = True
            elif where == f'{V}.groups.XsdGroup.check_dynamic_context':
                kind = 'check_dynamic_context (guarded at its call site, C11.b)'
                ok = True
            elif where in API_MISUSE:
                kind = 'API-misuse site: ' + API_MISUSE[where]
                ok = True
            elif where.endswith('.raise_or_collect'):
                kind = 'raise_or_collect'
                ok = True
            else:
                kind = 'outside the reviewed classes'
                ok = False
            ctx.ob(rule, f'{where.split(".", 2)[-1]}: `raise {text(e)}` is in a validator callable / reviewed site', f.loc(r), ok, kind,
                   key=f'{where}|raise|{text(e)}|{"" if ok else f.loc(r)}')
    ctx.floor(rule, 'explicit raises of validation errors in validators/', n, 40)
    ctx.explain('C11.c: every explicit raise of a validation error class in validators/ is inside a validator callable whose '
                'call sites are guarded (C11.b), raise_or_collect, or one of 3 reviewed API-misuse sites.')


# ------------------------------------------------------------------------------------- C11.d
LOADER = 'xmlschema.resources.xml_loader.XMLResourceLoader'


def _counter_rule(ctx: Ctx, rule: str, f: FuncInfo, counter: str, limit_name: str, balanced: bool) -> None:
    g = cfg_of(ctx, f)
    short = f.name
    inits = [n for n in g.nodes if n.kind == 'stmt' and isinstance(n.ast, ast.Assign) and text(n.ast.targets[0]) == counter]
    ok = len(inits) == 1 and text(inits[0].ast.value) == f'_limits.{limit_name}'
    ctx.ob(rule, f'{short}: `{counter}` starts from _limits.{limit_name}, read when parsing starts', f.loc(inits[0].ast) if inits else f.loc(), ok,
           '' if ok else f'initialised by {[text(i.ast.value) for i in inits]}', key=f'{f.qualname}|{counter}|init')
    decs = [n for n in g.nodes if n.kind == 'stmt' and isinstance(n.ast, ast.AugAssign) and text(n.ast.target) == counter
            and isinstance(n.ast.op, ast.Sub) and text(n.ast.value) == '1']
    incs = [n for n in g.nodes if n.kind == 'stmt' and isinstance(n.ast, ast.AugAssign) and text(n.ast.target) == counter
            and isinstance(n.ast.op, ast.Add) and text(n.ast.value) == '1']
    others = [n for n in g.nodes if n.kind == 'stmt' and isinstance(n.ast, (ast.AugAssign, ast.Assign)) and
              text(n.ast.target if isinstance(n.ast, ast.AugAssign) else n.ast.targets[0]) == counter and n not in decs + incs + inits]
    ctx.ob(rule, f'{short}: `{counter}` is only initialised, decremented and incremented by one', f.loc(), not others,
           '' if not others else f'other write: {text(others[0].ast)}', key=f'{f.qualname}|{counter}|writes')
    # decrement on every 'start' event path: the decrement is the first effect of the `event == 'start'` branch
    starts = [n for n in g.nodes if n.kind == 'if' and text(n.ast.test) == "event == 'start'"]
    ends = [n for n in g.nodes if n.kind == 'if' and text(n.ast.test) == "event == 'end'"]
    if len(starts) != 1:
        raise AnalysisError(f'{rule}: expected one `event == \'start\'` branch in {f.qualname}')
    st = starts[0]
    stores = [n for n in g.nodes if n.kind == 'stmt' and (
        (isinstance(n.ast, ast.Assign) and any(text(t).endswith('[node]') or text(t) == 'self.root' for t in n.ast.targets))
        or any(isinstance(x, ast.Yield) for x in ast.walk(n.ast)))]
    start_body = set()
    for s in st.ast.body:
        for sub in ast.walk(s):
            start_body.update(g.nodes_of(sub))
    stores_in_start = [n for n in stores if n in start_body]
    ok = len(decs) == 1 and decs[0] in start_body
    if ok:
        for s in stores_in_start:
            w = g.must_pass(st, [s], decs, kinds='nTF')
            ok = ok and w is None
    ctx.ob(rule, f'{short}: every \'start\' event decrements `{counter}` before the node is stored or yielded', f.loc(st.ast), ok, '',
           key=f'{f.qualname}|{counter}|decrement')
    # the guard raises XMLResourceExceeded right after the decrement and before the node is stored or yielded
    gtests = [n for n in g.nodes if n.kind == 'if' and counter in text(n.ast.test) and n in start_body]
    ok = len(gtests) == 1
    det = ''
    thr = None
    if ok:
        gt = gtests[0]
        rz = [x for s in gt.ast.body for x in ast.walk(s) if isinstance(x, ast.Raise)]
        ok = bool(rz) and 'XMLResourceExceeded' in text(rz[0].exc) and not gt.ast.orelse
        for s in stores_in_start:
            ok = ok and g.must_pass(st, [s], [gt], kinds='nTF') is None
        dom = g.dominators(kinds='nTF')
        ok = ok and decs and decs[0] in dom[gt]
        t = text(gt.ast.test)
        # threshold: after n start events without matching end c = L - n. Which n is refused?
        #   `not c` / `c == 0`  -> refused at n == L        (depth L is refused:   "limit reached")
        #   `c < 0`            -> refused at n == L + 1    (depth L is accepted:  "limit exceeded")
        if t in (f'not {counter}', f'{counter} == 0', f'{counter} <= 0', f'{counter} < 1'):
            thr = 0
        elif t in (f'{counter} < 0', f'{counter} <= -1'):
            thr = 1
        else:
            ctx.unrecognised(rule, f.loc(gt.ast), f'guard form `{t}`')
    ctx.ob(rule, f'{short}: the `{counter}` guard raises XMLResourceExceeded before the node is stored or yielded', f.loc(gtests[0].ast) if gtests else f.loc(),
           ok, det, key=f'{f.qualname}|{counter}|guard')
    if thr is not None:
        ctx.ob(rule, f'{short}: a document exactly at the limit ({limit_name}) is processed, one beyond it is refused', f.loc(gtests[0].ast),
               thr == 1, '' if thr == 1 else f'guard `{text(gtests[0].ast.test)}` fires when the count *reaches* the limit: '
               f'{limit_name}=5 refuses a document of exactly 5 ({"levels" if balanced else "elements"})',
               key=f'{f.qualname}|{counter}|threshold')
    if balanced:
        ok = len(incs) == 1 and len(ends) == 1
        if ok:
            end_body = set()
            for s in ends[0].ast.body:
                for sub in ast.walk(s):
                    end_body.update(g.nodes_of(sub))
            ok = incs[0] in end_body and not (guards(ctx, f, incs[0]) - guards(ctx, f, ends[0]) - {("event == 'end'", 'T')})
        ctx.ob(rule, f'{short}: every \'end\' event increments `{counter}` (depth is balanced)', f.loc(ends[0].ast) if ends else f.loc(), ok, '',
               key=f'{f.qualname}|{counter}|balanced')
    else:
        ctx.ob(rule, f'{short}: `{counter}` is never incremented (a count of elements)', f.loc(), not incs, '', key=f'{f.qualname}|{counter}|monotone')


def rule_d(ctx: Ctx) -> None:
    rule = 'C11.d'
    p = ctx.idx.func(f'{LOADER}._parse')
    l = ctx.idx.func(f'{LOADER}._lazy_iterparse')
    _counter_rule(ctx, rule, p, 'remaining_levels', 'MAX_XML_DEPTH', True)
    _counter_rule(ctx, rule, p, 'remaining_elements', 'MAX_XML_ELEMENTS', False)
    _counter_rule(ctx, rule, l, 'remaining_levels', 'MAX_XML_DEPTH', True)
    # the lazy loader has no element limit (documented)
    ok = 'remaining_elements' not in text(l.node)
    ctx.ob(rule, '_lazy_iterparse: no element limit (documented: lazy resources are not bounded)', l.loc(), ok, '', key='lazy|no-element-limit', nontrivial=False)
    # limits module forwards the four names to _limits
    sa = ctx.idx.func('xmlschema.limits.LimitsModule.__setattr__')
    g = cfg_of(ctx, sa)
    names = ('MAX_MODEL_DEPTH', 'MAX_SCHEMA_SOURCES', 'MAX_XML_DEPTH', 'MAX_XML_ELEMENTS')
    src = text(sa.node)
    fw = {}
    for n in g.nodes:
        if n.kind == 'stmt':
            t = text(n.ast)
            for nm_ in names:
                if t == f'_limits.{nm_} = value':
                    fw[nm_] = n
            if t == 'setattr(_limits, attr, value)':
                gs = guards(ctx, sa, n)
                listed = [x for x, lab in gs if lab == 'F' and x.startswith('attr not in ')]
                for nm_ in names:
                    if any(repr(nm_) in x for x in listed) and not any(x == f"attr == '{nm_}'" and lab == 'T' for x, lab in gs):
                        fw.setdefault(nm_, n)
    for nm_ in names:
        ctx.ob(rule, f'limits.{nm_} = v is forwarded to _limits.{nm_} (the value the loaders read)', sa.loc(), nm_ in fw, '', key=f'limits|forward|{nm_}')
    lm = ctx.idx.module('_limits')
    for nm_ in names:
        ok = nm_ in lm.assigns
        ctx.ob(rule, f'_limits.{nm_} is defined', f'{lm.relpath}:{getattr(lm.assigns.get(nm_), "lineno", 0)}', ok, '', key=f'_limits|{nm_}', nontrivial=False)
    ctx.explain('C11.d: counter analysis of the two parser loops — initialised from _limits inside the function, decremented on '
                'every start event, balanced on end events for depth, guard raises XMLResourceExceeded before the node is '
                'stored/yielded; the threshold follows from the counter shape (c = L - n).')


# ------------------------------------------------------------------------------------- C11.e
def rule_e(ctx: Ctx) -> None:
    rule = 'C11.e'
    idx = ctx.idx
    # recursion cycle of validation: XsdElement.raw_decode -> XsdGroup.raw_decode -> XsdElement.raw_decode
    e = idx.func(f'{V}.elements.XsdElement.raw_decode')
    gq = idx.func(f'{V}.groups.XsdGroup.raw_decode')
    e2g = any(text(c.func) == 'content_decoder.raw_decode' for c in calls(e.node))
    g2e = any(text(c.func) == 'xsd_element.raw_decode' for c in calls(gq.node))
    if not (e2g and g2e):
        raise AnalysisError(f'{rule}: recursion cycle XsdElement.raw_decode <-> XsdGroup.raw_decode not found')
    frames_per_level = 2
    lm = idx.module('_limits')
    depth = literal_value(lm, 'MAX_XML_DEPTH')
    default_recursion_limit = 1000   # CPython default (sys.getrecursionlimit()), not changed by the package
    raised = any('setrecursionlimit' in m.source for m in idx.modules.values())
    caught = False
    for q in (f'{V}.schemas.XMLSchemaBase.iter_errors', f'{V}.schemas.XMLSchemaBase.iter_decode', f'{V}.schemas.XMLSchemaBase.raw_decoder',
              e.qualname, gq.qualname):
        f = idx.func(q)
        for t in walk_no_nested(f.node):
            if isinstance(t, ast.Try):
                if {'RecursionError', 'RuntimeError', 'Exception', 'BaseException'} & handler_classes(ctx, f, t.handlers):
                    caught = True
    ok = frames_per_level * depth <= default_recursion_limit or raised or caught
    ctx.ob(rule, f'a document as deep as the documented limit (MAX_XML_DEPTH={depth}) can be validated: '
                 f'{frames_per_level} interpreter frames per level must fit the recursion limit or RecursionError must be handled',
           f'{lm.relpath}:{lm.assigns["MAX_XML_DEPTH"].lineno}', ok,
           '' if ok else f'{frames_per_level} x {depth} > {default_recursion_limit} frames, no handler for RecursionError on the path and '
           f'no sys.setrecursionlimit in the package: depth ~{default_recursion_limit // frames_per_level}..{depth} raises RecursionError '
           f'(not a library exception)', key='recursion|depth-limit')
    ctx.assumptions.append('CPython default recursion limit 1000; each raw_decode call consumes one interpreter frame')
    ctx.explain('C11.e: the validation recursion cycle consumes >= 2 frames per XML level; frames x MAX_XML_DEPTH is compared '
                'with the interpreter default recursion limit.')


RAISING_MODES = {
    # builtin call forms that raise a *non-library* exception on data the caller does not control
    'zip(strict=True)': lambda c: isinstance(c.func, ast.Name) and c.func.id == 'zip' and any(k.arg == 'strict' and isinstance(k.value, ast.Constant) and k.value.value is True
                                                                                            for k in c.keywords),
}


def rule_f(ctx: Ctx) -> None:
    """Helpers that digest attribute values of the *instance* (location hints, xsi attributes) must not use builtin forms that
    raise ValueError on malformed input: their callers at validation time are not guarded (a dangling xsi:schemaLocation token
    is ignored, not an error of another type)."""
    rule = 'C11.f'
    idx = ctx.idx
    hits = []
    scanned = 0
    for f in idx.iter_functions():
        if isinstance(f.node, ast.Lambda) or f.module.name.startswith(('xmlschema.testing', 'xmlschema.cli', 'xmlschema.extras', 'xmlschema.exports')):
            continue
        scanned += 1
        for c in calls(f.node):
            for what, pred in RAISING_MODES.items():
                if pred(c):
                    hits.append((f, c, what))
    # positive control: the predicate recognises the form it is meant for
    probe = ast.parse('list(zip(a[0::2], a[1::2], strict=True))').body[0].value.args[0]
    if not RAISING_MODES['zip(strict=True)'](probe):
        raise AnalysisError(f'{rule}: self-check failed (zip(strict=True) not recognised)')
    ctx.floor(rule, 'library functions scanned for raising builtin modes', scanned, 800)
    for f, c, what in hits:
        # accepted only inside a try that catches ValueError in the same function
        enc = enclosing_try_handlers(c, enclosing_map(f.node))
        ok = any('ValueError' in text(h.type) or h.type is None for _, hs in enc for h in hs)
        ctx.ob(rule, f'{f.qualname.split(".", 1)[-1]}: `{text(c)[:50]}` ({what}) is guarded against ValueError where it is called', f.loc(c), ok,
               '' if ok else 'raises ValueError on input of uneven length; the function is reached from validation (check_dynamic_context, location hints) without a '
               'handler: lax validation raises ValueError instead of returning a verdict', key=f'{f.qualname}|{what}')
    ctx.explain('C11.f: scan of the library functions for builtin call forms that raise ValueError on malformed instance data '
                '(zip(strict=True)); each hit must sit inside a handler of ValueError.')


def _len_fact(atom: str, var_names: set, k: int):
    """(value the atom must have, ) for which the atom establishes len(V) > k; None when the atom says nothing about it."""
    try:
        e = ast.parse(atom, mode='eval').body
    except SyntaxError:
        return None
    if text(e) in var_names:
        return True                       # truthiness of the sequence: non-empty
    if not (isinstance(e, ast.Compare) and len(e.ops) == 1):
        return None
    l, r, op = e.left, e.comparators[0], e.ops[0]
    def is_len(x):
        return isinstance(x, ast.Call) and text(x.func) == 'len' and len(x.args) == 1 and text(x.args[0]) in var_names
    def const(x):
        return x.value if isinstance(x, ast.Constant) and isinstance(x.value, int) else None
    if is_len(r) and const(l) is not None:     # mirror: c OP len(V)
        l, r = r, l
        op = {ast.Lt: ast.Gt, ast.Gt: ast.Lt, ast.LtE: ast.GtE, ast.GtE: ast.LtE}.get(type(op), type(op))()
    if not (is_len(l) and const(r) is not None):
        return None
    c = const(r)
    if isinstance(op, ast.Eq):
        return True if c > k else (False if c == 0 and k == 0 else None)
    if isinstance(op, ast.NotEq):
        return False if c > k else (True if c == 0 and k == 0 else None)
    if isinstance(op, ast.Gt):
        return True if c >= k else None
    if isinstance(op, ast.GtE):
        return True if c > k else None
    if isinstance(op, ast.Lt):
        return False if c > k else None        # not (len < c)  ->  len >= c
    if isinstance(op, ast.LtE):
        return False if c >= k else None
    return None


def rule_g(ctx: Ctx) -> None:
    """The code that builds the report of an error must not fail itself: in the validation-error classes a constant-index
    subscript `V[k]` is reached only where len(V) > k is established - by a test on the way (truth table of the guarding tests, for V
    or for the collection V was copied from), or by a literal definition that is only appended to."""
    rule = 'C11.g'
    from .common import atom_forces, bool_atoms
    n = 0
    for f in ctx.idx.iter_functions('validators.exceptions'):
        if isinstance(f.node, ast.Lambda):
            continue
        subs = [x for x in walk_no_nested(f.node) if isinstance(x, ast.Subscript) and isinstance(x.ctx, ast.Load) and isinstance(x.slice, ast.Constant)
                and isinstance(x.slice.value, int) and isinstance(x.value, ast.Name)]
        if not subs:
            continue
        ctx.analysed(f.qualname)
        g = cfg_of(ctx, f)
        rd = g.reaching_defs(kinds='nTF')
        for x in subs:
            v, k = x.value.id, x.slice.value
            if k < 0:
                k = -k - 1
            own = g.owners(x)
            if not own:
                continue
            owner = own[0]
            n += 1
            names = {v}
            defs = rd[owner].get(v, set())
            literal = False
            for d in defs:
                if d.kind == 'stmt' and isinstance(d.ast, (ast.Assign, ast.AnnAssign)) and d.ast.value is not None:
                    val = d.ast.value
                    if isinstance(val, ast.Call) and text(val.func) in ('tuple', 'list', 'sorted') and len(val.args) == 1 and len(defs) == 1:
                        names.add(text(val.args[0]))
                    if isinstance(val, (ast.List, ast.Tuple)) and len(val.elts) > k and not any(isinstance(e, ast.Starred) for e in val.elts) and len(defs) == 1:
                        shrink = [c for c in calls(f.node) if isinstance(c.func, ast.Attribute) and text(c.func.value) == v
                                  and c.func.attr in ('pop', 'clear', 'remove')] + [y for y in ast.walk(f.node) if isinstance(y, ast.Delete) and v in text(y)]
                        literal = not shrink
            # conditional expression: V[k] in the orelse/body of an IfExp guarded by its test
            est = literal
            why = 'literal definition that only grows' if literal else ''
            par = None
            for y in ast.walk(f.node):
                if isinstance(y, ast.IfExp) and (any(z is x for z in ast.walk(y.body)) or any(z is x for z in ast.walk(y.orelse))):
                    par = y
            tests = [(t, lab) for t, lab in guards(ctx, f, owner)]
            if par is not None:
                tests.append((text(par.test), 'T' if any(z is x for z in ast.walk(par.body)) else 'F'))
            for t, lab in tests:
                if est:
                    break
                try:
                    te = ast.parse(t, mode='eval').body
                except SyntaxError:
                    continue
                for a in bool_atoms(te):
                    need = _len_fact(a, names, k)
                    if need is None:
                        continue
                    # on this edge the atom must have the value `need`: whenever it has the other value the test goes the other way
                    if atom_forces(te, a, not need, lab != 'T'):
                        est, why = True, f'`{t[:50]}` is {lab == "T"}'
                        break
                    # special case: F edge of `len(V) > 1` after `not V` was excluded etc. is not enough by itself
            ctx.ob(rule, f'{f.qualname.split(".", 2)[-1]}: `{text(x)}` (line {x.lineno}) is reached only with len({v}) > {k}', f.loc(x), est,
                   '' if est else f'nothing on the way establishes that `{v}` has {k + 1} element(s): an empty `{sorted(names - {v})[0] if names - {v} else v}` makes the construction of the '
                   'error report raise IndexError out of is_valid()/iter_errors()/lax decoding (e.g. a strict wildcard with notNamespace or namespace="" among the expected particles)',
                   key=f'{f.qualname}|index|{text(x)}|{why[:20] if not est else "ok"}' if False else f'{f.qualname}|index|{text(x)}')
    ctx.floor(rule, 'constant-index subscripts in the validation-error classes', n, 5)
    ctx.explain('C11.g: every `V[k]` with a constant k in xmlschema/validators/exceptions.py needs len(V) > k established by a dominating length test (atoms len(V) OP c, truthiness; '
                'V or the collection it was copied from) or by a literal definition that is never shrunk.')


# what an XML parser driven over arbitrary bytes raises besides its syntax error (reviewed from the pyexpat / codecs documentation, not derivable from the
# repository): an XML declaration naming an unknown or non-text codec -> LookupError; a multi-byte or stateful codec, a lone surrogate in a str source,
# a codec that fails on the first bytes -> ValueError / UnicodeError (a ValueError)
PARSER_RAISES = {'etree': ('SyntaxError', 'LookupError', 'ValueError', 'UnicodeError'),
                 'sax': ('SAXParseException', 'LookupError', 'ValueError', 'UnicodeError')}


def rule_h(ctx: Ctx) -> None:
    """Every place that drives an XML parser over the source converts what the parser raises into a library error."""
    rule = 'C11.h'
    n = 0
    for f in ctx.idx.iter_functions('resources'):
        if isinstance(f.node, ast.Lambda):
            continue
        parents = None
        for c in calls(f.node):
            d = text(c.func)
            kind = 'sax' if d == 'pulldom.parse' else 'etree' if d in ('self._iterparse', 'iterparse', 'ElementTree.iterparse') else None
            if kind is None:
                continue
            # the parser runs while the returned iterator is consumed: the site is the loop that iterates it
            if parents is None:
                parents = enclosing_map(f.node)
            loop = c
            while loop is not None and not isinstance(loop, (ast.For, ast.comprehension)):
                loop = parents.get(id(loop))
            if not isinstance(loop, ast.For):
                continue
            n += 1
            hs = site_handlers(f, loop, parents)
            names = handler_classes(ctx, f, hs)
            for exc in PARSER_RAISES[kind]:
                caught = covers(ctx, f, names, exc) or (exc == 'SAXParseException' and 'SAXParseException' in names)
                conv = [h for h in hs if (h.type is None or exc in {text(e).split('.')[-1] for e in (h.type.elts if isinstance(h.type, ast.Tuple) else [h.type])}
                                          or covers(ctx, f, handler_classes(ctx, f, [h]), exc))]
                raises_lib = bool(conv) and all(any(isinstance(y, ast.Raise) and y.exc is not None and text(y.exc).startswith(('XMLResource', 'XMLSchema'))
                                                    for y in ast.walk(h)) for h in conv[:1])
                ok = caught and raises_lib
                ctx.ob(rule, f'{f.qualname.split(".", 2)[-1]}: `{d}(…)` - {exc} raised by the parser is converted into a library error', f.loc(loop), ok,
                       '' if ok else f'{exc} escapes from the parser loop: e.g. <?xml version="1.0" encoding="bogus"?> (LookupError), encoding="utf-7" (ValueError) or a '
                       'lone surrogate in a str source (UnicodeEncodeError) leave XMLResource()/is_valid()/iter_errors() as a built-in exception',
                       key=f'{f.qualname}|parser|{d}|{exc}')
    ctx.floor(rule, 'loops driving an XML parser', n, 4)
    ctx.trusted.append('raise-set of pyexpat on encoding problems: LookupError, ValueError/UnicodeError (reviewed table PARSER_RAISES)')
    ctx.explain('C11.h: handler coverage (exception hierarchy) of the loops that iterate ElementTree.iterparse / pulldom.parse over the reviewed raise-set of the parser; the '
                'covering handler raises a library error.')


# what the evaluation of a user-written XPath expression over instance data raises: the elementpath hierarchy (ElementPathError and its subclasses, which also
# derive from the matching built-ins) and - reviewed, the library converts operands with float() - the built-in ArithmeticError family (OverflowError)
XPATH_RAISES = ('ElementPathError', 'ElementPathZeroDivisionError', 'OverflowError')
XPATH_EVAL = ('evaluate', 'select', 'boolean_value')
XPATH_SITES = {
    'xmlschema.validators.elements.XsdAlternative.test': 'type alternative: a dynamic error makes the test false',
    'xmlschema.validators.assertions.XsdAssert.__call__': 'xs:assert: a dynamic error is a validation error',
    'xmlschema.validators.facets.XsdAssertionFacet.__call__': 'xs:assertion facet: a dynamic error is a validation error',
}


def rule_i(ctx: Ctx) -> None:
    """Sibling sites that evaluate a schema author's XPath expression on instance data: whatever the evaluation raises ends as `false` / as a
    validation error, never as a foreign exception out of iter_errors()."""
    rule = 'C11.i'
    n = 0
    for q, why in XPATH_SITES.items():
        f = ctx.idx.func(q)
        ctx.analysed(q)
        parents = enclosing_map(f.node)
        sites = [c for c in calls(f.node) if isinstance(c.func, ast.Attribute) and c.func.attr in XPATH_EVAL and text(c.func.value) == 'self.token']
        if not sites:
            raise AnalysisError(f'{rule}: no evaluation of self.token in {q}')
        for c in sites:
            n += 1
            hs = site_handlers(f, c, parents)
            # the statement containing the call may be the direct child of the try body
            names = handler_classes(ctx, f, hs)
            for exc in XPATH_RAISES:
                chain = builtin_exc_chain(exc) | ({'ElementPathError'} if exc.startswith('ElementPath') else set()) | \
                    ({'ZeroDivisionError', 'ArithmeticError', 'Exception', 'BaseException'} if exc == 'ElementPathZeroDivisionError' else set())
                ok = bool(chain & names)
                ctx.ob(rule, f'{q.split(".", 2)[-1]}: {exc} raised by `{text(c)[:40]}` is handled ({why})', f.loc(c), ok,
                       '' if ok else f'no handler for {exc} around the evaluation: e.g. test="(10 idiv xs:integer(@n)) = 1" with n="0" (division by zero) or a 400-digit n '
                       '(OverflowError in the float conversion) leaves iter_errors()/is_valid() as a foreign exception', key=f'{q}|xpath|{c.func.attr}|{exc}')
    ctx.floor(rule, 'XPath evaluation sites', n, 4)
    # no other validator evaluates a token without being listed
    for f in ctx.idx.iter_functions('validators'):
        if isinstance(f.node, ast.Lambda) or f.qualname in XPATH_SITES:
            continue
        for c in calls(f.node):
            if isinstance(c.func, ast.Attribute) and c.func.attr in ('evaluate', 'boolean_value') and 'token' in text(c.func.value):
                ctx.ob(rule, f'{f.qualname.split(".", 2)[-1]}: `{text(c)[:50]}` is a reviewed XPath evaluation site', f.loc(c), False,
                       'XPath evaluation outside the reviewed sites', key=f'{f.qualname}|xpath-unlisted')
    # the typed value of an instance node (elementpath decodes the text with the schema type): same raise-set for out-of-range values
    m = 0
    for f in ctx.idx.iter_functions('validators'):
        if isinstance(f.node, ast.Lambda):
            continue
        reads = [x for x in ast.walk(f.node) if isinstance(x, ast.Attribute) and x.attr == 'typed_value' and isinstance(x.ctx, ast.Load)]
        if not reads:
            continue
        parents = enclosing_map(f.node)
        for x in reads:
            m += 1
            hs = site_handlers(f, x, parents)
            names = handler_classes(ctx, f, hs)
            ok = covers(ctx, f, names, 'OverflowError')
            ctx.ob(rule, f'{f.qualname.split(".", 2)[-1]}: OverflowError raised by `{text(x)}` (typed value of an instance node) is handled', f.loc(x), ok,
                   '' if ok else 'a date / duration identity field with a huge year makes elementpath raise ElementPathOverflowError, which no handler on the way to iter_errors() '
                   'catches: <i k="999999999999-01-01"/> under an xs:key with an xs:date field leaves validation as a foreign exception', key=f'{f.qualname}|typed-value')
    ctx.floor(rule, 'typed-value reads of instance nodes', m, 1)
    ctx.trusted.append('raise-set of elementpath evaluation: ElementPathError subclasses and built-in OverflowError (reviewed table XPATH_RAISES)')
    ctx.explain('C11.i: handler coverage of the three sites that evaluate schema XPath tests on instance data, over the reviewed raise-set.')


def rule_j(ctx: Ctx) -> None:
    """The per-run table of identity counters is filled when an element carrying the constraint is *entered*.  KeyrefCounter.iter_errors
    looks the referred key up in that table; the key belongs to another element, which need not occur in the instance, so every caller
    must make sure the entry exists (or the lookup must tolerate its absence) - otherwise validation ends in KeyError."""
    rule = 'C11.j'
    it = ctx.idx.method('xmlschema.validators.identities.KeyrefCounter', 'iter_errors')
    look = [x for x in ast.walk(it.node) if isinstance(x, ast.Subscript) and isinstance(x.ctx, ast.Load) and text(x.slice) == 'self.refer']
    parents = enclosing_map(it.node)
    tolerant = bool(look) and all(any(covers(ctx, it, handler_classes(ctx, it, hs), 'KeyError') for _, hs in enclosing_try_handlers(x, parents)) for x in look) \
        or any(isinstance(c.func, ast.Attribute) and c.func.attr == 'get' and c.args and text(c.args[0]) == 'self.refer' for c in calls(it.node))
    ctx.floor(rule, 'lookups of the referred key in KeyrefCounter.iter_errors', len(look) + (1 if tolerant and not look else 0), 1)
    n = 0
    for f in ctx.idx.iter_functions('validators'):
        if isinstance(f.node, ast.Lambda) or f.qualname == it.qualname:
            continue
        for c in calls(f.node):
            if not (isinstance(c.func, ast.Attribute) and c.func.attr == 'iter_errors' and len(c.args) == 1 and text(c.args[0]).endswith('identities')):
                continue
            n += 1
            table = text(c.args[0])
            g = cfg_of(ctx, f)
            own = g.owners(c)
            ensured = False
            if own:
                # a store `<table>[<…refer>] = …` behind a `not in <table>` test, or a membership test guarding the call, dominates the call
                dom = g.dominators(kinds='nTF')
                for x in g.nodes:
                    if x.kind == 'if' and table in text(x.ast.test) and 'refer' in text(x.ast.test) and ('not in' in text(x.ast.test) or ' in ' in text(x.ast.test)) and x in dom[own[0]]:
                        body_store = any(isinstance(y, ast.Assign) and isinstance(y.targets[0], ast.Subscript) and text(y.targets[0].value) == table and 'refer' in text(y.targets[0].slice)
                                         for s_ in x.ast.body for y in ast.walk(s_))
                        skips = any(isinstance(y, (ast.Continue, ast.Return)) for s_ in x.ast.body for y in ast.walk(s_))
                        ensured = ensured or body_store or skips
            ok = tolerant or ensured
            ctx.ob(rule, f'{f.qualname.split(".", 2)[-1]}: `{text(c)[:60]}` cannot end in KeyError for a key that has no scope in the instance', f.loc(c), ok,
                   '' if ok else f'`{table}` has an entry only for the identities of elements that were entered: for root(use*, other?) with the key on `other` and the keyref on root, '
                   '<root><use ref="a"/></root> makes iter_errors()/is_valid() raise KeyError instead of reporting the value as not found', key=f'{f.qualname}|keyref-lookup')
    ctx.floor(rule, 'callers of KeyrefCounter.iter_errors', n, 2)
    ctx.explain('C11.j: the lookup `identities[self.refer]` in KeyrefCounter.iter_errors is either tolerant (KeyError handler / .get) or every caller is dominated by a test of '
                '`refer` against the table that stores the missing entry or skips the call.')


FLOAT_PROBES = ('math.isnan', 'math.isinf', 'math.isfinite', 'float', 'math.floor', 'math.ceil', 'math.log10')


def rule_k(ctx: Ctx) -> None:
    """Facet validators receive decoded values of unbounded size (xs:integer is arbitrary precision): a probe that converts the value to
    float - math.isnan(value), float(value) - raises OverflowError for an integer beyond the float range.  Inside a facet's __call__ such a
    probe is covered by a handler for OverflowError, otherwise the error leaves is_valid()/iter_errors() as a built-in exception."""
    rule = 'C11.k'
    n = 0
    for f in ctx.idx.iter_functions('validators.facets'):
        if isinstance(f.node, ast.Lambda) or f.cls is None or f.name != '__call__':
            continue
        parents = None
        for c in calls(f.node):
            if text(c.func) not in FLOAT_PROBES or not c.args:
                continue
            arg = c.args[0]
            if isinstance(arg, ast.Constant):
                continue
            # only probes of the validated value (the parameter) or of something derived from it
            names = {x.id for x in ast.walk(arg) if isinstance(x, ast.Name)}
            if not (names & set(f.params)):
                continue
            n += 1
            if parents is None:
                parents = enclosing_map(f.node)
            hs = site_handlers(f, c, parents)
            ok = covers(ctx, f, handler_classes(ctx, f, hs), 'OverflowError')
            ctx.ob(rule, f'{f.cls.name}.__call__: `{text(c)[:40]}` on the validated value is covered for OverflowError', f.loc(c), ok,
                   '' if ok else 'an xs:integer beyond the float range makes the probe raise OverflowError: <a>999…9</a> (400 digits) against a restriction of xs:integer with an '
                   'enumeration leaves iter_errors() as OverflowError instead of "value must be one of …"', key=f'{f.qualname}|float-probe|{text(c.func)}')
    ctx.floor(rule, 'float probes of the validated value in facet validators', n, 2)
    ctx.explain('C11.k: handler coverage (OverflowError through the built-in hierarchy) of every float-converting probe applied to the validated value in the __call__ of a facet.')


def rule_l(ctx: Ctx) -> None:
    """Lax mode never raises for invalid content: every report is made in the mode of the running call (the `validation` parameter), not in
    the mode the schema component was built with (`self.validation`, 'strict' by default) - C04.b body."""
    from .c04 import rule_b as caller_mode_reports
    caller_mode_reports(ctx, 'C11.l')


# what opening a URL given by a document raises besides URLError (reviewed from urllib / http.client): a malformed authority or port ->
# http.client.InvalidURL (an HTTPException), an incomplete data: URL or an invalid IPv6 literal -> ValueError
OPENER_RAISES = ('URLError', 'ValueError', 'HTTPException')


def rule_m(ctx: Ctx) -> None:
    """Locations come from documents (schemaLocation hints, include/import): opening or normalising a malformed one ends in a library
    error that the callers' `except OSError` treats as an unusable location - never in ValueError / InvalidURL out of validation."""
    rule = 'C11.m'
    n = 0
    for f in ctx.idx.iter_functions('resources'):
        if isinstance(f.node, ast.Lambda):
            continue
        parents = None
        for c in calls(f.node):
            d = text(c.func)
            if not (d == 'urlopen' or d.endswith('_opener.open') or d.endswith('opener.open')):
                continue
            if f.qualname == 'xmlschema.resources.fetchers.fetch_resource':
                continue     # public probe documented to raise what urlopen raises; it has no internal caller (C12.a checks that)
            parents = parents or enclosing_map(f.node)
            hs = site_handlers(f, c, parents)
            names = handler_classes(ctx, f, hs)
            for exc in OPENER_RAISES:
                n += 1
                chain = {'URLError': {'URLError', 'OSError', 'Exception', 'BaseException'}, 'ValueError': builtin_exc_chain('ValueError'),
                         'HTTPException': {'HTTPException', 'Exception', 'BaseException'}}[exc]
                ok = bool(chain & names)
                ctx.ob(rule, f'{f.qualname.split(".", 2)[-1]}: {exc} raised by `{d}(…)` is converted into a library error', f.loc(c), ok,
                       '' if ok else f'{exc} escapes: a location hint such as "urn:o http://[::1]:x/y" (InvalidURL) or "urn:o data:,x" (ValueError) makes iter_errors(…, '
                       'use_location_hints=True) raise a built-in exception', key=f'{f.qualname}|opener|{d}|{exc}')
    ctx.floor(rule, 'opener call sites x raise-set', n, 6)
    # the hint is normalised (urlsplit may raise ValueError) under a handler, or the loop goes on
    for cq in ('xmlschema.validators.elements.XsdElement', 'xmlschema.validators.elements.Xsd11Element'):
        f = ctx.idx.cls(cq).methods.get('check_dynamic_context')
        parents = enclosing_map(f.node)
        for c in calls(f.node):
            if text(c.func) != 'normalize_url':
                continue
            hs = site_handlers(f, c, parents)
            ok = covers(ctx, f, handler_classes(ctx, f, hs), 'ValueError')
            ctx.ob(rule, f'{cq.split(".")[-1]}.check_dynamic_context: a hint that cannot be normalised is skipped', f.loc(c), ok,
                   '' if ok else 'urlsplit raises ValueError for "http://[::1" and nothing on the way to iter_errors() catches it', key=f'{cq}.check_dynamic_context|normalize')
    ctx.trusted.append('raise-set of urllib openers on malformed URLs: URLError, ValueError, http.client.HTTPException (reviewed table OPENER_RAISES)')
    ctx.explain('C11.m: handler coverage of the urlopen / opener.open call sites over the reviewed raise-set; the normalisation of a location hint is under a ValueError handler.')


def rule_n(ctx: Ctx) -> None:
    """A generator ends with `return`.  `raise StopIteration` inside a generator function is converted by the interpreter into RuntimeError
    (PEP 479), which no caller expects: a limit implemented that way turns 'stop here' into a crash."""
    rule = 'C11.n'
    n = 0
    bad = 0
    for f in ctx.idx.iter_functions():
        if isinstance(f.node, ast.Lambda) or f.module.name.startswith('xmlschema.testing'):
            continue
        if not any(isinstance(x, (ast.Yield, ast.YieldFrom)) for x in walk_no_nested(f.node)):
            continue
        n += 1
        parents = None
        for r in walk_no_nested(f.node):
            if isinstance(r, ast.Raise) and r.exc is not None and text(r.exc).split('(')[0] in ('StopIteration', 'StopAsyncIteration'):
                parents = parents or enclosing_map(f.node)
                caught = any({'StopIteration', 'Exception', 'BaseException'} & handler_classes(ctx, f, hs) for _, hs in enclosing_try_handlers(r, parents))
                bad += 1
                ctx.ob(rule, f'{f.qualname.split(".", 1)[-1]}: the generator ends with `return`, not with `raise StopIteration`', f.loc(r), caught,
                       '' if caught else 'PEP 479 turns it into RuntimeError("generator raised StopIteration"): XMLResource(doc, iterparse=limited_parser(n)) crashes on a document '
                       'with more than n parser events instead of stopping', key=f'{f.qualname}|raise-stopiteration')
    ctx.ob(rule, f'{n} generator functions scanned for `raise StopIteration`', 'xmlschema/resources/parsers.py:1', n >= 50, '', key='generators|scanned', nontrivial=False)
    ctx.explain('C11.n: every function containing `yield` is scanned for `raise StopIteration` outside a handler that catches it.')


def rule_o(ctx: Ctx) -> None:
    """With keep_unknown=True the group decoder hands an undeclared child to the converter as (name, value, None).  Every sibling
    element_decode that walks map_content(…) touches the third item only where it is known not to be None (guard, or the left operand of
    the same `and`), and does not assert it: otherwise lax decoding of a document with an undeclared child raises AssertionError /
    AttributeError."""
    rule = 'C11.o'
    from .common import atom_forces, bool_atoms
    prod = ctx.idx.method('xmlschema.validators.groups.XsdGroup', 'raw_decode')
    premise = any(isinstance(x, ast.Tuple) and len(x.elts) == 3 and isinstance(x.elts[2], ast.Constant) and x.elts[2].value is None and text(x.elts[1]) == 'result_item'
                  for x in ast.walk(prod.node))
    ctx.ob(rule, 'XsdGroup.raw_decode appends (name, result_item, None) for a kept unknown child (premise)', prod.loc(), premise, '', key='raw_decode|unknown-child-tuple', nontrivial=False)
    n = 0
    for f in ctx.idx.iter_functions('converters'):
        if isinstance(f.node, ast.Lambda) or f.name != 'element_decode':
            continue
        loops = [x for x in ast.walk(f.node) if isinstance(x, ast.For) and 'map_content' in text(x.iter) and isinstance(x.target, ast.Tuple) and len(x.target.elts) == 3
                 and isinstance(x.target.elts[2], ast.Name)]
        if not loops:
            continue
        ctx.analysed(f.qualname)
        g = cfg_of(ctx, f)
        for lp in loops:
            v = lp.target.elts[2].id
            if v == '_':
                continue
            n += 1
            bad = None
            for x in g.nodes:
                if not any(x.ast is y for y in ast.walk(lp)) and not any(any(e is y for y in ast.walk(lp)) for e in x.exprs):
                    continue
                for e in (x.exprs or ([x.ast] if x.kind in ('stmt', 'return') else [])):
                    # asserts on the declaration
                    if isinstance(x.ast, ast.Assert) and f'{v} is not None' in text(x.ast.test):
                        bad = (x, 'asserted')
                    for y in ast.walk(e):
                        if isinstance(y, ast.Attribute) and isinstance(y.value, ast.Name) and y.value.id == v and isinstance(y.ctx, ast.Load):
                            gs = guards(ctx, f, x)
                            safe = any((t == f'{v} is not None' and lab == 'T') or (t == f'{v} is None' and lab == 'F') for t, lab in gs)
                            if not safe:
                                for t, lab in gs:
                                    try:
                                        te = ast.parse(t, mode='eval').body
                                    except SyntaxError:
                                        continue
                                    if f'{v} is None' in bool_atoms(te) and atom_forces(te, f'{v} is None', True, lab != 'T'):
                                        safe = True
                                    if f'{v} is not None' in bool_atoms(te) and atom_forces(te, f'{v} is not None', False, lab != 'T'):
                                        safe = True
                            if not safe:
                                # same boolean expression: `v is not None and v.attr…`
                                for bo in ast.walk(e):
                                    if isinstance(bo, ast.BoolOp):
                                        idxs = [i for i, val in enumerate(bo.values) if any(z is y for z in ast.walk(val))]
                                        want = f'{v} is not None' if isinstance(bo.op, ast.And) else f'{v} is None'
                                        if idxs and any(text(val) == want for val in bo.values[:idxs[0]]):
                                            safe = True          # short circuit: the right operands run only when the declaration exists
                            if not safe and bad is None:
                                bad = (x, f'`{text(y)}` dereferenced')
            # the normal form drops pure asserts: look at the source as well
            ok = bad is None
            ctx.ob(rule, f'{f.qualname.split(".", 2)[-1]}: the declaration `{v}` of a child from map_content(…) is used only where it is known not to be None', f.loc(lp), ok,
                   '' if ok else f'{bad[1]} at line {bad[0].lineno} without a None test: decode(doc, validation="lax", keep_unknown=True, converter={f.cls.name if f.cls else "…"}) '
                   'raises on a document with an undeclared child', key=f'{f.qualname}|unknown-child|{v}')
    ctx.floor(rule, 'converter loops over map_content with a declaration', n, 2)
    ctx.explain('C11.o: in every element_decode of xmlschema/converters the third item of the map_content tuples is dereferenced only under a `is not None` guard '
                '(control dependence, truth table, or left operand of the same conjunction).')


def rule_p(ctx: Ctx) -> None:
    """A caller/callee contract whose breach is a plain ValueError out of lax validation (C03.a checks the same pairing for the attribute verdict)."""
    from .c03 import wildcard_pair_contract
    wildcard_pair_contract(ctx, 'C11.p')


def rule_q(ctx: Ctx) -> None:
    """find() / findall() / iterfind() on a schema select *schema nodes*: element declarations, but also the wildcard that matches a step (a child of
    an xs:anyType element).  A result is used as an element declaration - an attribute that XsdElement has and XsdAnyElement has not - only after an
    isinstance test; otherwise a document decides whether validation ends in AttributeError."""
    rule = 'C11.q'
    idx = ctx.idx
    E = idx.cls('xmlschema.validators.elements.XsdElement')
    W = idx.cls('xmlschema.validators.wildcards.XsdAnyElement')

    def elem_only(a: str) -> bool:
        return bool(E.find_attr(a) or E.find_method(a)) and not bool(W.find_attr(a) or W.find_method(a))

    def is_source(e: ast.AST) -> bool:
        return any(isinstance(c.func, ast.Attribute) and c.func.attr in ('find', 'findall', 'iterfind') and text(c.func.value) in ('self', 'schema')
                   for c in calls(e))
    n_src = n_use = 0
    for f in idx.iter_functions('validators.schemas'):
        if isinstance(f.node, ast.Lambda):
            continue
        tainted: set[str] = set()
        changed = True
        stmts = [x for x in ast.walk(f.node) if isinstance(x, (ast.Assign, ast.For))]
        while changed:
            changed = False
            for x in stmts:
                src = x.value if isinstance(x, ast.Assign) else x.iter
                hit = is_source(src) or any(isinstance(y, ast.Name) and y.id in tainted for y in ast.walk(src))
                if not hit:
                    continue
                tgts = x.targets if isinstance(x, ast.Assign) else [x.target]
                for t in tgts:
                    for y in ast.walk(t):
                        if isinstance(y, ast.Name) and y.id not in tainted and isinstance(t, (ast.Name, ast.Tuple)):
                            tainted.add(y.id)
                            changed = True
        if not tainted:
            continue
        n_src += 1
        g = cfg_of(ctx, f)
        for x in ast.walk(f.node):
            if not (isinstance(x, ast.Attribute) and isinstance(x.ctx, ast.Load) and isinstance(x.value, ast.Name) and x.value.id in tainted and elem_only(x.attr)):
                continue
            owners = g.owners(x)
            if not owners:
                continue
            n_use += 1
            v = x.value.id
            ok = False
            for o in owners:
                gs = guards(ctx, f, o)
                if any((lab == 'T' and t.replace(' ', '') == f'isinstance({v},XsdElement)') or (lab == 'F' and t.replace(' ', '') == f'notisinstance({v},XsdElement)') for t, lab in gs):
                    ok = True
                # the test and the use in one expression: `isinstance(v, XsdElement) and v.attr`
                if o.kind in ('if', 'while') or True:
                    for b in ast.walk(o.ast) if o.ast is not None else []:
                        if isinstance(b, ast.BoolOp) and isinstance(b.op, ast.And) and any(text(u).replace(' ', '') == f'isinstance({v},XsdElement)' for u in b.values) \
                                and any(x is y for u in b.values for y in ast.walk(u)):
                            ok = True
            ctx.ob(rule, f'{f.qualname.split(".", 2)[-1]}: `{text(x)}` reads an element-only attribute of a schema node after an isinstance test', f.loc(x), ok,
                   '' if ok else f'`{v}` comes from find()/findall() on the schema and may be the wildcard that matches the step: XsdAnyElement has no `{x.attr}` - e.g. lazy validation '
                   '(lazy depth 2) of <r><a><c/></a></r> against <xs:element name="r"/> ends in AttributeError', key=f'{f.qualname}|node-attr|{v}.{x.attr}')
    ctx.floor(rule, 'functions using schema-node lookups', n_src, 2)
    ctx.floor(rule, 'element-only attribute reads on looked-up schema nodes', n_use, 1)
    ctx.explain('C11.q: names bound (directly, through loops or wrappers) from schema.find()/findall()/iterfind() in validators/schemas.py; a read of an attribute that XsdElement defines and '
                'XsdAnyElement does not (class table) must be control dependent on isinstance(name, XsdElement).')


def _mentions_instance_tag(f: FuncInfo, e: ast.AST, depth: int = 0) -> bool:
    """the expression is built from tags of the XML instance: a `.tag` read, a parameter called `tag`, or a local defined by such an expression."""
    for x in ast.walk(e):
        if isinstance(x, ast.Attribute) and x.attr == 'tag':
            return True
        if isinstance(x, ast.Name) and x.id == 'tag' and 'tag' in f.params:
            return True
        if isinstance(x, ast.Name) and depth < 2 and x.id not in f.params:
            defs = [s_.value for s_ in ast.walk(f.node) if isinstance(s_, ast.Assign) and len(s_.targets) == 1 and text(s_.targets[0]) == x.id]
            if defs and any(isinstance(d, (ast.JoinedStr, ast.BinOp)) and _mentions_instance_tag(f, d, depth + 1) for d in defs):
                return True
    return False


def rule_r(ctx: Ctx) -> None:
    """The drivers look the declaration of a lazily loaded chunk up with an XPath expression *written from the tags of the instance*.  A tag is any
    `{namespace name}local`, and a namespace name is an arbitrary string: `(:` opens an XPath comment, `{` or `:)` break the braced-URI syntax.  The parse
    of such an expression therefore sits under a handler for the XPath parser's errors."""
    rule = 'C11.r'
    n = 0
    for f in ctx.idx.iter_functions('validators.schemas'):
        if isinstance(f.node, ast.Lambda):
            continue
        parents = None
        for c in calls(f.node):
            if not (isinstance(c.func, ast.Attribute) and c.func.attr in ('find', 'findall', 'iterfind') and text(c.func.value) in ('self', 'schema') and c.args):
                continue
            if not _mentions_instance_tag(f, c.args[0]):
                continue
            n += 1
            parents = parents or enclosing_map(f.node)
            names = handler_classes(ctx, f, site_handlers(f, c, parents))
            ok = bool({'ElementPathError', 'ElementPathSyntaxError', 'Exception', 'BaseException'} & names) or \
                bool({'ElementPathSyntaxError', 'ElementPathTypeError'} <= names)
            ctx.ob(rule, f'{f.qualname.split(".", 2)[-1]}: the XPath expression `{text(c.args[0])[:40]}` written from instance tags is parsed under a handler for ElementPathError', f.loc(c), ok,
                   '' if ok else 'no handler: <r><a xmlns="(:"/></r> (or xmlns="{", xmlns=":)") as a lazy resource makes the XPath parser raise ElementPathSyntaxError / ElementPathTypeError out '
                   'of iter_errors() / is_valid() - not an exception of the library', key=f'{f.qualname}|instance-xpath|{text(c.args[0])[:30]}')
    ctx.floor(rule, 'schema lookups with an XPath expression written from instance tags', n, 2)
    ctx.trusted.append('raise-set of the elementpath parser on a malformed expression: subclasses of ElementPathError')
    ctx.explain('C11.r: calls find()/findall()/iterfind() on a schema in validators/schemas.py whose path argument mentions a `.tag`, the `tag` parameter or a local defined from them; '
                'handler coverage for ElementPathError.')


def rule_s(ctx: Ctx) -> None:
    """A document may name its schema (xsi:schemaLocation).  When that schema is wrong the *instance* is reported invalid - iter_errors() collects - whatever
    the way the schema is wrong: not parsable (XMLSchemaParseError) or with a non-deterministic content model (XMLSchemaModelError, raised by check_model).
    Every class raised by the build of a schema for a defect of the schema has a reporting handler at the sites that build a hinted schema."""
    rule = 'C11.s'
    idx = ctx.idx
    # the classes the build raises for a defective schema: the parse-error reporter (strict) and the model checker
    raised: dict[str, set[str]] = {}
    pe = idx.func('xmlschema.validators.xsdbase.XsdValidator.parse_error')
    for r in ast.walk(pe.node):
        if isinstance(r, ast.Raise) and isinstance(r.exc, ast.Name) and r.exc.id == 'error':
            raised['XMLSchemaParseError'] = idx.exception_class_chain('XMLSchemaParseError', pe.module)
    for q in ('xmlschema.validators.models.check_model', 'xmlschema.validators.groups.XsdGroup.check_model'):
        f = idx.functions.get(q)
        if f is None:
            continue
        for r in ast.walk(f.node):
            if isinstance(r, ast.Raise) and isinstance(r.exc, ast.Call):
                nm_ = text(r.exc.func).split('.')[-1]
                raised[nm_] = idx.exception_class_chain(text(r.exc.func), f.module)
    ctx.floor(rule, 'exception classes raised for a defective schema', len(raised), 2)
    n = 0
    for cq in ('xmlschema.validators.elements.XsdElement', 'xmlschema.validators.elements.Xsd11Element'):
        c = idx.cls(cq)
        f = c.methods.get('check_dynamic_context')
        if f is None:
            continue
        ctx.analysed(f.qualname)
        parents = enclosing_map(f.node)
        for w in ast.walk(f.node):
            if not (isinstance(w, ast.With) and any(isinstance(i.context_expr, ast.Call) and isinstance(i.context_expr.func, ast.Attribute)
                                                   and i.context_expr.func.attr == 'protect_status' for i in w.items)):
                continue
            n += 1
            hs = site_handlers(f, w, parents)
            for exc in sorted(raised):
                cover = None
                for h in hs:
                    names = handler_classes(ctx, f, [h])
                    if raised[exc] & names:
                        cover = h
                        break
                reports = cover is not None and any(is_reporter_call(cl) for cl in calls(cover)) and not any(isinstance(x, ast.Raise) for x in ast.walk(cover))
                ctx.ob(rule, f'{c.name}.check_dynamic_context: {exc} from the build of a hinted schema is reported as a validation error', f.loc(cover) if cover else f.loc(w), reports,
                       '' if reports else f'no reporting handler for {exc}: a hinted schema with a Unique Particle Attribution violation makes iter_errors(use_location_hints=True) raise '
                       'instead of collecting - lax mode raises for a document that merely names a wrong schema', key=f'{f.qualname}|hint-build|{exc}')
    ctx.floor(rule, 'sites that build a hinted schema', n, 2)
    ctx.explain('C11.s: raise-set of XsdValidator.parse_error (strict) and check_model; handler coverage (class chains) at the protect_status blocks of both check_dynamic_context '
                'implementations; the covering handler calls a reporter and does not raise.')


PUBLIC_ENTRY = ('decode', 'encode', 'validate', 'is_valid', 'iter_decode', 'iter_encode', 'iter_errors', 'to_dict', 'to_objects', 'to_json', 'to_etree', 'text_decode',
                'text_is_valid', 'from_json')
COMPONENT_RECV = ('type', 'xsd_type', 'base_type', 'content', 'item_type', 'xsd_element', 'xsd_attribute', 'member_type', 'primitive_type')


STRICT_CALL_REVIEWED = {
    ('xmlschema.validators.xsd_globals.XsdGlobals.get_instance_type', 'xsd_attribute.validate'):
        'only when the base type itself declares an xsi:type attribute: checks the lexical form of the xsi:type value before the lookup; probed with malformed values '
        '("1bad", "a b", ""): the QName type accepts them lexically and the lookup reports "global component not found" - no escape exhibited',
}


def rule_t(ctx: Ctx) -> None:
    """Inside a validation run errors travel through the context (raise_or_collect decides between raising and collecting).  The *public* strict entry points of a
    component - decode() / encode() / validate() - raise XMLSchemaValidationError on their own; called from the internal machinery (raw_decode, the identity
    selectors, facets) they turn an invalid field value into an exception that leaves iter_errors() and lax decoding.  The internal callers use
    raw_decode / text_decode, or stand under a handler."""
    rule = 'C11.t'
    from .c10 import graph
    eff, cg, prev, roots, _ = graph(ctx)
    n = m_ = 0
    for q in sorted(prev):
        f = ctx.idx.functions[q]
        if isinstance(f.node, ast.Lambda) or f.name in PUBLIC_ENTRY:
            continue
        parents = None
        for c in calls(f.node):
            if not (isinstance(c.func, ast.Attribute) and c.func.attr in ('decode', 'encode', 'validate')):
                continue
            recv = text(c.func.value).split('.')[-1]
            if recv not in COMPONENT_RECV:
                continue
            n += 1
            mode = next((k.value for k in c.keywords if k.arg == 'validation'), c.args[1] if len(c.args) > 1 and c.func.attr != 'validate' else None)
            if isinstance(mode, ast.Constant) and mode.value in ('lax', 'skip'):
                continue
            m_ += 1
            parents = parents or enclosing_map(f.node)
            names = handler_classes(ctx, f, site_handlers(f, c, parents))
            ok = bool({'XMLSchemaValidationError', 'XMLSchemaDecodeError', 'XMLSchemaEncodeError', 'XMLSchemaValidatorError', 'XMLSchemaException', 'ValueError', 'Exception',
                       'BaseException'} & names)
            why = STRICT_CALL_REVIEWED.get((q, text(c.func)))
            if not ok and why:
                ctx.ob(rule, f'{q.split(".", 2)[-1]}: the strict public call `{text(c)[:50]}` is a reviewed site', f.loc(c), True, why, key=f'{q}|strict-public-call|{text(c.func)[:40]}',
                       nontrivial=False)
                continue
            ctx.ob(rule, f'{q.split(".", 2)[-1]}: the strict public call `{text(c)[:50]}` inside the validation machinery stands under a handler', f.loc(c), ok,
                   '' if ok else 'decode()/encode()/validate() raise XMLSchemaValidationError themselves: an identity field such as id="abc" of type xs:integer makes iter_errors(), '
                   'is_valid() and lax decoding end with XMLSchemaDecodeError instead of a collected error (use text_decode / raw_decode with the context)',
                   key=f'{q}|strict-public-call|{text(c.func)[:40]}')
    ctx.floor(rule, 'validation-time functions inspected', len(prev), 100)
    ctx.note(f'{rule}: {n} public decode/encode/validate call(s) on components inside the validation machinery, {m_} of them strict')
    ctx.explain('C11.t: in the functions reachable from the validation entry points (typed call graph; the public entry points themselves excluded) a call of '
                '<component>.decode/encode/validate without validation=\'lax\'/\'skip\' lies inside a try whose handlers cover XMLSchemaValidationError.')


RULES = [rule_a, rule_b, rule_c, rule_d, rule_e, rule_f, rule_g, rule_h, rule_i, rule_j, rule_k, rule_l, rule_m, rule_n, rule_o, rule_p, rule_q, rule_r, rule_s, rule_t]
