"""C03 — attribute sets (structural clauses, XsdAttributeGroup.raw_decode / raw_encode).

C03.a undeclared attribute never silently accepted     C03.b required attributes reported
C03.c defaults only when enabled                        C03.d prohibited use reported
C03.e absent attributes appear only on request
"""
from __future__ import annotations

import ast

from ..astutil import calls, names_in, text, walk_no_nested
from ..index import AnalysisError
from ..report import Ctx
from .common import call_nodes, cfg_of, fixed_value_space_rule, guards, is_reporter_call

AG = 'xmlschema.validators.attributes.XsdAttributeGroup'
ALLOWED_BINDINGS = {
    'self._attribute_group[name]': 'the declaration of that name',
    'self.maps.attributes[name]': 'a global attribute of the XSI namespace',
    'self._attribute_group[None]': 'the attribute wildcard',
}


def _forced_by_presence(gs) -> bool:
    """one of the guards is a test that cannot hold without a wildcard in the group (truth table: atom `None in self._attribute_group` false => test false)."""
    from .common import atom_forces
    for t, lab in gs:
        try:
            e = ast.parse(t, mode='eval').body
        except SyntaxError:
            continue
        if lab == 'T' and atom_forces(e, 'None in self._attribute_group', False, False):
            return True
        if lab == 'F' and atom_forces(e, 'None not in self._attribute_group', True, True):
            return True
    return False


def _wildcard_alias(f, v: ast.AST) -> bool:
    """`v` is a local name whose every definition in f is the wildcard entry of the group (`self._attribute_group.get(None)` / `[None]`)."""
    if not isinstance(v, ast.Name):
        return False
    defs = [s_.value for s_ in ast.walk(f.node) if isinstance(s_, ast.Assign) and any(text(t) == v.id for t in s_.targets)]
    return bool(defs) and all(text(d) in ('self._attribute_group.get(None)', 'self._attribute_group[None]') for d in defs)


def _undeclared(ctx: Ctx, rule: str, meth: str, floor_bind: int) -> None:
    f = ctx.idx.cls(AG).methods.get(meth)
    if f is None:
        raise AnalysisError(f'missing anchor {AG}.{meth}')
    g = cfg_of(ctx, f)
    # the attribute loop and the lookup try
    loops = [n for n in g.nodes if n.kind == 'for' and text(n.ast.iter) == 'obj.items()']
    if len(loops) != 1:
        raise AnalysisError(f'{rule}: expected one `for … in obj.items()` loop in {f.qualname}, found {len(loops)}')
    loop = loops[0]
    # binding sites of xsd_attribute
    binds = [n for n in g.nodes if n.kind == 'stmt' and isinstance(n.ast, ast.Assign)
             and any(text(t) == 'xsd_attribute' for t in n.ast.targets)]
    ctx.floor(rule, f'xsd_attribute binding sites in {meth}', len(binds), floor_bind)
    callee0 = 'raw_decode' if meth == 'raw_decode' else 'raw_encode'
    uses0 = [n for n, _ in call_nodes(g, lambda c: text(c.func) == f'xsd_attribute.{callee0}')]
    pairs = [n for n in g.nodes if n.kind == 'stmt' and isinstance(n.ast, ast.Assign) and text(n.ast.targets[0]) == 'value' and text(n.ast.value) == '(name, value)']
    for b in binds:
        v = text(b.ast.value)
        gs = guards(ctx, f, b)
        alias = _wildcard_alias(f, b.ast.value)
        ok = v in ALLOWED_BINDINGS or alias
        det = '' if ok else f'`{v}` is not one of the three admitted sources'
        if ok and v == 'self.maps.attributes[name]':
            ok = any('XSI_NAMESPACE' in t and lab == 'T' and '==' in t for t, lab in gs)
            det = '' if ok else 'global attribute lookup not restricted to the XSI namespace'
        if ok and v == 'self._attribute_group[None]':
            ok = ('None in self._attribute_group', 'T') in gs or ('None not in self._attribute_group', 'F') in gs or _forced_by_presence(gs)
            det = '' if ok else 'wildcard binding not guarded by the presence of a wildcard'
        if ok and alias:
            ok = (f'{v} is not None', 'T') in gs or (f'{v} is None', 'F') in gs
            det = '' if ok else f'wildcard binding not guarded by `{v} is not None`'
        ctx.ob(rule, f'{meth}: attribute validator bound from {"the attribute wildcard" if alias else ALLOWED_BINDINGS.get(v, v)}', f.loc(b.ast), ok, det,
               key=f'{meth}|bind|{"self._attribute_group[None]" if alias else v}|{sorted(gs)[:0]}')
        if v == 'self._attribute_group[None]' or alias:
            # the wildcard receives the (name, value) pair: every path from the binding to the call rebinds `value`
            w = g.must_pass(b, uses0, pairs, kinds='nTF')
            ok2 = bool(uses0) and w is None
            ctx.ob(rule, f'{meth}: wildcard {callee0.split("_")[1][:-1]}ing receives the (name, value) pair', f.loc(b.ast), ok2,
                   '' if ok2 else f'a path from this binding reaches xsd_attribute.{callee0}(value, …) without `value = (name, value)`: the wildcard unpacks its argument '
                   '(`name, value = obj`) - a bare string raises ValueError "too many values to unpack" out of lax validation (or is split when it has two characters)',
                   key=f'{meth}|wild-pair|{len(_block_of(f.node, b.ast))}')
    # outer KeyError handler of the declaration lookup
    decl = [b for b in binds if text(b.ast.value) == 'self._attribute_group[name]']
    if len(decl) != 1:
        raise AnalysisError(f'{rule}: declaration lookup not found in {f.qualname}')
    handlers = [m for m, lab in g.succ[decl[0]] if lab == 'i' and m.kind == 'handler']
    if not handlers or 'KeyError' not in text(handlers[0].ast.type):
        raise AnalysisError(f'{rule}: the declaration lookup in {f.qualname} is not inside try/except KeyError')
    h = handlers[0]
    # decode/encode call
    callee = 'raw_decode' if meth == 'raw_decode' else 'raw_encode'
    uses = call_nodes(g, lambda c: text(c.func) == f'xsd_attribute.{callee}')
    ctx.floor(rule, f'xsd_attribute.{callee} call sites', len(uses), 1)
    bindset = set(binds)
    reporters = {n for n, c in call_nodes(g, lambda c: is_reporter_call(c))}
    for un, uc in uses:
        # definite assignment on every path from the handler to the use
        seen = set()
        stack = [h]
        bad = None
        while stack:
            x = stack.pop()
            if x in seen:
                continue
            seen.add(x)
            if x is un:
                bad = x
                break
            if x is loop:
                continue   # next iteration: a new lookup
            for y, lab in g.succ[x]:
                if x in bindset and lab != 'i':
                    continue   # the assignment completed: bound
                if lab in 'nTFi':
                    stack.append(y)
        ctx.ob(rule, f'{meth}: on every path from `except KeyError` to xsd_attribute.{callee} the validator is (re)bound',
               f.loc(uc), bad is None, '' if bad is None else 'a path reaches the call with the binding of a previous attribute or none',
               key=f'{meth}|definite-assignment')
        a0 = uc.args[1] if len(uc.args) > 1 else None
        ok = a0 is not None and text(a0) == 'validation'
        ctx.ob(rule, f'{meth}: the attribute value is validated in the caller\'s mode', f.loc(uc), ok, '', key=f'{meth}|use-mode')
    # every `continue` reachable from the handler reports first
    conts = [n for n in g.reachable([h], kinds='nTFi', avoid=[loop]) if n.kind == 'continue']
    ctx.floor(rule, f'`continue` exits of the undeclared-attribute branch in {meth}', len(conts), 2)
    for cn in conts:
        w = g.must_pass(h, [cn], reporters, kinds='nTFi')
        ok = w is None
        ctx.ob(rule, f'{meth}: an attribute that is skipped (continue) has been reported', f.loc(cn.ast), ok,
               '' if ok else 'path: ' + ' -> '.join(f'{x.kind}@{x.lineno}' for x in w),
               key=f'{meth}|continue-reported|{sorted(guards(ctx, f, cn))}')
    # the reports use the caller's validation mode
    for n, c in call_nodes(g, is_reporter_call):
        ok = bool(c.args) and text(c.args[0]) == 'validation'
        ctx.ob(rule, f'{meth}: report uses the caller\'s validation mode', f.loc(c), ok, '', key=f'{meth}|report-mode|{text(c.args[2]) if len(c.args) > 2 else ""}|{f.loc(c) if not ok else ""}')


def wildcard_pair_contract(ctx: Ctx, rule: str) -> None:
    """Caller/callee contract: XsdAnyAttribute.raw_decode / raw_encode unpack their argument (`name, value = obj`), the attribute group hands
    every other validator the bare value.  Each binding of the validator to the wildcard is followed, on every path to the call, by the rebinding
    `value = (name, value)`; otherwise the unpacking raises ValueError out of lax validation."""
    wc = ctx.idx.cls('xmlschema.validators.wildcards.XsdAnyAttribute')
    n = 0
    for meth in ('raw_decode', 'raw_encode'):
        cal = wc.find_method(meth)
        unp = cal is not None and any(isinstance(s_, ast.Assign) and isinstance(s_.targets[0], ast.Tuple) and len(s_.targets[0].elts) == 2 and text(s_.value) == 'obj'
                                      for s_ in walk_no_nested(cal.node))
        f = ctx.idx.cls(AG).methods.get(meth)
        if f is None:
            raise AnalysisError(f'missing anchor {AG}.{meth}')
        g = cfg_of(ctx, f)
        uses = [x for x, _ in call_nodes(g, lambda c: text(c.func) == f'xsd_attribute.{meth}')]
        pairs = [x for x in g.nodes if x.kind == 'stmt' and isinstance(x.ast, ast.Assign) and text(x.ast.targets[0]) == 'value' and text(x.ast.value) == '(name, value)']
        binds = [x for x in g.nodes if x.kind == 'stmt' and isinstance(x.ast, ast.Assign) and any(text(t) == 'xsd_attribute' for t in x.ast.targets)]
        for b in binds:
            v = text(b.ast.value)
            wild = v == 'self._attribute_group[None]' or _wildcard_alias(f, b.ast.value)
            w = g.must_pass(b, uses, pairs, kinds='nTF')
            if wild:
                n += 1
                ok = not unp or (bool(uses) and w is None)
                ctx.ob(rule, f'XsdAttributeGroup.{meth}: the wildcard is called with the (name, value) pair it unpacks', f.loc(b.ast), ok,
                       '' if ok else f'a path from `{text(b.ast)[:50]}` reaches xsd_attribute.{meth}(value, …) with the bare value: XsdAnyAttribute.{meth} starts with '
                       '`name, value = obj` - ValueError "too many values to unpack" (a plain ValueError, also in lax mode) for e.g. an undeclared xsi: attribute under a wildcard',
                       key=f'{meth}|wild-pair|{v[:30]}')
    ctx.floor(rule, 'wildcard bindings in XsdAttributeGroup.raw_decode / raw_encode', n, 4)
    ctx.explain(f'{rule}: must-pass-through in XsdAttributeGroup.raw_decode / raw_encode - every path from a binding of `xsd_attribute` to the wildcard (directly or through a local '
                'alias) to the call `xsd_attribute.raw_…(value, …)` passes `value = (name, value)`; the callee is checked to unpack its argument.')


def _block_of(fnode: ast.AST, stmt: ast.stmt) -> list:
    for n in ast.walk(fnode):
        for fld in ('body', 'orelse', 'finalbody'):
            b = getattr(n, fld, None)
            if isinstance(b, list) and any(s is stmt for s in b):
                return b
        if isinstance(n, ast.Try):
            for h in n.handlers:
                if any(s is stmt for s in h.body):
                    return h.body
    return []


def rule_a(ctx: Ctx) -> None:
    _undeclared(ctx, 'C03.a', 'raw_decode', 4)
    ctx.explain('C03.a: in XsdAttributeGroup.raw_decode the validator of an undeclared attribute is bound only from the '
                'XSI globals or the wildcard, is definitely (re)assigned before use, and every skipped attribute is reported.')


def _required(ctx: Ctx, rule: str, meth: str) -> None:
    f = ctx.idx.cls(AG).methods[meth]
    g = cfg_of(ctx, f)
    loops = [n for n in g.nodes if n.kind == 'for' and 'self.iter_required()' in text(n.ast.iter)]
    if len(loops) != 1:
        raise AnalysisError(f'{rule}: required-attribute loop not found in {f.qualname}')
    lp = loops[0]
    it = lp.ast.iter
    # filter(lambda x: x not in obj, …) or a comprehension with `not in obj`
    flt_ok = 'not in obj' in text(it)
    if not flt_ok:
        # accepted idiom: test inside the body
        flt_ok = any('not in obj' in text(s.test) for s in lp.ast.body if isinstance(s, ast.If))
    reps = [c for s in lp.ast.body for c in calls(s) if is_reporter_call(c)]
    ok = flt_ok and bool(reps) and all(text(c.args[0]) == 'validation' for c in reps)
    ctx.ob(rule, f'{meth}: every required attribute that is absent is reported in the caller\'s mode', f.loc(lp.ast), ok,
           '' if ok else 'filter on absence or report missing', key=f'{meth}|required-loop')
    # the loop is on every path that reaches the attribute loop
    main = [n for n in g.nodes if n.kind == 'for' and text(n.ast.iter) == 'obj.items()']
    dom = g.dominators(kinds='nTF')
    ok2 = bool(main) and lp in dom.get(main[0], set())
    ctx.ob(rule, f'{meth}: the required-attribute check dominates the attribute loop', f.loc(lp.ast), ok2, '', key=f'{meth}|required-dominates')
    # returns before the check are only the trivial one
    early = [n for n in g.nodes if n.kind == 'return' and lp not in dom.get(n, set())]
    for r in early:
        gs = guards(ctx, f, r)
        ok3 = ('not obj and (not self)', 'T') in gs
        ctx.ob(rule, f'{meth}: the only return before the required-attribute check is for an empty group and no attributes',
               f.loc(r.ast), ok3, '' if ok3 else f'guards {sorted(gs)}', key=f'{meth}|early-return|{sorted(gs)}')


def rule_b(ctx: Ctx) -> None:
    rule = 'C03.b'
    _required(ctx, rule, 'raw_decode')
    f = ctx.idx.cls(AG).methods.get('iter_required')
    if f is None:
        raise AnalysisError(f'missing anchor {AG}.iter_required')
    g = cfg_of(ctx, f)
    ys = [n for n in g.stmt_nodes() if any(isinstance(x, (ast.Yield, ast.YieldFrom)) for e in n.exprs for x in ast.walk(e))]
    ok = len(ys) == 1
    det = ''
    if ok:
        gs = guards(ctx, f, ys[0])
        ok = ("v.use == 'required'", 'T') in gs and text(ys[0].ast) == 'yield k'
        others = {(t, lab) for t, lab in gs if 'use' not in t and not t.startswith('for ')}
        # further conjuncts may only exclude the wildcard key / non-attribute values
        for t, lab in others:
            if not (('isinstance(v, XsdAttribute)' in t or 'k is not None' in t) and lab == 'T'):
                ok = False
        det = '' if ok else f'yield guarded by {sorted(gs)}'
    ctx.ob(rule, "iter_required yields exactly the keys whose use == 'required'", f.loc(), ok, det, key='iter_required')
    ctx.explain('C03.b: the absent-required loop reports through context.validation_error and dominates the attribute loop.')


def rule_c(ctx: Ctx) -> None:
    rule = 'C03.c'
    f = ctx.idx.cls(AG).methods.get('iter_value_constraints')
    if f is None:
        raise AnalysisError(f'missing anchor {AG}.iter_value_constraints')
    g = cfg_of(ctx, f)
    p = [x for x in f.params if x != 'self']
    flag = p[0] if p else 'use_defaults'
    ys = []
    for n in g.stmt_nodes():
        for e in n.exprs:
            for x in ast.walk(e):
                if isinstance(x, ast.Yield) and x.value is not None:
                    ys.append((n, x))
    ctx.floor(rule, 'yield sites of iter_value_constraints', len(ys), 2)
    saw_default = saw_fixed_off = False
    for n, y in ys:
        gs = guards(ctx, f, n)
        val = text(y.value)
        if '.default' in val:
            saw_default = True
            ok = (flag, 'T') in gs or (f'not {flag}', 'F') in gs
            ok = ok and any('.fixed is not None' in t and lab == 'F' for t, lab in gs) \
                and any('.default is not None' in t and lab == 'T' for t, lab in gs)
            ctx.ob(rule, 'a default value is supplied only when default filling is enabled and no fixed value exists',
                   f.loc(y), ok, '' if ok else f'guards {sorted(gs)}', key='ivc|default')
        elif '.fixed' in val:
            ok = any('.fixed is not None' in t and lab == 'T' for t, lab in gs)
            if (flag, 'F') in gs or (f'not {flag}', 'T') in gs:
                saw_fixed_off = True
            ctx.ob(rule, 'a fixed value is supplied when the declaration has one', f.loc(y), ok, '' if ok else f'guards {sorted(gs)}',
                   key=f'ivc|fixed|{(flag, "T") in gs}')
        else:
            ctx.ob(rule, 'only fixed/default values are yielded', f.loc(y), False, f'yields `{val}`', key=f'ivc|other|{val}')
        # nothing is supplied for a prohibited attribute (it would be injected into the instance and then decoded as if present)
        notp = any(("use != 'prohibited'" in t and lab == 'T') or ("use == 'prohibited'" in t and lab == 'F') or ('is_prohibited()' in t and lab == 'F')
                   or ('not k or' in t and "use == 'prohibited'" in t and lab == 'F') for t, lab in gs)
        ctx.ob(rule, 'no value constraint is supplied for an attribute whose use is prohibited', f.loc(y), notp,
               '' if notp else 'the fixed/default value of a prohibited attribute is added to the attributes of the instance: decoded data shows an attribute that may not '
               'occur', key=f'ivc|not-prohibited|{val}|{(flag, "T") in gs}')
    ctx.ob(rule, 'fixed values are supplied also when default filling is disabled', f.loc(), saw_fixed_off, '', key='ivc|fixed-off')
    ctx.ob(rule, 'default values are supplied when default filling is enabled', f.loc(), saw_default, '', key='ivc|default-on')
    # call sites pass the context's switch and only add absent names
    for meth in ('raw_decode', 'raw_encode'):
        fm = ctx.idx.cls(AG).methods[meth]
        cs = [c for c in calls(fm.node, attr='iter_value_constraints')]
        ctx.floor(rule, f'iter_value_constraints call in {meth}', len(cs), 1)
        for c in cs:
            a = c.args[0] if c.args else next((k.value for k in c.keywords if k.arg == flag), None)
            ok = a is not None and text(a) == 'context.use_defaults'
            ctx.ob(rule, f'{meth}: value constraints are requested with context.use_defaults', fm.loc(c), ok, '', key=f'{meth}|ivc-arg')
            # enclosing comprehension filters on absence
            comp = [x for x in ast.walk(fm.node) if isinstance(x, (ast.ListComp, ast.GeneratorExp)) and any(c is y for y in ast.walk(x))]
            ok2 = bool(comp) and any('not in obj' in text(i) for x in comp for gen in x.generators for i in gen.ifs)
            ctx.ob(rule, f'{meth}: a value constraint is applied only to an absent attribute', fm.loc(c), ok2, '', key=f'{meth}|ivc-absent')
    ctx.explain('C03.c: path conditions of every yield of iter_value_constraints (fixed always, default only when enabled).')


def prohibited_report(ctx: Ctx, rule: str, meth: str) -> None:
    """A declared attribute whose use is "prohibited" must not occur: its presence is reported - in the caller's mode, whatever value constraint the
    declaration carries - unless the attribute wildcard admits the name, in which case the *wildcard* (not the prohibited declaration) validates it."""
    f = ctx.idx.cls(AG).methods[meth]
    ctx.analysed(f.qualname)
    g = cfg_of(ctx, f)
    reps = [(n, c) for n, c in call_nodes(g, is_reporter_call)]
    rd = g.reaching_defs(kinds='nTF')
    hits = []
    for n, c in reps:
        msg = ' '.join(text(a_) for a_ in c.args if isinstance(a_, (ast.Constant, ast.Call, ast.BinOp, ast.JoinedStr)))
        for a_ in c.args:
            if isinstance(a_, ast.Name) and a_.id in ('reason', 'msg', 'message'):
                msg += ' ' + ' '.join(text(d.ast.value) for d in rd[n].get(a_.id, set()) if d.ast is not None and isinstance(d.ast, ast.Assign))
        if 'prohibited' in msg:
            hits.append((n, c))
    ctx.floor(rule, f'reports of a prohibited attribute in {meth}', len(hits), 1)
    for n, c in hits:
        gs = guards(ctx, f, n)
        proh = any(("use == 'prohibited'" in t and lab == 'T') or ("use != 'prohibited'" in t and lab == 'F') for t, lab in gs)
        # the conditions about this attribute (its declaration, its value, the wildcard); the enclosing loops and the early exits of the method are not about it
        other = [t for t, lab in gs if 'prohibited' not in t and not t.startswith('for ') and
                 any(k_ in t for k_ in ('xsd_attribute', 'value', 'fixed', 'default', 'is_matching(', '_attribute_group'))]
        clean = all(('is_matching(' in t or 'None in self' in t or 'None not in self' in t) and 'fixed' not in t and 'default' not in t for t in other)
        mixed = [t for t, lab in gs if 'prohibited' in t and ('fixed' in t or 'default' in t)]
        mode = bool(c.args) and text(c.args[0]) == 'validation'
        ok = proh and clean and not mixed and mode
        ctx.ob(rule, f'{meth}: a prohibited attribute is reported unless the wildcard admits the name (whatever value constraint the declaration carries)', f.loc(c), ok,
               '' if ok else (f'not in the caller\'s mode' if not mode else f'path condition {sorted(gs)}: the report depends on something else than the prohibited use and the wildcard'),
               key=f'{meth}|prohibited')
    # where the wildcard admits the name it also validates the value
    binds = [n for n in g.nodes if n.kind == 'stmt' and isinstance(n.ast, ast.Assign) and any(text(t) == 'xsd_attribute' for t in n.ast.targets)
             and (text(n.ast.value) == 'self._attribute_group[None]' or _wildcard_alias(f, n.ast.value))]
    gov = [n for n in binds if any(("use == 'prohibited'" in t and lab == 'T') or ("use != 'prohibited'" in t and lab == 'F') for t, lab in guards(ctx, f, n))]
    ok = bool(gov)
    ctx.ob(rule, f'{meth}: a prohibited attribute that the wildcard admits is validated by the wildcard', f.loc(gov[0].ast) if gov else f.loc(), ok,
           '' if ok else 'no rebinding of the validator to the wildcard on the prohibited branch: the value is checked against the type of the prohibited declaration - with a strict '
           'wildcard an attribute without a global declaration is accepted, with a skip wildcard an arbitrary value is refused', key=f'{meth}|prohibited-wildcard-governs')


def rule_d(ctx: Ctx) -> None:
    rule = 'C03.d'
    prohibited_report(ctx, rule, 'raw_decode')
    ctx.explain('C03.d: path condition of the prohibited-use report in XsdAttributeGroup.raw_decode (prohibited use, wildcard tests, nothing else; caller\'s mode) and the rebinding of '
                'the validator to the wildcard on the prohibited branch.')


def rule_e(ctx: Ctx) -> None:
    rule = 'C03.e'
    f = ctx.idx.cls(AG).methods['raw_decode']
    g = cfg_of(ctx, f)
    exts = call_nodes(g, lambda c: text(c.func) in ('result.extend', 'result.append'))
    loop = [n for n in g.nodes if n.kind == 'for' and text(n.ast.iter) == 'obj.items()'][0]
    body_nodes = set()
    for s in loop.ast.body:
        for sub in ast.walk(s):
            body_nodes.update(g.nodes_of(sub))
    n_out = 0
    for n, c in exts:
        if n in body_nodes:
            continue
        n_out += 1
        gs = guards(ctx, f, n)
        ok = any(t.endswith('context.fill_missing') and lab == 'T' for t, lab in gs)
        ctx.ob(rule, 'attributes that are absent and unconstrained are added only when fill_missing is requested', f.loc(c), ok,
               '' if ok else f'guards {sorted(gs)}', key=f'fill|{text(c)[:40]}')
        # what is filled in is an attribute that may occur: the generator excludes the wildcard (key None), the attributes that are present and
        # the prohibited ones
        if ok and c.args and isinstance(c.args[0], ast.GeneratorExp):
            conds = ' and '.join(text(i) for gen in c.args[0].generators for i in gen.ifs)
            okp = "'prohibited'" in conds and '.use' in conds
            ctx.ob(rule, 'fill_missing never reports a prohibited attribute', f.loc(c), okp,
                   '' if okp else f'the filter `{conds[:80]}` lets use="prohibited" attributes through: decode(\'<root/>\', fill_missing=True) reports `@a: None` for an attribute the '
                   'restriction prohibits', key=f'fill|prohibited|{text(c)[:30]}')
    ctx.floor(rule, 'result extensions after the attribute loop', n_out, 2)
    ctx.explain('C03.e: result extensions outside the attribute loop are control dependent on context.fill_missing and skip prohibited attributes.')


def rule_f(ctx: Ctx) -> None:
    rule = 'C03.f'
    f = ctx.idx.func('xmlschema.validators.attributes.XsdAttribute.raw_decode')
    fixed_value_space_rule(ctx, rule, f, 'XsdAttribute.raw_decode', ('obj',))
    # an absent attribute takes the fixed value; the value is then validated by the declared type
    g = cfg_of(ctx, f)
    sets = [n for n in g.nodes if n.kind == 'stmt' and isinstance(n.ast, ast.Assign) and text(n.ast.targets[0]) == 'obj' and text(n.ast.value) == 'self.fixed']
    ok = bool(sets) and all(('obj is None', 'T') in guards(ctx, f, n) and ('self.fixed is not None', 'T') in guards(ctx, f, n) for n in sets)
    ctx.ob(rule, 'XsdAttribute.raw_decode: an absent attribute takes the fixed value', f.loc(), ok, '', key='XsdAttribute.raw_decode|fixed-default')
    dec = call_nodes(g, lambda c: text(c.func) == 'self.type.raw_decode')
    ok = bool(dec) and all([text(a) for a in c.args] == ['obj', 'validation', 'context'] for n, c in dec)
    ctx.ob(rule, 'XsdAttribute.raw_decode: the value is validated by the declared type in the caller\'s mode', f.loc(), ok, '', key='XsdAttribute.raw_decode|type-decode')
    ctx.explain('C03.f: the fixed-value report of XsdAttribute.raw_decode is guarded by a comparison of decoded values.')


def rule_g(ctx: Ctx, rule: str = 'C03.g') -> None:
    from .common import copy_owns
    copy_owns(ctx, rule, 'xmlschema.validators.wildcards.XsdWildcard', ('intersection', 'union'), floor=2)
    # the attribute-group parser applies these operations to copies, never to the referenced group's own wildcard
    f = ctx.idx.func('xmlschema.validators.attributes.XsdAttributeGroup._parse')
    g = cfg_of(ctx, f)
    rd = g.reaching_defs()
    n = 0
    for node, c in call_nodes(g, lambda c: isinstance(c.func, ast.Attribute) and c.func.attr in ('intersection', 'union') and isinstance(c.func.value, ast.Name)):
        recv = c.func.value.id
        defs = rd[node].get(recv, set())
        n += 1
        ok = bool(defs) and all(d.ast is not None and isinstance(d.ast, ast.Assign) and 'copy(' in text(d.ast.value) for d in defs)
        if not ok:
            # a wildcard parsed locally for this group (`self.builders.any_attribute_class(child, …)`) is owned by the group as well;
            # a loop variable over `attributes` is NOT: the mapping also holds the wildcard objects of referenced groups
            ok = bool(defs) and all(d.ast is not None and isinstance(d.ast, ast.Assign) and
                                    ('copy(' in text(d.ast.value) or 'any_attribute_class(' in text(d.ast.value)) for d in defs)
        ctx.ob(rule, f'XsdAttributeGroup._parse: `{text(c)[:40]}` is applied to a wildcard this group owns (a copy or a locally parsed one)', f.loc(c), ok,
               '' if ok else f'`{recv}` may be the wildcard object of a referenced attribute group (the mapping it is taken from stores those objects as they are): '
               'the in-place update changes that group for every other user - which instances validate then depends on the order the types are built in',
               key=f'attributes._parse|{c.func.attr}|{recv}')
    ctx.floor(rule, 'wildcard combination sites in XsdAttributeGroup._parse', n, 2)
    ctx.explain(f'{rule}: the namespace-constraint sets that intersection()/union() mutate in place are re-created by XsdWildcard.__copy__, '
                'and the attribute-group parser combines only wildcards it owns.')


def thorough(ctx: Ctx) -> None:
    _undeclared(ctx, 'C03.a+', 'raw_encode', 4)
    _required(ctx, 'C03.b+', 'raw_encode')


def rule_h(ctx: Ctx) -> None:
    """An undeclared attribute is admitted only by a wildcard whose namespace constraint it satisfies, whatever processContents
    says (wild.constraint_first body)."""
    from .wild import constraint_first
    constraint_first(ctx, 'C03.h', which=('XsdAnyAttribute',))


def rule_i(ctx: Ctx) -> None:
    """An element declaration keeps three things in step: its type, the attribute group and the content it validates with.  They are
    set together by `_set_type`; a bare `self.type = …` (e.g. when a substitution-group member inherits the type of its head) leaves
    the attribute group of the previous type - for a member declared without a type that is the lax wildcard of xs:anyType."""
    rule = 'C03.i'
    el = ctx.idx.cls('xmlschema.validators.elements.XsdElement')
    n = 0
    setter = el.methods.get('_set_type')
    ok = setter is not None and all(any(isinstance(s_, ast.Assign) and text(s_.targets[0]) == t for s_ in ast.walk(setter.node)) or
                                    any(isinstance(s_, ast.AnnAssign) and text(s_.target) == t for s_ in ast.walk(setter.node))
                                    for t in ('self.type', 'self.attributes', 'self.content'))
    ctx.ob(rule, 'XsdElement._set_type sets type, attributes and content together', setter.loc() if setter else f'{el.module.relpath}:{el.node.lineno}', ok, '',
           key='_set_type|triple', nontrivial=False)
    for c in ctx.idx.subclasses(el):
        for m in [f for f in ctx.idx.functions.values() if f.cls is c and not isinstance(f.node, ast.Lambda)]:
            for s_ in ast.walk(m.node):
                tg = None
                if isinstance(s_, ast.Assign):
                    tg = [t for t in s_.targets if text(t) == 'self.type']
                elif isinstance(s_, ast.AnnAssign) and text(s_.target) == 'self.type' and s_.value is not None:
                    tg = [s_.target]
                if not tg:
                    continue
                n += 1
                ok = m.name == '_set_type'
                ctx.ob(rule, f'{c.name}.{m.name}: the type of an element is changed through _set_type (attributes and content follow)', m.loc(s_), ok,
                       '' if ok else f'`{text(s_)[:60]}` changes the type alone: the element goes on validating attributes (and content) with the group of its former type - a '
                       'substitution-group member declared without a type accepts any attribute although its head is xs:int', key=f'{c.name}.{m.name}|type-store')
    ctx.floor(rule, 'stores of the element type', n, 1)
    ctx.explain('C03.i: who-may-write - inside XsdElement and its subclasses `self.type` is stored by _set_type only, which also '
                'stores `self.attributes` and `self.content`.')


def rule_j(ctx: Ctx) -> None:
    """Which name a local attribute declaration answers to: an explicit `form` decides; attributeFormDefault only when there is none."""
    rule = 'C03.j'
    f = ctx.idx.method('xmlschema.validators.attributes.XsdAttribute', '_parse')
    ctx.analysed(f.qualname)
    g = cfg_of(ctx, f)
    sets = [n for n in g.nodes if n.kind == 'stmt' and isinstance(n.ast, ast.Assign) and text(n.ast.targets[0]) == 'self.qualified' and text(n.ast.value) == 'True']
    ctx.floor(rule, 'sites that make a local attribute qualified', len(sets), 2)
    kinds = set()
    for n in sets:
        gs = guards(ctx, f, n)
        T = [t for t, lab in gs if lab == 'T']
        F = [t for t, lab in gs if lab == 'F']
        conj = [a for t in T for a in _and_parts(t)]
        by_form = "'form' in attrib" in conj and "self.form == 'qualified'" in conj
        by_default = "'form' in attrib" in F and "self.schema.attribute_form_default == 'qualified'" in conj
        ok = by_form or by_default
        kinds.add('form' if by_form else ('default' if by_default else 'other'))
        ctx.ob(rule, 'XsdAttribute._parse: a local attribute is qualified by its own form="qualified", or by attributeFormDefault when it has no form', f.loc(n.ast), ok,
               '' if ok else f'made qualified under T={T[-2:]} F={F[-2:]}: an explicit form="unqualified" no longer overrides attributeFormDefault="qualified" - the '
               'unqualified attribute is rejected and the qualified spelling accepted', key=f'XsdAttribute._parse|qualified|{"form" if by_form else ("default" if by_default else "other")}')
    ok = {'form', 'default'} <= kinds
    ctx.ob(rule, 'XsdAttribute._parse: both sources of qualification are present', f.loc(), ok, f'{sorted(kinds)}', key='XsdAttribute._parse|qualified|both', nontrivial=False)
    ctx.explain('C03.j: path conditions of `self.qualified = True` in XsdAttribute._parse (own form vs schema default).')


def _and_parts(t: str) -> list:
    try:
        e = ast.parse(t, mode='eval').body
    except SyntaxError:
        return [t]
    if isinstance(e, ast.BoolOp) and isinstance(e.op, ast.And):
        return [text(v) for v in e.values]
    return [t]


def rule_k(ctx: Ctx) -> None:
    """The attribute set an element is checked against is that of its *governing* type.  `self.attributes` is the set of the declared type
    (_set_type); when xsi:type names a simple type the governing type has no attributes at all, whatever the declaration admits - an element
    declared xs:anyType must not lend its lax ##any attribute wildcard to `xsi:type="xs:int"`."""
    rule = 'C03.k'
    f = ctx.idx.method('xmlschema.validators.elements.XsdElement', 'get_attributes')
    ctx.analysed(f.qualname)
    g = cfg_of(ctx, f)
    p = [x for x in f.params if x != 'self']
    ty = p[0] if p else 'xsd_type'
    rets = [r for r in g.nodes if r.kind == 'return' and r.ast.value is not None]
    ctx.floor(rule, 'returns of XsdElement.get_attributes', len(rets), 2)
    n_empty = 0
    for r in rets:
        v = text(r.ast.value)
        gs = guards(ctx, f, r)
        complex_only = (f'not isinstance({ty}, XsdSimpleType)', 'T') in gs or (f'isinstance({ty}, XsdSimpleType)', 'F') in gs
        same = (f'{ty} is self.type', 'T') in gs or (f'self.type is {ty}', 'T') in gs or (f'{ty} is not self.type', 'F') in gs
        if v == f'{ty}.attributes':
            ok, why = complex_only, 'the attributes of the governing type are read on a path where it may be a simple type (no such attribute)'
        elif v == 'self.attributes':
            ok = same
            why = ('the attribute set of the *declared* type is used for a governing simple type that is not the declared type: an element declared xs:anyType (or any complex type '
                   'with attributes) keeps its attributes and its ##any wildcard under xsi:type="xs:int" - `foo="1"` is accepted and decoded')
        elif 'empty' in v.lower():
            ok, why = True, ''
            n_empty += 1
        else:
            ok, why = False, 'unrecognised source of the attribute set'
        ctx.ob(rule, f'XsdElement.get_attributes: `return {v[:50]}` is the attribute set of the governing type', f.loc(r.ast), ok, '' if ok else why,
               key=f'get_attributes|{v[:40]}')
    ctx.ob(rule, 'XsdElement.get_attributes: a governing simple type other than the declared one gets the empty attribute set', f.loc(), n_empty >= 1,
           '' if n_empty else 'no exit returns an empty attribute group', key='get_attributes|empty-set')
    st = ctx.idx.method('xmlschema.validators.elements.XsdElement', '_set_type')
    gs_ = cfg_of(ctx, st)
    asg = [x for x in gs_.nodes if x.kind == 'stmt' and isinstance(x.ast, ast.Assign) and text(x.ast.targets[0]) == 'self.attributes']
    ok = bool(asg) and all(('create_empty_attribute_group' in text(x.ast.value)) == (('isinstance(value, XsdSimpleType)', 'T') in guards(ctx, st, x)) for x in asg)
    ctx.ob(rule, 'XsdElement._set_type: self.attributes is the empty set exactly for a declared simple type', st.loc(), ok, '', key='_set_type|attributes', nontrivial=False)
    ctx.explain('C03.k: path conditions of the returns of XsdElement.get_attributes - `xsd_type.attributes` only for a complex governing type, `self.attributes` only under '
                '`xsd_type is self.type`, otherwise a fresh empty group.')


def rule_l(ctx: Ctx) -> None:
    """The complete attribute wildcard of a type that has an anyAttribute of its own *and* wildcards inherited through attribute group references is the
    intersection of the namespace constraints with the {process contents} of the local wildcard (Complete Wildcard).  The parser intersects a copy of the
    inherited wildcard with the local one - the copy still carries the group's processContents, so the local value has to be put in explicitly."""
    rule = 'C03.l'
    f = ctx.idx.cls(AG).methods['_parse']
    ctx.analysed(f.qualname)
    n = 0
    for blk_owner in ast.walk(f.node):
        for fld in ('body', 'orelse'):
            blk = getattr(blk_owner, fld, None)
            if not isinstance(blk, list):
                continue
            for i, st in enumerate(blk):
                cs = [c for c in calls(st) if isinstance(c.func, ast.Attribute) and c.func.attr == 'intersection' and c.args and text(c.args[0]) == 'any_attribute'] \
                    if isinstance(st, ast.Expr) else []
                if not cs:
                    continue
                n += 1
                recv = text(cs[0].func.value)
                ok = any(isinstance(s2, ast.Assign) and text(s2.targets[0]) == f'{recv}.process_contents' and text(s2.value) == 'any_attribute.process_contents' for s2 in blk[i + 1:])
                ctx.ob(rule, f'XsdAttributeGroup._parse: after `{text(cs[0])}` the complete wildcard takes the processContents of the local anyAttribute', f.loc(st), ok,
                       '' if ok else f'`{recv}` is a copy of the wildcard inherited from an attribute group and keeps that group\'s processContents: a local anyAttribute '
                       'processContents="strict" is downgraded to the group\'s "skip" and attributes without a declaration are accepted', key='_parse|complete-wildcard-process-contents')
    ctx.floor(rule, 'intersections of an inherited wildcard with the local anyAttribute', n, 1)
    ctx.explain('C03.l: in the block of XsdAttributeGroup._parse that calls `<copy>.intersection(any_attribute)` a later statement assigns `<copy>.process_contents = any_attribute.process_contents`.')


def rule_m(ctx: Ctx) -> None:
    """The complete attribute wildcard of a type is built by intersection (C16.l body): ##other takes the absent namespace out as well as its target."""
    from .c16 import other_excludes_both
    other_excludes_both(ctx, 'C03.m')


RULES = [rule_a, rule_b, rule_c, rule_d, rule_e, rule_f, rule_g, rule_h, rule_i, rule_j, rule_k, rule_l, rule_m]
THOROUGH = [thorough]
