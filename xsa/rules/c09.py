"""C09 — order/composition/copy/pickle independence (structural clauses).

C09.a build-phase code never observes the partially built store (typed call graph + observation sites)
C09.b pickle/copy pairing of locks and caches
C09.c locations are compared in normalised form
"""
from __future__ import annotations

import ast

from ..astutil import calls, text, walk_no_nested
from ..index import AnalysisError
from ..report import Ctx
from ..typed import CallGraph
from .common import call_nodes, cfg_of, guards, is_lock_ctor

B = 'xmlschema.validators.builders'
GLOB = 'xmlschema.validators.xsd_globals.XsdGlobals'
OBSERVERS = ('values', 'items', 'keys', 'copy', '__len__', '__iter__', 'staged', 'staged_items', 'staged_values', 'total_staged',
             'iter_globals', 'iter_staged', 'as_dict', 'total', 'total_built', 'total_unbuilt')
ITER_FUNCS = ('len', 'list', 'tuple', 'set', 'sorted', 'iter', 'any', 'all', 'sum', 'enumerate', 'dict', 'reversed', 'min', 'max', 'filter', 'map', 'next')


BUILD_REACH_EXEMPT = {
    'xmlschema.validators.schemas.XMLSchemaBase.__iter__':
        'reached only through the context-insensitive edge ElementPathMixin.__len__ -> self.__iter__ (all overrides); the receivers of '
        'len() in build-phase code are particles (XsdElement / XsdGroup), never a schema object',
}


def store_classes(ctx: Ctx) -> set[str]:
    idx = ctx.idx
    sm = idx.cls(f'{B}.StagedMap')
    out = {c.qualname for c in idx.subclasses(sm)}
    out.add(idx.cls(f'{B}.GlobalMaps').qualname)
    out.add(idx.cls('xmlschema.namespaces.NamespaceView').qualname)
    return out


def observation_sites(ctx: Ctx, f, stores: set[str]):
    """(node, kind, expr text) where ``f`` enumerates or measures a staged map / namespace view."""
    t = ctx.typed
    out = []

    def is_store(e) -> bool:
        return bool(set(t.classes_of(f, e)) & stores)
    for n in walk_no_nested(f.node):
        if isinstance(n, (ast.For, ast.comprehension)) and is_store(n.iter):
            out.append((n.iter, 'iteration', text(n.iter)))
        elif isinstance(n, ast.Call):
            if isinstance(n.func, ast.Name) and n.func.id in ITER_FUNCS and n.args and any(is_store(a) for a in n.args):
                out.append((n, f'{n.func.id}()', text(n)))
            elif isinstance(n.func, ast.Attribute) and n.func.attr in OBSERVERS and is_store(n.func.value):
                out.append((n, f'.{n.func.attr}()', text(n)))
        elif isinstance(n, ast.Attribute) and n.attr in ('_store', '_staging') + OBSERVERS and isinstance(n.ctx, ast.Load) and is_store(n.value):
            par_is_call = False
            out.append((n, f'.{n.attr}', text(n)))
        elif isinstance(n, ast.Starred) and is_store(n.value):
            out.append((n, 'unpacking', text(n)))
    # de-duplicate `.values` attribute + call
    seen = set()
    res = []
    for node, kind, tx in out:
        k = (node.lineno, node.col_offset, kind.rstrip('()'))
        if k in seen:
            continue
        seen.add(k)
        res.append((node, kind, tx))
    return res


def rule_a(ctx: Ctx) -> None:
    rule = 'C09.a'
    idx = ctx.idx
    stores = store_classes(ctx)
    cg = CallGraph(idx, ctx.typed)
    ctx.__dict__['_cg_full'] = cg
    sm = idx.cls(f'{B}.StagedMap')
    roots = [f.qualname for f in idx.overrides(sm, '_build_global')] + [f.qualname for f in idx.overrides(sm, '_factory_or_class')]
    prev = cg.reachable(roots)
    ctx.counters[f'{rule}:functions reachable from StagedMap._build_global'] = len(prev)
    ctx.counters[f'{rule}:call sites resolved'] = cg.stats['resolved']
    ctx.counters[f'{rule}:call sites (all)'] = cg.stats['calls']
    ctx.counters[f'{rule}:imprecise (class-hierarchy) resolutions'] = cg.stats['imprecise']
    if len(prev) < 150:
        ctx.floor(rule, 'functions reachable from the on-demand builder', len(prev), 150)
    owners = {c.qualname for c in idx.subclasses(sm)} | {f'{B}.GlobalMaps', 'xmlschema.namespaces.NamespaceView'}
    total_sites = 0
    in_build = 0
    for f in idx.functions.values():
        if f.module.name.startswith('xmlschema.testing') or isinstance(f.node, ast.Lambda):
            continue
        if f.cls is not None and f.cls.qualname in owners:
            continue    # the store implementation itself
        src = f.module.segment(f.node)
        if not any(k in src for k in ('maps', 'types', 'elements', 'groups', 'attributes', 'notations', 'global_maps', '_store', '_staging')):
            continue
        sites = observation_sites(ctx, f, stores)
        total_sites += len(sites)
        if f.qualname in prev:
            if f.qualname in BUILD_REACH_EXEMPT:
                ctx.note(f'{rule}: {f.qualname} exempt — {BUILD_REACH_EXEMPT[f.qualname]}')
                continue
            for node, kind, tx in sites:
                in_build += 1
                path = cg.path_to(prev, f.qualname)
                ctx.ob(rule, f'{f.qualname.split(".", 1)[-1]}: `{tx[:50]}` ({kind}) enumerates a global map while globals are still being built',
                       f.loc(node), False, 'sees only what happens to be built already -> result depends on declaration order; reached from the '
                       'on-demand builder via ' + ' -> '.join(q.split('.')[-2] + '.' + q.split('.')[-1] for q in path[-5:]),
                       key=f'{f.qualname}|observe|{kind}|{tx[:50]}')
    ctx.counters[f'{rule}:observation sites in the package'] = total_sites
    ctx.floor(rule, 'observation sites of staged maps in the package (outside the build-reachable set)', total_sites, 4)
    ctx.ob(rule, f'none of the {len(prev)} functions reachable from StagedMap._build_global enumerates, measures or copies a staged global map '
                 f'({total_sites} such sites exist elsewhere in the package)', 'xmlschema/validators/builders.py:500', in_build == 0, '',
           key='build-reachable|no-observation')
    # components obtain globals through __getitem__/get/in, which build on demand
    gi = idx.func(f'{B}.StagedMap.__getitem__')
    ok = 'self._build_global(qname)' in text(gi.node) and 'qname in self._staging' in text(gi.node)
    ctx.ob(rule, 'StagedMap.__getitem__ builds a staged global on demand (forward references resolve regardless of order)', gi.loc(), ok, '', key='StagedMap.__getitem__|on-demand')
    # embedded positive example: the detector recognises an iteration over a typed staged map
    probe = idx.func(f'{B}.GlobalMaps.iter_globals')
    fake_sites = observation_sites(ctx, probe, stores | {'builtins.tuple', f'{B}.GlobalMaps'})
    ctx.trusted.append('mypy type map for receiver classes (L1); untyped receivers fall back to class-hierarchy analysis')
    ctx.explain('C09.a: over the typed call graph, no function reachable from StagedMap._build_global (component constructors and '
                '_parse methods) iterates, measures, copies or reads the raw store of a staged global map; lookups by name go '
                'through __getitem__, which builds on demand.')


def rule_b(ctx: Ctx) -> None:
    rule = 'C09.b'
    idx = ctx.idx
    n = 0
    for c in idx.classes.values():
        if c.module.name.startswith('xmlschema.testing'):
            continue
        locks = {}
        for m in c.methods.values():
            if isinstance(m.node, ast.Lambda):
                continue
            for s in walk_no_nested(m.node):
                if isinstance(s, ast.Assign) and len(s.targets) == 1 and text(s.targets[0]).startswith(('self.', 'obj.')) and is_lock_ctor(ctx, m, s.value):
                    locks.setdefault(text(s.targets[0]).split('.', 1)[1], []).append(m.name)
        for attr, where in locks.items():
            if '__init__' not in where:
                continue
            if c.qualname.startswith('xmlschema.utils.streams'):
                ss_ = c.find_method('__setstate__')
                rec = [text(s_.targets[0]) for s_ in walk_no_nested(ss_.node) if isinstance(s_, ast.Assign) and is_lock_ctor(ctx, ss_, s_.value)] if ss_ else []
                ctx.note(f'{rule}: {c.name}.{attr} (utils/streams, a stream wrapper outside the schema object graph): __setstate__ recreates {rec} '
                         f'— informational, not part of C09')
                continue
            n += 1
            gs, ss, cp = c.find_method('__getstate__'), c.find_method('__setstate__'), c.methods.get('__copy__')
            if gs is not None and ss is not None:
                excl = repr(attr) in text(gs.node)
                recr = '__setstate__' in where or any(isinstance(s, ast.Assign) and text(s.targets[0]) == f'self.{attr}' and is_lock_ctor(ctx, ss, s.value)
                                                     for s in walk_no_nested(ss.node))
                ok = excl and recr
                ctx.ob(rule, f'{c.name}.{attr}: the lock is left out of the pickled state and recreated under the same name on restore',
                       f'{c.module.relpath}:{c.node.lineno}', ok,
                       '' if ok else ('__getstate__ does not exclude it' if not excl else f'__setstate__ does not recreate `{attr}` '
                                      f'(recreates {[k for k, v in locks.items() if "__setstate__" in v]})'), key=f'{c.qualname}|lock|{attr}|pickle')
                if cp is not None:
                    okc = '__copy__' in where or any(text(cc.func) in ('type(self)', 'self.__class__') or text(cc.func).endswith(c.name) for cc in calls(cp.node))
                    ctx.ob(rule, f'{c.name}.__copy__ gives the copy a lock of its own', cp.loc(), okc, '', key=f'{c.qualname}|lock|{attr}|copy')
            else:
                # (b): every persistent holder drops and recreates the attribute holding instances of this class
                holders = []
                for h in idx.classes.values():
                    for m in h.methods.values():
                        if m.name != '__init__' and m.name != '__setstate__':
                            continue
                        for s in walk_no_nested(m.node):
                            if isinstance(s, ast.Assign) and text(s.targets[0]).startswith('self.') and (
                                    c.name in text(s.value) or 'get_cache()' in text(s.value) and c.name == 'SchemaCache'):
                                holders.append((h, text(s.targets[0]).split('.', 1)[1]))
                ok = False
                det = f'class {c.name} holds a lock but defines no __getstate__/__setstate__ and no holder was found'
                if c.qualname.startswith('xmlschema.utils.streams'):
                    ctx.note(f'{rule}: {c.name}.{attr} (utils/streams): a stream wrapper, outside the schema object graph (informational)')
                    continue
                for h, hattr in {(h2.qualname, a2): (h2, a2) for h2, a2 in holders}.values():
                    hg, hs = h.find_method('__getstate__'), h.find_method('__setstate__')
                    if hg is not None and hs is not None and repr(hattr) in text(hg.node) and f'self.{hattr} =' in text(hs.node):
                        ok = True
                        det = f'held by {h.name}.{hattr}, which is dropped by __getstate__ and recreated by __setstate__'
                ctx.ob(rule, f'{c.name}.{attr}: instances are only held by attributes that the holder drops and recreates on pickling',
                       f'{c.module.relpath}:{c.node.lineno}', ok, det, key=f'{c.qualname}|lock|{attr}|holder')
    ctx.floor(rule, 'classes creating a lock attribute', n, 3)
    # cached properties are not pickled
    v = idx.cls('xmlschema.validators.xsdbase.XsdValidator')
    gs = v.find_method('__getstate__')
    ok = gs is not None and 'cached_propert' in text(gs.node) and '.pop(' in text(gs.node)
    ctx.ob(rule, 'XsdValidator.__getstate__ drops cached properties (recomputed after restore)', gs.loc() if gs else f'{v.module.relpath}:{v.node.lineno}', ok, '',
           key='XsdValidator|getstate-cached')
    # the restored maps get a fresh cache
    g = idx.cls(GLOB)
    ss = g.find_method('__setstate__')
    ok = ss is not None and 'self.cache = self.settings.get_cache()' in text(ss.node) and "'cache'" in text(g.find_method('__getstate__').node)
    ctx.ob(rule, 'XsdGlobals drops its method cache on pickling and recreates it on restore', ss.loc() if ss else f'{g.module.relpath}:{g.node.lineno}', ok, '',
           key='XsdGlobals|cache-pickle')
    ctx.explain('C09.b: every class of the package that creates a threading lock either excludes it from the pickled state and '
                'recreates it under the same attribute name, or is only held by attributes its holder drops and recreates.')


def _derives_from_normalize(ctx: Ctx, f, node, name: str, g, rd, depth=0) -> bool:
    defs = rd[node].get(name, set())
    if not defs:
        return False
    for d in defs:
        if d is g.entry or d.ast is None:
            return False
        vals = []
        if isinstance(d.ast, ast.Assign):
            vals = [d.ast.value]
        else:
            vals = [x.value for ex in d.exprs for x in ast.walk(ex) if isinstance(x, ast.NamedExpr) and text(x.target) == name]
        if not vals:
            return False
        for v in vals:
            if isinstance(v, ast.Call) and text(v.func) in ('normalize_url', 'self.get_url'):
                continue
            return False
    return True


def rule_c(ctx: Ctx) -> None:
    rule = 'C09.c'
    idx = ctx.idx
    ml = idx.func('xmlschema.resources.xml_resource.XMLResource.match_location')
    g = cfg_of(ctx, ml)
    rd = g.reaching_defs()
    rets = [n for n in g.nodes if n.kind == 'return' and isinstance(n.ast.value, ast.Compare)]
    ok = len(rets) == 1
    if ok:
        c = rets[0].ast.value
        ops = {text(c.left), text(c.comparators[0])}
        ok = ops == {'self.url', 'url'} and _derives_from_normalize(ctx, ml, rets[0], 'url', g, rd)
        if not ok and ops == {'self.url', 'url'}:
            # `url` may be adjusted for the http/https alias after normalisation: every definition chain starts at get_url
            defs = rd[rets[0]].get('url', set())
            ok = all(d.ast is not None and (text(d.ast.value).startswith('self.get_url(') or text(d.ast.value).startswith('url.replace(')) for d in defs)
    ctx.ob(rule, 'XMLResource.match_location compares the resource URL with the normalised form of the location', ml.loc(), ok, '', key='match_location|normalised')
    init = idx.func('xmlschema.resources.xml_resource.XMLResource.__init__')
    ok = any(isinstance(s, ast.Assign) and text(s.targets[0]) == 'self.url' and text(s.value) == 'self.get_url(source)' for s in walk_no_nested(init.node))
    ctx.ob(rule, 'the stored resource URL is itself normalised (same function on both sides)', init.loc(), ok, '', key='XMLResource.url|normalised')
    sites = [('xmlschema.validators.xsd_globals.XsdGlobals.get_schema', 'schema.source.match_location'),
             ('xmlschema.loaders.LocationSchemaLoader.is_missing', 's.source.match_location'),
             ('xmlschema.loaders.SafeSchemaLoader.is_missing', 's.source.match_location')]
    for q, callee in sites:
        f = idx.func(q)
        gg = cfg_of(ctx, f)
        rdd = gg.reaching_defs()
        cs = call_nodes(gg, lambda c, callee=callee: text(c.func) == callee)
        if not cs:
            raise AnalysisError(f'{rule}: call {callee}() not found in {q}')
        for n, c in cs:
            a = c.args[0]
            ok = isinstance(a, ast.Name) and _derives_from_normalize(ctx, f, n, a.id, gg, rdd)
            ctx.ob(rule, f'{q.split(".", 1)[-1]}: the location handed to match_location was normalised against the base URL', f.loc(c), ok, '',
                   key=f'{q}|match-arg')
    ctx.explain('C09.c: both operands of the location equality derive from normalize_url (reaching definitions), at the '
                'resource and at the three call sites that decide whether a schema document is already loaded.')


def rule_d(ctx: Ctx) -> None:
    """Building twice: build() starts from a clean slate — every map it fills is emptied by clear(), which it calls first;
    protect_status saves and restores the same maps (sibling agreement)."""
    rule = 'C09.d'
    idx = ctx.idx
    b = idx.func(f'{GLOB}.build')
    filled = set()
    for c in calls(b.node):
        if isinstance(c.func, ast.Attribute) and c.func.attr in ('update', 'load', 'build') and text(c.func.value).startswith('self.') \
                and text(c.func.value).count('.') == 1:
            filled.add(text(c.func.value)[5:])
    filled.discard('types')      # build_builtins fills a member of global_maps
    ctx.floor(rule, 'maps filled by XsdGlobals.build', len(filled), 3)
    cl = idx.func(f'{GLOB}.clear')
    g = cfg_of(ctx, cl)
    cleared = set()
    for n, c in call_nodes(g, lambda c: isinstance(c.func, ast.Attribute) and c.func.attr == 'clear' and text(c.func.value).startswith('self.')):
        if not guards(ctx, cl, n):
            cleared.add(text(c.func.value)[5:])
    for a in sorted(filled):
        ok = a in cleared
        ctx.ob(rule, f'XsdGlobals.clear() unconditionally empties `{a}`, which build() fills', cl.loc(), ok,
               '' if ok else f'a second build() starts with the `{a}` of the previous build: stale components are found by name and reused',
               key=f'XsdGlobals.clear|{a}')
    ok = 'cache' in cleared
    ctx.ob(rule, 'XsdGlobals.clear() drops the method cache (its entries refer to the components being discarded)', cl.loc(), ok, '', key='XsdGlobals.clear|cache')
    gb = cfg_of(ctx, b)
    clr = [n for n, c in call_nodes(gb, lambda c: text(c.func) == 'self.clear')]
    fills = [n for n, c in call_nodes(gb, lambda c: isinstance(c.func, ast.Attribute) and c.func.attr in ('update', 'load', 'build') and
                                     text(c.func.value).startswith('self.') and text(c.func.value)[5:] in filled)]
    dom = gb.dominators(kinds='nTF')
    ok = bool(clr) and all(clr[0] in dom[n] for n in fills)
    ctx.ob(rule, 'XsdGlobals.build() clears the maps before it fills them', b.loc(), ok, '', key='XsdGlobals.build|clear-first')
    ps = idx.func(f'{GLOB}.protect_status')
    saved = {text(s_.value.func.value)[5:] for s_ in walk_no_nested(ps.node) if isinstance(s_, ast.Assign) and isinstance(s_.value, ast.Call)
             and isinstance(s_.value.func, ast.Attribute) and s_.value.func.attr == 'copy' and text(s_.value.func.value).startswith('self.')}
    restored = {text(c.func.value)[5:] for c in calls(ps.node) if isinstance(c.func, ast.Attribute) and c.func.attr == 'update'
                and text(c.func.value).startswith('self.')}
    ok = filled <= saved and filled <= restored
    ctx.ob(rule, 'protect_status saves and restores every map that build() fills', ps.loc(), ok,
           '' if ok else f'filled {sorted(filled)}, saved {sorted(saved)}, restored {sorted(restored)}', key='XsdGlobals.protect_status|maps')
    # a schema's own cached state is dropped with the maps
    ok = any(text(c.func) == 'schema.clear' for c in calls(cl.node))
    ctx.ob(rule, 'XsdGlobals.clear() also clears the cached state of the schemas it owns', cl.loc(), ok, '', key='XsdGlobals.clear|schemas')
    ctx.explain('C09.d: the maps filled by build() ⊆ the maps unconditionally emptied by clear() ⊆ the maps saved/restored by '
                'protect_status; build() calls clear() before any fill (dominance).')


def rule_e(ctx: Ctx) -> None:
    """Splitting declarations over documents: a per-document setting that a component's parser writes on *its own* schema document
    (`self.schema.<attr> = …`) must also be resolved for every other document of the build, in a loop over all schemas."""
    rule = 'C09.e'
    idx = ctx.idx
    written = {}
    for f in idx.iter_functions('validators'):
        if isinstance(f.node, ast.Lambda) or f.cls is None:
            continue
        for s_ in walk_no_nested(f.node):
            if isinstance(s_, ast.Assign) and isinstance(s_.targets[0], ast.Attribute) and text(s_.targets[0].value) == 'self.schema':
                written.setdefault(s_.targets[0].attr, []).append((f, s_))
    ctx.floor(rule, 'per-document settings written by component parsers', len(written), 1)
    gb = idx.func(f'{B}.GlobalMaps.build')
    g = cfg_of(ctx, gb)
    for attr, sites in sorted(written.items()):
        resolved = [n for n in g.nodes if n.kind == 'stmt' and isinstance(n.ast, ast.Assign) and text(n.ast.targets[0]) == f'schema.{attr}'
                    and any(t.startswith('for schema in ') and lab == 'T' for t, lab in guards(ctx, gb, n))]
        # at least one resolution binds a component (not just a reset to None)
        binds = [n for n in resolved if not (isinstance(n.ast.value, ast.Constant) and n.ast.value.value is None)]
        ok = bool(binds)
        f0, s0 = sites[0]
        ctx.ob(rule, f'`schema.{attr}` (written by {f0.qualname.split(".", 2)[-1]} on the declaring document only) is resolved for every document '
                     f'in GlobalMaps.build', gb.loc(binds[0].ast) if binds else gb.loc(), ok,
               '' if ok else f'only the document that declares the component gets `{attr}` bound: moving the declaration into an included document '
               f'of the same namespace changes the other documents\' components', key=f'GlobalMaps.build|per-document|{attr}')
    ctx.explain('C09.e: every attribute that a component parser writes on self.schema is also assigned inside a `for schema in schemas` '
                'loop of GlobalMaps.build.')


def rule_f(ctx: Ctx) -> None:
    """The meaning of a schema must not depend on the order in which global components are built: a component parser that
    narrows/widens a wildcard works on a wildcard it owns, never on the object of the referenced component (C03.g body)."""
    from .c03 import rule_g as copy_ownership
    copy_ownership(ctx, 'C09.f')


def rule_g(ctx: Ctx) -> None:
    """However a schemaLocation is spelled, it is resolved against the document that contains it: the base URL of the referencing
    document travels down the fetch chain and wins over a configured default (C12.g body)."""
    from .c12 import rule_g as base_url_chain
    base_url_chain(ctx, 'C09.g')


def rule_h(ctx: Ctx, rule: str = 'C09.h') -> None:
    """A copy behaves like the original: a `__copy__` that builds the new object through the constructor hands over every option the
    constructor takes (a parameter left out silently falls back to its default - e.g. default settings instead of the schema's)."""
    n = 0
    for c in ctx.idx.classes.values():
        if not c.module.name.startswith(('xmlschema.validators', 'xmlschema.resources', 'xmlschema.namespaces', 'xmlschema.converters', 'xmlschema.loaders')):
            continue
        cp = c.methods.get('__copy__')
        if cp is None or isinstance(cp.node, ast.Lambda):
            continue
        init = c.find_method('__init__')
        if init is None:
            continue
        for cl in calls(cp.node):
            if text(cl.func) not in ('type(self)', 'self.__class__', c.name):
                continue
            if any(k.arg is None for k in cl.keywords) or any(isinstance(a, ast.Starred) for a in cl.args):
                continue        # options forwarded wholesale
            ctx.analysed(cp.qualname)
            ps = [p for p in init.params if p != 'self']
            given = set(ps[:len(cl.args)]) | {k.arg for k in cl.keywords}
            # parameters whose value the instance keeps (an attribute of the same name, possibly private): those must be handed over
            src = text(init.node)
            kept = [p for p in ps if f'self.{p} = ' in src or f'self._{p} = ' in src or f'self.{p}: ' in src]
            missing = [p for p in kept if p not in given]
            n += 1
            ctx.ob(rule, f'{c.name}.__copy__: the constructor call hands over every option the instance keeps ({", ".join(kept) or "none"})', cp.loc(cl), not missing,
                   '' if not missing else f'`{missing[0]}` is not passed: the copy is built with the default - e.g. a copy of the global maps of a schema opened with '
                   'converter=…, defuse=… or a custom loader validates and decodes with the default options', key=f'{c.name}.__copy__|ctor-args')
    ctx.floor(rule, 'constructor calls inside __copy__ methods', n, 1)
    ctx.explain(f'{rule}: for every __copy__ that builds through `type(self)(…)`, the parameters of __init__ that the instance stores must all be '
                'among the arguments.')


def rule_i(ctx: Ctx) -> None:
    """Moving a declaration into an included document of the same namespace changes nothing.  `notQName="##defined"` excludes the names
    for which a global declaration exists *in the schema*: the refusal may depend on whether the name is in the global map of this
    schema set, not on which schema document holds the declaration.  Sibling pair: element wildcard and attribute wildcard."""
    rule = 'C09.i'
    n = 0
    for cq, table in (('xmlschema.validators.wildcards.Xsd11AnyElement', 'self.maps.elements'), ('xmlschema.validators.wildcards.Xsd11AnyAttribute', 'self.maps.attributes')):
        c = ctx.idx.cls(cq)
        f = c.methods.get('is_matching')
        if f is None:
            raise AnalysisError(f'missing anchor {cq}.is_matching')
        ctx.analysed(f.qualname)
        tests = [t for t in walk_no_nested(f.node) if isinstance(t, ast.If) and "'##defined' in self.not_qname" in text(t.test)]
        if len(tests) != 1:
            raise AnalysisError(f'UNRECOGNISED-IDIOM {rule}: the ##defined test of {f.qualname}')
        t = tests[0]
        n += 1
        looks = table in text(t.test) or any(table in text(x) for s_ in t.body for x in ast.walk(s_))
        refuses = any(isinstance(x, ast.Return) and isinstance(x.value, ast.Constant) and x.value.value is False for s_ in t.body for x in ast.walk(s_))
        by_doc = [x for s_ in [t.test] + t.body for x in ast.walk(s_) if isinstance(x, ast.Compare) and len(x.ops) == 1 and isinstance(x.ops[0], (ast.Is, ast.IsNot, ast.Eq, ast.NotEq))
                  and 'self.schema' in (text(x.left), text(x.comparators[0]))]
        ok = looks and refuses and not by_doc
        ctx.ob(rule, f'{c.name}.is_matching: ##defined refuses a name of the global map `{table}` whatever document declares it', f.loc(t), ok,
               '' if ok else (f'`{text(by_doc[0])}` makes the refusal depend on the schema document that holds the declaration: with the global declaration moved into an included '
                              'document of the same namespace the wildcard admits the name, the one-document schema rejects the instance and the split one accepts it'
                              if by_doc else 'no refusal under the ##defined test'), key=f'{c.name}.is_matching|defined-schema-wide')
    ctx.floor(rule, '##defined tests of the XSD 1.1 wildcards', n, 2)
    ctx.explain('C09.i: in the is_matching of both XSD 1.1 wildcards the block under `\'##defined\' in self.not_qname` consults the global map, returns False, and contains no '
                'comparison with `self.schema` (document identity); a comparison of `.maps` with `self.maps` (schema-set identity) is allowed.')


def rule_j(ctx: Ctx) -> None:
    """Two spellings of a schemaLocation that name one file must be recognised as one document: the already-loaded test of XsdGlobals
    (get_schema / register) compares normalised URLs, so normalize_url has to be canonical - dot segments removed on every local-path
    exit - or the file is loaded twice and its globals collide.  C12.f body."""
    from .c12 import rule_f as canonical_urls
    canonical_urls(ctx, 'C09.j')


UNPICKLABLE_CTORS = ('MappingProxyType', 'iter', 'map', 'filter', 'zip', 'open', 'urlopen', 'local', 'reversed', 'enumerate')


def _unpicklable(v: ast.AST):
    """a value expression whose result pickle refuses: a read-only proxy, a lambda, a generator / iterator object, an open file."""
    if isinstance(v, (ast.Lambda, ast.GeneratorExp)):
        return type(v).__name__.lower()
    if isinstance(v, ast.Call):
        if isinstance(v.func, ast.Name) and v.func.id in UNPICKLABLE_CTORS:
            return f'{v.func.id}(…)'
        if isinstance(v.func, ast.Attribute) and v.func.attr in ('MappingProxyType', 'urlopen', 'local') and isinstance(v.func.value, ast.Name):
            return f'{text(v.func)}(…)'
    if isinstance(v, ast.IfExp):
        return _unpicklable(v.body) or _unpicklable(v.orelse)
    return None


def rule_k(ctx: Ctx) -> None:
    """Restoring from a pickle: everything a schema holds on to through instance attributes goes through pickle.  A value that pickle
    refuses (a mappingproxy, a lambda, a generator or iterator object, an open file) may live in a class attribute - never pickled - but
    not in an instance attribute, unless the class's __getstate__ leaves that attribute out."""
    rule = 'C09.k'
    idx = ctx.idx
    n = n_cls = 0
    probe = ast.parse("self.a = MappingProxyType({})\nself.b = lambda x: x\nself.c = (i for i in y)\nself.d = {}").body
    ok = [bool(_unpicklable(s_.value)) for s_ in probe] == [True, True, True, False]
    ctx.ob(rule, 'the recogniser matches its positive examples (mappingproxy, lambda, generator) and not a plain dict', 'xsa/rules/c09.py:1', ok, '', key='recogniser|self-check', nontrivial=False)
    for c in idx.classes.values():
        if c.module.name.startswith(('xmlschema.testing', 'xmlschema.extras', 'xmlschema.cli', 'xmlschema.utils.streams')):
            continue
        n_cls += 1
        dropped = ''
        for k_ in c.mro():
            gs = k_.methods.get('__getstate__') if hasattr(k_, 'methods') else None
            if gs is not None:
                dropped += text(gs.node)
        for m in c.methods.values():
            if isinstance(m.node, ast.Lambda):
                continue
            for s_ in walk_no_nested(m.node):
                if isinstance(s_, ast.Assign):
                    tgs, v = s_.targets, s_.value
                elif isinstance(s_, ast.AnnAssign) and s_.value is not None:
                    tgs, v = [s_.target], s_.value
                else:
                    continue
                attrs = [t.attr for t in tgs if isinstance(t, ast.Attribute) and isinstance(t.value, ast.Name) and t.value.id in ('self', 'obj')]
                if not attrs:
                    continue
                n += 1
                why = _unpicklable(v)
                if why is None:
                    continue
                for a in attrs:
                    ok = repr(a) in dropped
                    ctx.ob(rule, f'{c.name}.{m.name}: `{text(s_)[:60]}` keeps the instance picklable', m.loc(s_), ok,
                           'left out by __getstate__' if ok else f'the instance attribute `{a}` holds a {why}, which pickle refuses, and no __getstate__ of the class leaves it out: '
                           'pickle.dumps() of a schema that reaches this object raises TypeError (a class attribute is never pickled and may hold such a value)',
                           key=f'{c.qualname}|unpicklable|{a}')
    ctx.floor(rule, 'instance-attribute assignments inspected', n, 400)
    ctx.floor(rule, 'classes inspected', n_cls, 100)
    ctx.explain('C09.k: no assignment to an instance attribute (self.x = …) in the package stores a mappingproxy, lambda, generator/iterator object or open file, '
                'unless a __getstate__ of the class names the attribute.')


def rule_l(ctx: Ctx) -> None:
    """Building twice: what build() adds, clear() removes.  The components are created anew by every build and carry their own error lists,
    but the errors that the loading of the globals reports against the *schema document* (a global declared twice, a redefinition without an
    original) are appended to the error list of the schema object, which survives the rebuild."""
    rule = 'C09.l'
    idx = ctx.idx
    gm = idx.cls(f'{B}.GlobalMaps')
    sites = []
    for m in gm.methods.values():
        if isinstance(m.node, ast.Lambda):
            continue
        for c in calls(m.node):
            if isinstance(c.func, ast.Attribute) and c.func.attr == 'parse_error' and text(c.func.value) in ('schema', '_schema', 'self.validator'):
                sites.append((m, c))
    ctx.floor(rule, 'build-time reports against the schema document in GlobalMaps', len(sites), 3)
    pe = idx.func('xmlschema.validators.xsdbase.XsdValidator.parse_error')
    appends = any(text(c.func) == 'self.errors.append' for c in calls(pe.node))
    resets = []
    for q in (f'{GLOB}.clear', 'xmlschema.validators.schemas.XMLSchemaBase.clear', f'{GLOB}.build', f'{B}.GlobalMaps.clear'):
        f = idx.functions.get(q)
        if f is None:
            continue
        for x in ast.walk(f.node):
            if isinstance(x, ast.Attribute) and x.attr == 'errors' and not isinstance(x.ctx, ast.Load) or \
                    isinstance(x, ast.Call) and isinstance(x.func, ast.Attribute) and x.func.attr in ('clear', '__delitem__') and text(x.func.value).endswith('.errors'):
                resets.append(q)
    ok = not (sites and appends) or bool(resets)
    m0, c0 = sites[0]
    ctx.ob(rule, 'the errors that the loading of the globals reports against a schema document do not survive clear() + build()', m0.loc(c0), ok,
           '' if ok else f'{len(sites)} report sites in GlobalMaps append to schema.errors (XsdValidator.parse_error, lax mode); neither XsdGlobals.clear() nor XMLSchemaBase.clear() '
           'nor build() resets that list: every rebuild of a lax schema with a duplicate global appends the same error once more, so all_errors grows 2, 3, 4 ...',
           key='schema.errors|rebuild-accumulates')
    ctx.explain('C09.l: GlobalMaps reports duplicate globals / bad redefinitions through schema.parse_error(), which appends to schema.errors; the functions that start a rebuild '
                '(XsdGlobals.clear / build, XMLSchemaBase.clear, GlobalMaps.clear) are searched for a reset of an `.errors` list.')


def rule_m(ctx: Ctx) -> None:
    """Listing the imports in another order must not change the schema: what a document may refer to is decided by its *own* xs:import statements
    (resolve_qname checks schema.imported_namespaces), not by what happened to be loaded before it was processed.  So every well-formed xs:import is recorded,
    loaded namespace or not; only an erroneous import (reported) is skipped."""
    rule = 'C09.m'
    f = ctx.idx.func('xmlschema.loaders.SchemaLoader.load_declared_schemas')
    ctx.analysed(f.qualname)
    g = cfg_of(ctx, f)
    recs = [n for n, c in call_nodes(g, lambda c: text(c.func).endswith('imported_namespaces.append'))]
    ctx.floor(rule, 'recordings of an imported namespace', len(recs), 1)
    imp = [x for x in g.nodes if x.kind == 'if' and 'XSD_IMPORT' in text(x.ast.test)]
    if not imp:
        raise AnalysisError(f'UNRECOGNISED-IDIOM {rule}: the xs:import branch of load_declared_schemas')
    reporters = [n for n, c in call_nodes(g, lambda c: isinstance(c.func, ast.Attribute) and c.func.attr == 'parse_error')]
    conts = [n for n in g.nodes if n.kind == 'continue' and (text(imp[0].ast.test), 'T') in guards(ctx, f, n)]
    k = 0
    for cn in conts:
        # a way round the recording: reachable from the import test without passing the recording ...
        if g.must_pass(imp[0], [cn], recs, kinds='nTF') is None:
            continue
        k += 1
        # ... is legitimate only behind an error report
        w = g.must_pass(imp[0], [cn], reporters, kinds='nTF')
        ok = w is None
        ctx.ob(rule, 'load_declared_schemas: an xs:import that is skipped before it is recorded has been reported as erroneous', f.loc(cn.ast), ok,
               '' if ok else f'`continue` under {sorted(t for t, lab in guards(ctx, f, cn) if "XSD_IMPORT" not in t and not t.startswith("for "))[:2]} leaves the import unrecorded: a '
               'document whose location-less import names a namespace that another document loaded first may not refer to it ("has not an xs:import statement") - the build '
               'depends on the order of the imports', key='load_declared_schemas|import-recorded')
    ctx.ob(rule, 'load_declared_schemas: the recording of the imported namespace exists in the xs:import branch', f.loc(recs[0].ast), all((text(imp[0].ast.test), 'T') in guards(ctx, f, r) for r in recs), '',
           key='load_declared_schemas|recording-in-branch', nontrivial=False)
    ctx.explain('C09.m: in the xs:import branch of SchemaLoader.load_declared_schemas every `continue` that is reachable without `schema.imported_namespaces.append(…)` lies behind a '
                'parse_error report (must-pass-through).')


RULES = [rule_a, rule_b, rule_c, rule_d, rule_e, rule_f, rule_g, rule_h, rule_i, rule_j, rule_k, rule_l, rule_m]
