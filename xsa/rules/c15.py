"""C15 — schema build accepts a content model exactly when it is deterministic (structural clauses).

C15.a every complex content model is checked after the build; a model error fails a strict build and is kept otherwise
C15.b the checker compares each leaf particle with every remembered leaf and remembers paths by copy
C15.c EDC: the inconsistency report depends on the consistency test alone and comes before the overlap shortcut
C15.d UPA: an element competing with an XSD 1.1 wildcard is given precedence instead of being an error
C15.e what 'consistent' means for two element particles; where the 1.1 wildcard honours the precedence
C15.f lenient comparison through a wildcard   C15.g distinguishable_paths: 1<->2 symmetry and strict before/after partition

Not decided: that distinguishable_paths separates exactly the deterministic pairs (occurrence ranges over runtime particle
graphs) - the quoted misses, e.g. (a, c+, a*)+ accepted, are in that function.
"""
from __future__ import annotations

import ast

from ..astutil import calls, text, walk_no_nested
from ..index import AnalysisError
from ..report import Ctx
from .common import call_nodes, cfg_of, guards, iteration_requires, reach_cut

MODELS = 'xmlschema.validators.models'


def rule_a(ctx: Ctx) -> None:
    rule = 'C15.a'
    f = ctx.idx.func('xmlschema.validators.xsd_globals.XsdGlobals.check')
    g = cfg_of(ctx, f)
    cm = call_nodes(g, lambda c: text(c.func) == 'check_model')
    ctx.floor(rule, 'check_model calls in XsdGlobals.check', len(cm), 1)
    for n, c in cm:
        ok = [text(a) for a in c.args] == ['xsd_type.content']
        ctx.ob(rule, 'XsdGlobals.check: the content model of the complex type is what is checked', f.loc(c), ok, text(c), key='check|argument', nontrivial=False)
        # within one iteration over the complex types: the only way around the call is a content that is not a model group
        loops = [x for x in g.nodes if x.kind == 'for' and 'iter_components(XsdComplexType)' in text(x.ast.iter)]
        if len(loops) != 1:
            raise AnalysisError(f'{rule}: expected one loop over iter_components(XsdComplexType) in {f.qualname}')
        head = loops[0]
        skip = {(x, 'T') for x in g.nodes if x.kind == 'if' and text(x.ast.test) == 'not isinstance(xsd_type.content, XsdGroup)'} | \
               {(x, 'F') for x in g.nodes if x.kind == 'if' and text(x.ast.test) == 'isinstance(xsd_type.content, XsdGroup)'}
        starts = [m for m, lab in g.succ[head] if lab == 'T']
        # every path of an iteration that comes back to the loop head passed the call (or the not-a-group exit)
        back = reach_cut(g, starts, skip, avoid=[n], kinds='nTF')
        ok = bool(skip) and head not in back
        ctx.ob(rule, 'XsdGlobals.check: every complex type with a model group content reaches check_model (no other way to the next type)', f.loc(c), ok,
               '' if ok else 'an iteration can finish without check_model: a non-deterministic model of such a type is accepted', key='check|every-type')
    # the handler: strict -> re-raise; otherwise recorded on the type (never dropped)
    hs = [h for t in ast.walk(f.node) if isinstance(t, ast.Try) and any(text(cc.func) == 'check_model' for b in t.body for cc in calls(b))
          for h in t.handlers if h.type is not None and 'XMLSchemaModelError' in text(h.type)]
    ok = False
    if len(hs) == 1:
        h = hs[0]
        body = h.body
        ok = len(body) == 2 and isinstance(body[0], ast.If) and text(body[0].test) in ("self.validation == 'strict'",) \
            and len(body[0].body) == 1 and isinstance(body[0].body[0], ast.Raise) and body[0].body[0].exc is None and not body[0].orelse \
            and text(body[1]) == f'xsd_type.errors.append({h.name})'
    ctx.ob(rule, "XsdGlobals.check: a model error fails the build under strict validation and is recorded on the type otherwise", f.loc(hs[0]) if hs else f.loc(), ok,
           '' if ok else 'the XMLSchemaModelError raised by check_model is swallowed or downgraded', key='check|handler')
    ctx.explain('C15.a: edge-cut reachability within one iteration over the complex types (only the not-a-model-group exit bypasses '
                'check_model) and the shape of the handler around the call.')


_MEMORY_ITERS = ('paths.values()', 'paths', 'list(paths)', 'paths.items()', 'tuple(paths)')


def _memory_loop(g):
    ls = [n for n in g.nodes if n.kind == 'for' and text(n.ast.iter) in _MEMORY_ITERS]
    if len(ls) != 1:
        raise AnalysisError('check_model: expected one loop over the remembered leaves `paths`')
    return ls[0]


def rule_b(ctx: Ctx) -> None:
    rule = 'C15.b'
    f = ctx.idx.func(f'{MODELS}.check_model')
    g = cfg_of(ctx, f)
    outer = [n for n in g.nodes if n.kind == 'for' and text(n.ast.iter) == 'safe_iter_path()']
    inner = [n for n in g.nodes if n.kind == 'for' and text(n.ast.iter) in ('paths.values()', 'paths', 'list(paths)', 'paths.items()', 'tuple(paths)')]
    if len(outer) != 1 or len(inner) != 1:
        raise AnalysisError(f'{rule}: expected `for e in safe_iter_path()` with one nested loop over `paths` in {f.qualname}')
    o, i = outer[0], inner[0]
    ok = any(i.ast is x for b in o.ast.body for x in ast.walk(b))
    ctx.ob(rule, 'check_model: each leaf particle is compared with every leaf remembered so far (nested loops)', f.loc(i.ast), ok, '', key='check_model|all-pairs',
           nontrivial=False)
    stores = [n for n in g.nodes if n.kind == 'stmt' and ((isinstance(n.ast, ast.Assign) and isinstance(n.ast.targets[0], ast.Subscript)
                                                           and text(n.ast.targets[0].value) == 'paths')
                                                          or (isinstance(n.ast, ast.Expr) and isinstance(n.ast.value, ast.Call)
                                                              and text(n.ast.value.func) == 'paths.append' and len(n.ast.value.args) == 1))]
    ctx.floor(rule, 'stores into the table of visited leaves', len(stores), 1)
    for s in stores:
        # the memory keeps distinct leaves apart: appended, or keyed by the particle itself - a key such as e.name merges the particles of one name
        # (and every wildcard, whose name is None), so only the latest of them is compared with the leaves that follow
        if isinstance(s.ast, ast.Assign):
            key = text(s.ast.targets[0].slice)
            inj = key in ('id(e)', 'e', 'len(paths)')
        else:
            key, inj = 'append', True
        ctx.ob(rule, 'check_model: the table of visited leaves keeps every leaf (no two particles share a slot)', f.loc(s.ast), inj,
               '' if inj else f'`paths[{key}]`: a later particle with the same {key.split(".")[-1]} replaces the earlier one, which is never compared again - '
               'choice(seq(a, x), seq(b, a), a) is accepted although the first and the third `a` compete, and so is any third wildcard overlapping the first '
               '(all wildcards share the key None)', key='check_model|slot-per-leaf')
        # every iteration of the outer loop that completes normally stores the leaf (a `continue` of the inner loop must not skip it)
        starts = [m for m, lab in g.succ[o] if lab == 'T']
        back = reach_cut(g, starts, set(), avoid=[s], kinds='nTF')
        ok = o not in back
        ctx.ob(rule, 'check_model: every leaf that passed the comparisons is remembered for the following leaves', f.loc(s.ast), ok,
               '' if ok else 'an iteration can finish without storing the leaf: later particles are not compared with it', key='check_model|store-every-leaf')
        v = s.ast.value if isinstance(s.ast, ast.Assign) else s.ast.value.args[0]
        elts = v.elts if isinstance(v, ast.Tuple) else [v]
        snap = [e for e in elts if 'current_path' in text(e)]
        ok = bool(snap) and all(isinstance(e, ast.Subscript) and isinstance(e.slice, ast.Slice) or
                                (isinstance(e, ast.Call) and text(e.func) in ('list', 'tuple', 'copy') and len(e.args) == 1) or
                                (isinstance(e, ast.Call) and isinstance(e.func, ast.Attribute) and e.func.attr == 'copy') for e in snap)
        ctx.ob(rule, 'check_model: the path to a leaf is remembered by copy (the walker keeps appending to and popping from current_path)', f.loc(s.ast), ok,
               '' if ok else f'`{text(v)[:60]}` stores the live list: every remembered path then equals the current one and distinguishable_paths compares a path '
               'with itself', key='check_model|path-copy')
    # the walker mutates current_path in place
    w = ctx.idx.functions.get(f'{f.qualname}.<locals>.safe_iter_path') or next((x for q, x in ctx.idx.functions.items() if q.startswith(f.qualname) and q.endswith('safe_iter_path')), None)
    if w is None:
        raise AnalysisError(f'missing anchor {f.qualname}.safe_iter_path')
    muts = [c for c in calls(w.node) if isinstance(c.func, ast.Attribute) and text(c.func.value) == 'current_path' and c.func.attr in ('append', 'pop')]
    ctx.ob(rule, 'safe_iter_path keeps the current path by appending and popping groups', w.loc(), len(muts) >= 2, '', key='safe_iter_path|live', nontrivial=False)
    ctx.explain('C15.b: nested loop structure, the store into `paths` lies on every completing iteration of the outer loop, and the '
                'stored path is a copy of the live list.')


def rule_c(ctx: Ctx) -> None:
    rule = 'C15.c'
    f = ctx.idx.func(f'{MODELS}.check_model')
    g = cfg_of(ctx, f)
    inner = _memory_loop(g)
    raises = [n for n in g.nodes if n.kind == 'raise' and 'XMLSchemaModelError' in text(n.ast.exc)]
    ctx.floor(rule, 'model errors raised by check_model', len(raises), 3)
    edc = []
    for r in raises:
        # which message does it raise?
        msgs = sorted((s for s in walk_no_nested(f.node) if isinstance(s, ast.Assign) and text(s.targets[0]) == 'msg' and s.lineno < r.ast.lineno),
                      key=lambda s: s.lineno)
        blk_msg = text(msgs[-1].value) if msgs else ''
        if 'Element Declarations Consistent' in blk_msg:
            edc.append(r)
    ctx.floor(rule, 'EDC reports', len(edc), 1)
    tests = [(text(x.ast.test), x) for x in g.nodes if x.kind == 'if']
    for r in edc:
        need = [x for t, x in tests if 'is_consistent(pe)' in t and t.startswith('not e.is_consistent(pe)')]
        ok = len(need) == 1 and iteration_requires(g, inner, r, {(need[0], 'T')})
        # and nothing else inside the iteration decides it
        if ok:
            others = [x for t, x in tests if x is not need[0]]
            ok = not any(iteration_requires(g, inner, r, {(x, 'T')}) or iteration_requires(g, inner, r, {(x, 'F')}) for x in others)
        ctx.ob(rule, 'check_model: two particles that match the same name with different types are always an error (no other condition on the path)',
               f.loc(r.ast), ok, '' if ok else 'the EDC report is skipped for some pairs (e.g. only when the particles overlap, or only for siblings)',
               key='check_model|edc-unconditional')
        t = need[0].ast.test if need else None
        ok = t is not None and isinstance(t, ast.BoolOp) and isinstance(t.op, ast.Or) and text(t.values[0]) == 'not e.is_consistent(pe)'
        ctx.ob(rule, 'check_model: the open-content wildcard of the type is part of the consistency test', f.loc(r.ast),
               ok and any('any_element' in text(v) and 'is_consistent(pe)' in text(v) for v in t.values[1:]), '', key='check_model|edc-open-content')
    ctx.explain('C15.c: the raise of the EDC error is, within one iteration of the inner loop, behind the True edge of the consistency '
                'test and behind no other test (edge-cut reachability).')


def rule_d(ctx: Ctx, rule: str = 'C15.d') -> None:
    f = ctx.idx.func(f'{MODELS}.check_model')
    g = cfg_of(ctx, f)
    inner = _memory_loop(g)
    raises = [n for n in g.nodes if n.kind == 'raise' and 'XMLSchemaModelError' in text(n.ast.exc)]
    tests = [(text(x.ast.test), x) for x in g.nodes if x.kind == 'if']
    w_pe = [x for t, x in tests if t == 'isinstance(pe, Xsd11AnyElement) and (not isinstance(e, XsdAnyElement))']
    w_e = [x for t, x in tests if t == 'isinstance(e, Xsd11AnyElement) and (not isinstance(pe, XsdAnyElement))']
    ctx.floor(rule, 'wildcard-versus-element tests', len(w_pe) + len(w_e), 2)
    upa = []
    for r in raises:
        # not the EDC raise: that one is behind the consistency test
        cons = [x for t, x in tests if t.startswith('not e.is_consistent(pe)')]
        if cons and iteration_requires(g, inner, r, {(cons[0], 'T')}):
            continue
        upa.append(r)
    ctx.floor(rule, 'UPA / overlap reports', len(upa), 2)
    for r in upa:
        ok = iteration_requires(g, inner, r, {(x, 'F') for x in w_pe}) and iteration_requires(g, inner, r, {(x, 'F') for x in w_e})
        ctx.ob(rule, 'check_model: an overlap between an XSD 1.1 wildcard and an element declaration is not reported as an error', f.loc(r.ast), ok,
               '' if ok else 'the report is reachable without both wildcard-versus-element tests being false: XSD 1.1 schemas that rely on the element '
               'taking precedence over the wildcard fail to build', key=f'check_model|upa-not-for-11-wildcard|{r.ast.lineno - f.node.lineno > 70}')
    # the precedence is recorded on the wildcard, for the element, in this group
    pre = call_nodes(g, lambda c: isinstance(c.func, ast.Attribute) and c.func.attr == 'add_precedence')
    ctx.floor(rule, 'precedence registrations', len(pre), 4)
    for n, c in pre:
        recv, arg = text(c.func.value), text(c.args[0]) if c.args else ''
        t = w_pe if recv == 'pe' else w_e
        ok = {recv, arg} == {'pe', 'e'} and iteration_requires(g, inner, n, {(x, 'T') for x in t}) and len(c.args) == 2 and text(c.args[1]) == 'group'
        ctx.ob(rule, f'check_model: `{text(c)}` gives the element precedence over the wildcard that competes with it', f.loc(c), ok, '',
               key=f'check_model|precedence|{recv}|{n.lineno - f.node.lineno > 70}')
    # distinguishable pairs are not errors
    dp = call_nodes(g, lambda c: text(c.func) == 'distinguishable_paths')
    ok = len(dp) == 1 and [text(a) for a in dp[0][1].args] == ['previous_path + [pe]', 'current_path + [e]']
    ctx.ob(rule, 'check_model: the deterministic-separation test receives the two complete paths (group chain + leaf)', f.loc(dp[0][1]) if dp else f.loc(), ok, '',
           key='check_model|distinguishable-args')
    if dp:
        last = [r for r in upa if r.ast.lineno > dp[0][0].lineno]
        ok = bool(last) and all(iteration_requires(g, inner, r, {(dp[0][0], 'F')}) for r in last)
        ctx.ob(rule, 'check_model: the UPA report is behind a failed separation test', f.loc(dp[0][1]), ok, '', key='check_model|upa-behind-separation')
    ctx.explain(f'{rule}: within one iteration of the inner loop the overlap/UPA reports are reachable only through the False edges of both '
                'wildcard-versus-element tests; the True edges lead to add_precedence(element, group) on the wildcard.')


def rule_e(ctx: Ctx) -> None:
    rule = 'C15.e'
    f = ctx.idx.method('xmlschema.validators.elements.XsdElement', 'is_consistent')
    rets = [r.value for r in ast.walk(f.node) if isinstance(r, ast.Return) and r.value is not None]
    ok = len(rets) == 1 and isinstance(rets[0], ast.BoolOp) and isinstance(rets[0].op, ast.Or) and \
        {text(v) for v in rets[0].values} in ({'self.name != other.name', 'self.type is other.type'}, {'other.name != self.name', 'other.type is self.type'})
    ctx.ob(rule, 'XsdElement.is_consistent: same name implies the same type definition', f.loc(), ok, '' if ok else f'{[text(r) for r in rets]}', key='XsdElement.is_consistent')
    w = ctx.idx.method('xmlschema.validators.wildcards.Xsd11AnyElement', 'is_matching')
    g = cfg_of(ctx, w)
    tests = [n for n in g.nodes if n.kind == 'if' and text(n.ast.test) == 'group in self.precedences']
    ok = len(tests) == 1
    if ok:
        fr = [n for n in g.nodes if n.kind == 'return' and isinstance(n.ast.value, ast.Constant) and n.ast.value.value is False
              and ('group in self.precedences', 'T') in guards(ctx, w, n)]
        ok = len(fr) >= 1 and any('self.precedences[group]' in t for n in fr for t, lab in guards(ctx, w, n))
    ctx.ob(rule, 'Xsd11AnyElement.is_matching: a name taken by an element that has precedence in this group is not matched by the wildcard', w.loc(), ok, '',
           key='Xsd11AnyElement.is_matching|precedence')
    ctx.explain('C15.e: shape of the element consistency predicate; the XSD 1.1 wildcard refuses names of the elements registered as '
                'having precedence over it in the group.')


def rule_f(ctx: Ctx) -> None:
    """Element against wildcard: the element declaration the wildcard resolves the name to is compared *leniently* (strict=False:
    a different type is a type-table warning, the element particle wins) - from both sides, whichever of the two particles
    check_model meets first."""
    rule = 'C15.f'
    n = 0
    for cq in ('xmlschema.validators.wildcards.Xsd11AnyElement', 'xmlschema.validators.elements.Xsd11Element'):
        c = ctx.idx.cls(cq)
        f = c.methods.get('is_consistent')
        if f is None:
            raise AnalysisError(f'missing anchor {cq}.is_consistent')
        ctx.analysed(f.qualname)
        # the resolved declaration: bound from <wildcard>.match(…, resolve=True)
        res = {text(s.targets[0]) for s in walk_no_nested(f.node) if isinstance(s, ast.Assign) and isinstance(s.value, ast.Call)
               and isinstance(s.value.func, ast.Attribute) and s.value.func.attr == 'match' and any(k.arg == 'resolve' for k in s.value.keywords)}
        for cl in calls(f.node):
            if isinstance(cl.func, ast.Attribute) and cl.func.attr == 'is_consistent' and cl.args and text(cl.args[0]) in res:
                n += 1
                st = next((k.value for k in cl.keywords if k.arg == 'strict'), cl.args[1] if len(cl.args) > 1 else None)
                ok = isinstance(st, ast.Constant) and st.value is False
                ctx.ob(rule, f'{c.name}.is_consistent: the declaration a wildcard resolves the name to is compared with strict=False', f.loc(cl), ok,
                       '' if ok else f'`{text(cl)}`: with the default strict=True an element whose name is also a global element of another type is an EDC error as soon as a '
                       'lax/strict wildcard follows it - a deterministic XSD 1.1 model is rejected (and the verdict depends on which particle comes first)',
                       key=f'{c.name}.is_consistent|lenient-through-wildcard')
    ctx.floor(rule, 'consistency tests through a wildcard', n, 2)
    ctx.explain('C15.f: sibling agreement of Xsd11Element.is_consistent and Xsd11AnyElement.is_consistent on the strict=False argument of '
                'the comparison with the wildcard-resolved declaration.')


def _swap12(t: str) -> str:
    import re
    return re.sub(r'\b(path|univocal|before|after|idx)([12])\b', lambda m: m.group(1) + ('2' if m.group(2) == '1' else '1'), t)


def _alpha(loop: ast.AST) -> str:
    """source of the loop with the names it binds itself (other than the 1/2 families) replaced by position numbers."""
    import copy
    import re
    fam = re.compile(r'^(path|univocal|before|after|idx)[12]$')
    t = copy.deepcopy(loop)
    order = []
    for x in ast.walk(t):
        if isinstance(x, ast.Name) and isinstance(x.ctx, ast.Store) and not fam.match(x.id) and x.id not in order:
            order.append(x.id)
    m = {n: f'_v{i}' for i, n in enumerate(order)}
    for x in ast.walk(t):
        if isinstance(x, ast.Name) and x.id in m:
            x.id = m[x.id]
    return ast.unparse(t)


def rule_g(ctx: Ctx) -> None:
    """distinguishable_paths(path1, path2): the two paths are treated alike, and the siblings of the on-path child are split into
    those strictly before and those strictly after it - the child itself is on neither side."""
    rule = 'C15.g'
    f = ctx.idx.func('xmlschema.validators.models.distinguishable_paths')
    ctx.analysed(f.qualname)
    # 1. the loop over the nested groups of path1 and the loop over those of path2 are the same code under 1<->2
    loops = [s for s in f.node.body if isinstance(s, ast.For) and isinstance(s.iter, ast.Call) and text(s.iter.func) == 'range' and 'len(path' in text(s.iter)]
    ctx.floor(rule, 'loops over the nested groups of a path', len(loops), 2)
    if len(loops) == 2:
        a, b = (_alpha(x) for x in loops)
        ok = _swap12(a) == b
        det = ''
        if not ok:
            la, lb = _swap12(a).split('\n'), b.split('\n')
            d = next(((x, y) for x, y in zip(la, lb) if x != y), (la[-1], lb[-1]))
            det = f'the two paths are treated differently: `{d[0].strip()[:80]}` for path1 against `{d[1].strip()[:80]}` for path2 - a pair (p, q) of competing particles ' \
                  'is then judged by another rule than the pair (q, p), e.g. ((a{1,2}), a) is accepted as deterministic'
        ctx.ob(rule, 'distinguishable_paths: the loops over path1 and path2 agree under the exchange 1<->2', f.loc(loops[0]), ok, det, key='distinguishable_paths|symmetry-loops')
    # 2. every sibling slice is strictly before or strictly after the on-path child
    idx_defs = {}
    for x in ast.walk(f.node):
        if isinstance(x, ast.Assign) and len(x.targets) == 1 and isinstance(x.targets[0], ast.Name) and isinstance(x.value, ast.Call) \
                and isinstance(x.value.func, ast.Attribute) and x.value.func.attr == 'index':
            idx_defs.setdefault(x.targets[0].id, []).append((text(x.value.func.value), text(x.value.args[0]) if x.value.args else ''))
    n = 0
    for x in ast.walk(f.node):
        if not isinstance(x, ast.GeneratorExp):
            continue
        it = x.generators[0].iter
        if not (isinstance(it, ast.Subscript) and isinstance(it.slice, ast.Slice) and text(it.value).startswith('path')):
            continue
        n += 1
        lo, hi = it.slice.lower, it.slice.upper
        seq = text(it.value)
        def is_idx(e):
            return isinstance(e, ast.Name) and e.id in idx_defs
        def is_idx_plus_1(e):
            return isinstance(e, ast.BinOp) and isinstance(e.op, ast.Add) and is_idx(e.left) and isinstance(e.right, ast.Constant) and e.right.value == 1
        before = lo is None and hi is not None and is_idx(hi)
        after = lo is not None and is_idx_plus_1(lo) and (hi is None or is_idx(hi))
        ok = before or after
        # the index was taken in the sliced sequence (or in the same group reached through the other path: path1[depth] is path2[depth])
        names = [e.id for e in (hi, getattr(lo, 'left', None)) if isinstance(e, ast.Name)]
        import re
        same_seq = all(any(re.sub(r'path[12]', 'path', sq) == re.sub(r'path[12]', 'path', seq) for sq, _ in idx_defs.get(nm, [])) for nm in names)
        ctx.ob(rule, f'distinguishable_paths: `{seq}[{text(it.slice)}]` lies strictly before or strictly after the on-path child', f.loc(x), ok and same_seq,
               '' if ok and same_seq else ('the slice includes the on-path child itself: a particle that is not emptiable then counts as "a required particle after itself" and an '
                                           'ambiguous pair such as ((a{1,2}), a) is declared distinguishable' if not ok else 'the index was computed in another sequence'),
               key=f'distinguishable_paths|slice|{seq}|{"before" if lo is None else "after"}|{text(it.slice)}')
    ctx.floor(rule, 'sibling slices in distinguishable_paths', n, 7)
    # 3. the verdict for a repeated sequence is the conjunction of one condition and its 1<->2 mirror; the choice branch mirrors its two one-sided cases
    rets = [r for r in ast.walk(f.node) if isinstance(r, ast.Return) and isinstance(r.value, ast.BoolOp) and isinstance(r.value.op, ast.And) and len(r.value.values) == 2
            and 'before2 or' in text(r.value.values[0]) and 'before1 or' in text(r.value.values[1])]
    ok = len(rets) == 1 and _swap12(text(rets[0].value.values[0])) == text(rets[0].value.values[1])
    ctx.ob(rule, 'distinguishable_paths: for a repeatable sequence both directions are required and are mirror images', f.loc(rets[0]) if rets else f.loc(), ok, '',
           key='distinguishable_paths|symmetry-verdict')
    one = [r for r in ast.walk(f.node) if isinstance(r, ast.Return) and r.value is not None and 'is_univocal() or after' in text(r.value) and '.max_occurs == 1' in text(r.value)]
    ok = len(one) == 2 and _swap12(text(one[0].value)) == text(one[1].value)
    ctx.ob(rule, 'distinguishable_paths: the two one-sided cases of a choice/all group are mirror images', f.loc(one[0]) if one else f.loc(), ok, '',
           key='distinguishable_paths|symmetry-choice')
    ctx.explain('C15.g: sibling agreement inside distinguishable_paths - the code for path1 and the code for path2 are compared after exchanging the suffixes 1 and 2; '
                'every slice over the siblings of the on-path child has the form [:idx] or [idx + 1:…] with idx taken by .index() in the same group. '
                'That these conditions separate exactly the deterministic pairs is not decided.')


# reviewed shortcuts of the comparison loop (atom, value on the edge): `pe is e` True - the same particle reached twice; `pe.is_overlap(e)` False - no name is
# matched by both; `pe.is_univocal()` True for siblings of a sequence, only together with `pe.parent.max_occurs == 1` - the sequence cannot start over


def rule_h(ctx: Ctx) -> None:
    """Two overlapping leaves leave the inner loop of check_model without the path comparison only through reviewed shortcuts; the
    'univocal sibling' shortcut is valid only for a sequence that occurs at most once - in (a, a?)* the third `a` of `a a a` may be the
    optional second particle or the first particle of the next round."""
    rule = 'C15.h'
    from .common import atom_forces, bool_atoms
    f = ctx.idx.func(f'{MODELS}.check_model')
    ctx.analysed(f.qualname)
    g = cfg_of(ctx, f)
    inner = _memory_loop(g)
    dp = [n for n, c in call_nodes(g, lambda c: text(c.func) == 'distinguishable_paths')]
    conts = [n for n in g.nodes if n.kind == 'continue' and any(n.ast is x for x in ast.walk(inner.ast))]
    ctx.floor(rule, '`continue` statements of the comparison loop', len(conts), 3)
    k = 0
    for c in conts:
        dpt = [x for x in g.nodes if x.kind == 'if' and text(x.ast.test).startswith('distinguishable_paths(')]
        if dpt and iteration_requires(g, inner, c, {(x, 'T') for x in dpt}):
            ctx.ob(rule, 'check_model: the pair is skipped because the paths are distinguishable', f.loc(c.ast), True, '', key='check_model|skip|distinguishable', nontrivial=False)
            continue
        k += 1
        # the innermost test whose true edge leads here
        own = [x for x in g.nodes if x.kind == 'if' and any(m is c for m, lab in g.succ[x] if lab == 'T')]
        if not own:
            ctx.ob(rule, f'check_model: `continue` at line {c.lineno} is a reviewed shortcut', f.loc(c.ast), False, 'not directly behind a test', key=f'check_model|skip|{k}')
            continue
        t = own[0].ast.test
        atoms = bool_atoms(t)
        import itertools
        from .common import bool_eval
        same = [x for x in g.nodes if x.kind == 'if' and text(x.ast.test) == 'pe.parent is e.parent and pe.parent is not None']
        siblings = bool(same) and iteration_requires(g, inner, c, {(x, 'T') for x in same})
        ok, det, used = len(atoms) <= 8, '', set()
        for bits in itertools.product((False, True), repeat=len(atoms)) if ok else ():
            env = dict(zip(atoms, bits))
            if not bool_eval(t, env):
                continue
            if env.get('pe is e') is True:
                used.add('pe is e')
            elif env.get('pe.is_overlap(e)') is False:
                used.add('not pe.is_overlap(e)')
            elif env.get('pe.is_univocal()') is True and siblings and env.get('pe.parent.max_occurs == 1') is True:
                used.add('pe.is_univocal()')
            else:
                ok = False
                if env.get('pe.is_univocal()') is True and siblings:
                    det = ('the univocal-sibling shortcut is taken for a sequence that can occur again: (a, a?)* is accepted although the third `a` of `a a a` is '
                           'either the optional particle of this round or the first particle of the next')
                else:
                    det = f'`{text(t)[:80]}` skips the path comparison of two overlapping particles when ' + \
                          ', '.join(f'{k_} is {v_}' for k_, v_ in env.items()) + ': not a reviewed shortcut'
                break
        ctx.ob(rule, f'check_model: `continue` behind `{text(t)[:60]}` is a reviewed shortcut', f.loc(c.ast), ok, det,
               key=f'check_model|skip|{"+".join(sorted(a_ for a_ in atoms if a_ in ("pe is e", "pe.is_overlap(e)", "pe.is_univocal()"))) or k}')
    # nothing else leaves an iteration early: every other way to the loop head passes the path comparison or a precedence registration
    ctx.ob(rule, 'check_model: the path comparison is present', f.loc(dp[0].ast) if dp else f.loc(), len(dp) == 1, '', key='check_model|comparison')
    ctx.explain('C15.h: every `continue` of the comparison loop is behind distinguishable_paths(…) or behind a test made only of reviewed shortcut atoms; the univocal-sibling '
                'atom must be conjoined with `pe.parent.max_occurs == 1` (truth table) under the same-parent guard.')


def rule_i(ctx: Ctx, rule: str = 'C15.i') -> None:
    """Sibling implementations of is_overlap (XSD 1.0 and 1.1 element particles): two element particles compete when they have the
    same name or when one can be substituted for the other through any number of substitution-group steps - in both directions;
    against a wildcard the members of the element's substitution group count too."""
    n = 0
    for cq in ('xmlschema.validators.elements.XsdElement', 'xmlschema.validators.elements.Xsd11Element'):
        c = ctx.idx.cls(cq)
        f = c.methods.get('is_overlap')
        if f is None:
            raise AnalysisError(f'missing anchor {cq}.is_overlap')
        n += 1
        ctx.analysed(f.qualname)
        g = cfg_of(ctx, f)
        accept = [r for r in g.nodes if r.kind == 'return' and isinstance(r.ast.value, ast.Constant) and r.ast.value.value is True]
        el = [r for r in accept if ('isinstance(other, XsdElement)', 'T') in guards(ctx, f, r)]
        conds = ' ## '.join(t for r in el for t, lab in guards(ctx, f, r) if lab == 'T')
        loops = ' ## '.join(text(x.ast.iter) for x in g.nodes if x.kind == 'for')
        both = conds + ' ## ' + loops
        ok_name = 'self.name == other.name' in conds or 'other.name == self.name' in conds
        ctx.ob(rule, f'{c.name}.is_overlap: same name competes', f.loc(), ok_name, '', key=f'{c.name}.is_overlap|name')
        pairs = set()
        scopes = []     # (variable, iterated expression, subtree in which the variable is bound)
        for x in ast.walk(f.node):
            if isinstance(x, (ast.GeneratorExp, ast.ListComp, ast.SetComp)):
                for gen in x.generators:
                    if isinstance(gen.target, ast.Name):
                        scopes.append((gen.target.id, text(gen.iter), x))
            elif isinstance(x, ast.For) and isinstance(x.target, ast.Name):
                scopes.append((x.target.id, text(x.iter), x))
        for var, it, sub in scopes:
            for x in ast.walk(sub):
                if isinstance(x, ast.Compare) and len(x.ops) == 1 and isinstance(x.ops[0], ast.Eq):
                    a_, b_ = text(x.left), text(x.comparators[0])
                    for p_, q_ in ((a_, b_), (b_, a_)):
                        if p_ in ('self.name', 'other.name') and q_ == f'{var}.name':
                            pairs.add((p_, it))
        for side, who in (('other.iter_substitutes()', 'the other particle is a head whose (nested) substitution group contains this element'),
                          ('self.iter_substitutes()', 'this particle is a head whose (nested) substitution group contains the other element')):
            me = 'self.name' if side.startswith('other') else 'other.name'
            ok = (me, side) in pairs
            ctx.ob(rule, f'{c.name}.is_overlap: {who}', f.loc(), ok,
                   '' if ok else f'`{side}` is not consulted: only the direct substitution group is compared, so with n -> m -> h the model (ref h?, ref n) is accepted '
                   'although <n/> is attributable to both particles', key=f'{c.name}.is_overlap|closure|{side.split(".")[0]}')
        wl = [r for r in accept if ('isinstance(other, XsdAnyElement)', 'T') in guards(ctx, f, r)]
        # the members are taken from the recursive closure (iter_substitutes), not from the direct group only
        ok = len(wl) >= 2 and 'self.iter_substitutes()' in loops
        direct_only = 'self.maps.substitution_groups.get(self.name, ())' in loops and 'self.iter_substitutes()' not in loops
        ctx.ob(rule, f'{c.name}.is_overlap: against a wildcard the members of the (nested) substitution group count', f.loc(), ok,
               '' if ok else ('only the direct members are tried: with m2 -> m1 -> head and sequence(any{0,1} notQName="head m1", head) the element particle gets no precedence '
                              'for m2, the wildcard consumes <m2/> and the content is reported incomplete' if direct_only else 'the members of the substitution group are not tried'),
               key=f'{c.name}.is_overlap|wildcard-members')
    ctx.floor(rule, 'is_overlap implementations of element particles', n, 2)
    # the closure really is transitive: iter_substitutes recurses
    for cq in ('xmlschema.validators.elements.XsdElement', 'xmlschema.validators.elements.Xsd11Element'):
        c = ctx.idx.cls(cq)
        f = c.methods.get('iter_substitutes') or c.find_method('iter_substitutes')
        rec = [cl for cl in calls(f.node) if isinstance(cl.func, ast.Attribute) and cl.func.attr == 'iter_substitutes']
        ctx.ob(rule, f'{c.name}.iter_substitutes descends into the groups of the members', f.loc(), bool(rec), '', key=f'{c.name}.iter_substitutes|recursive')
    ctx.explain(f'{rule}: sibling agreement of XsdElement.is_overlap and Xsd11Element.is_overlap: accepting returns of the element branch are conditioned on name equality and on '
                'iter_substitutes() of both operands (the recursive closure).')


def rule_j(ctx: Ctx) -> None:
    """EDC compares the two declarations that actually compete - self or the member of its substitution group named like the other, and
    vice versa.  A variable that holds such a declaration must not double as the target of the search loop: when the loop runs to
    exhaustion it is left bound to the last member tried, not to the default, and the comparison is made with an unrelated element."""
    rule = 'C15.j'
    n = 0
    for cq in ('xmlschema.validators.elements.XsdElement', 'xmlschema.validators.elements.Xsd11Element'):
        c = ctx.idx.cls(cq)
        f = c.methods.get('is_consistent')
        if f is None:
            continue
        ctx.analysed(f.qualname)
        g = cfg_of(ctx, f)
        rd = g.reaching_defs(kinds='nTF')
        for x in g.nodes:
            for e in (x.exprs or ([x.ast] if x.kind in ('stmt', 'return') else [])):
                for cmp_ in [y for y in ast.walk(e) if isinstance(y, ast.Compare) and any(isinstance(z, ast.Attribute) and z.attr in ('type', 'alternatives') for z in ast.walk(y))]:
                    for nm_ in {z.value.id for z in ast.walk(cmp_) if isinstance(z, ast.Attribute) and z.attr in ('type', 'alternatives') and isinstance(z.value, ast.Name)
                                and z.value.id not in ('self', 'other')}:
                        n += 1
                        # a loop header is a harmful definition only if the comparison is reachable after the loop ran to exhaustion
                        loop_defs = [d for d in rd[x].get(nm_, set()) if d.kind == 'for'
                                     and x in g.reachable([m for m, lab in g.succ[d] if lab == 'F'], kinds='nTF')]
                        ok = not loop_defs
                        ctx.ob(rule, f'{c.name}.is_consistent: `{nm_}` in `{text(cmp_)[:50]}` is never the leftover of a search loop', f.loc(cmp_), ok,
                               '' if ok else f'`{nm_}` is the target of the loop at line {loop_defs[0].lineno}: when no member matches, it stays bound to the last member tried - '
                               'sequence(ref h2, ref h1) with m:D in the substitution group of h1 is rejected with a false Element Declarations Consistent error (XSD 1.1)',
                               key=f'{c.name}.is_consistent|no-loop-leftover|{nm_}|{text(cmp_)[:30]}')
    ctx.floor(rule, 'declarations compared by is_consistent', n, 2)
    ctx.explain('C15.j: reaching definitions - no `for` header is among the definitions of a variable whose .type / .alternatives is compared in is_consistent.')


def rule_k(ctx: Ctx) -> None:
    """Two wildcards compete (Unique Particle Attribution) exactly when the namespace sets they denote share a namespace: the overlap test of
    XsdAnyElement against another wildcard, folded per pair of constraint kinds, must state that intersection - C16.d body.  `##other` against a list
    overlaps when the list names *some* namespace outside {absent, target}, not only when it names none of the excluded ones."""
    from .c16 import rule_d as wildcard_overlap_table
    wildcard_overlap_table(ctx, 'C15.k')


def rule_l(ctx: Ctx) -> None:
    """The walk of check_model meets the *same particle object* twice when a named group is referenced twice (the references share the group's
    particles).  The two occurrences compete like any two particles with the same name - `(ref g)?, ref g` with g = (a) is `a?, a` - so identity of
    the leaves is no reason to skip the comparison of their paths."""
    rule = 'C15.l'
    from .common import bool_atoms, bool_eval
    import itertools
    f = ctx.idx.func(f'{MODELS}.check_model')
    ctx.analysed(f.qualname)
    g = cfg_of(ctx, f)
    inner = _memory_loop(g)
    conts = [n for n in g.nodes if n.kind == 'continue' and any(n.ast is x for x in ast.walk(inner.ast))]
    n = 0
    for c in conts:
        own = [x for x in g.nodes if x.kind == 'if' and any(m_ is c for m_, lab in g.succ[x] if lab == 'T')]
        if not own:
            continue
        t = own[0].ast.test
        atoms = bool_atoms(t)
        ident = [a for a in atoms if a.replace(' ', '') in ('peise', 'eispe')]
        if not ident:
            continue
        n += 1
        # is the pair skipped *because of* identity, although the particles overlap?
        skips = False
        for bits in itertools.product((False, True), repeat=len(atoms)):
            env = dict(zip(atoms, bits))
            if env[ident[0]] and env.get('pe.is_overlap(e)', True) and bool_eval(t, env):
                skips = True
        ctx.ob(rule, 'check_model: two occurrences of a shared particle (a named group referenced twice) are compared like any overlapping pair', f.loc(c.ast), not skips,
               '' if not skips else f'`{text(t)[:60]}` skips the pair when `{ident[0]}`: the particles of a group referenced twice are the same objects, so (ref g)?, ref g and '
               '(ref g)*, ref g and (ref g | ref g) with g = (a) are accepted although a?, a is refused as a Unique Particle Attribution violation',
               key='check_model|identity-skip')
    ctx.note(f'{rule}: {n} identity shortcut(s) in the comparison loop of check_model')
    ctx.ob(rule, 'check_model: the comparison loop was found', f.loc(inner.ast), inner is not None, '', key='check_model|loop', nontrivial=False)
    ctx.explain('C15.l: truth table of the test behind each `continue` of the comparison loop - no assignment with `pe is e` true and `pe.is_overlap(e)` true may take the shortcut.')


RULES = [rule_a, rule_b, rule_c, rule_d, rule_e, rule_f, rule_g, rule_h, rule_i, rule_j, rule_k, rule_l]
