"""C15 — schema build accepts a content model exactly when it is deterministic (structural clauses).

C15.a every complex content model is checked after the build; a model error fails a strict build and is kept otherwise
C15.b the checker compares each leaf particle with every remembered leaf and remembers paths by copy
C15.c EDC: the inconsistency report depends on the consistency test alone and comes before the overlap shortcut
C15.d UPA: an element competing with an XSD 1.1 wildcard is given precedence instead of being an error
C15.e what 'consistent' means for two element particles; where the 1.1 wildcard honours the precedence

Not decided: that distinguishable_paths separates exactly the deterministic pairs (occurrence ranges over runtime particle
graphs) - the quoted misses, e.g. (a, c+, a*)+ accepted, are in that function.
"""
from __future__ import annotations

import ast

from ..astutil import calls, text, walk_no_nested
from ..index import AnalysisError
from ..report import Ctx
from .common import call_nodes, cfg_of, guards, iteration_requires, reach_cut

MODELS = 'xmlschema.validators.models'


def rule_a(ctx: Ctx) -> None:
    rule = 'C15.a'
    f = ctx.idx.func('xmlschema.validators.xsd_globals.XsdGlobals.check')
    g = cfg_of(ctx, f)
    cm = call_nodes(g, lambda c: text(c.func) == 'check_model')
    ctx.floor(rule, 'check_model calls in XsdGlobals.check', len(cm), 1)
    for n, c in cm:
        ok = [text(a) for a in c.args] == ['xsd_type.content']
        ctx.ob(rule, 'XsdGlobals.check: the content model of the complex type is what is checked', f.loc(c), ok, text(c), key='check|argument', nontrivial=False)
        # within one iteration over the complex types: the only way around the call is a content that is not a model group
        loops = [x for x in g.nodes if x.kind == 'for' and 'iter_components(XsdComplexType)' in text(x.ast.iter)]
        if len(loops) != 1:
            raise AnalysisError(f'{rule}: expected one loop over iter_components(XsdComplexType) in {f.qualname}')
        head = loops[0]
        skip = {(x, 'T') for x in g.nodes if x.kind == 'if' and text(x.ast.test) == 'not isinstance(xsd_type.content, XsdGroup)'} | \
               {(x, 'F') for x in g.nodes if x.kind == 'if' and text(x.ast.test) == 'isinstance(xsd_type.content, XsdGroup)'}
        starts = [m for m, lab in g.succ[head] if lab == 'T']
        # every path of an iteration that comes back to the loop head passed the call (or the not-a-group exit)
        back = reach_cut(g, starts, skip, avoid=[n], kinds='nTF')
        ok = bool(skip) and head not in back
        ctx.ob(rule, 'XsdGlobals.check: every complex type with a model group content reaches check_model (no other way to the next type)', f.loc(c), ok,
               '' if ok else 'an iteration can finish without check_model: a non-deterministic model of such a type is accepted', key='check|every-type')
    # the handler: strict -> re-raise; otherwise recorded on the type (never dropped)
    hs = [h for t in ast.walk(f.node) if isinstance(t, ast.Try) and any(text(cc.func) == 'check_model' for b in t.body for cc in calls(b))
          for h in t.handlers if h.type is not None and 'XMLSchemaModelError' in text(h.type)]
    ok = False
    if len(hs) == 1:
        h = hs[0]
        body = h.body
        ok = len(body) == 2 and isinstance(body[0], ast.If) and text(body[0].test) in ("self.validation == 'strict'",) \
            and len(body[0].body) == 1 and isinstance(body[0].body[0], ast.Raise) and body[0].body[0].exc is None and not body[0].orelse \
            and text(body[1]) == f'xsd_type.errors.append({h.name})'
    ctx.ob(rule, "XsdGlobals.check: a model error fails the build under strict validation and is recorded on the type otherwise", f.loc(hs[0]) if hs else f.loc(), ok,
           '' if ok else 'the XMLSchemaModelError raised by check_model is swallowed or downgraded', key='check|handler')
    ctx.explain('C15.a: edge-cut reachability within one iteration over the complex types (only the not-a-model-group exit bypasses '
                'check_model) and the shape of the handler around the call.')


def rule_b(ctx: Ctx) -> None:
    rule = 'C15.b'
    f = ctx.idx.func(f'{MODELS}.check_model')
    g = cfg_of(ctx, f)
    outer = [n for n in g.nodes if n.kind == 'for' and text(n.ast.iter) == 'safe_iter_path()']
    inner = [n for n in g.nodes if n.kind == 'for' and text(n.ast.iter) == 'paths.values()']
    if len(outer) != 1 or len(inner) != 1:
        raise AnalysisError(f'{rule}: expected `for e in safe_iter_path()` with one nested `for … in paths.values()` in {f.qualname}')
    o, i = outer[0], inner[0]
    ok = any(i.ast is x for b in o.ast.body for x in ast.walk(b))
    ctx.ob(rule, 'check_model: each leaf particle is compared with every leaf remembered so far (nested loops)', f.loc(i.ast), ok, '', key='check_model|all-pairs',
           nontrivial=False)
    stores = [n for n in g.nodes if n.kind == 'stmt' and isinstance(n.ast, ast.Assign) and isinstance(n.ast.targets[0], ast.Subscript)
              and text(n.ast.targets[0].value) == 'paths']
    ctx.floor(rule, 'stores into the table of visited leaves', len(stores), 1)
    for s in stores:
        # every iteration of the outer loop that completes normally stores the leaf (a `continue` of the inner loop must not skip it)
        starts = [m for m, lab in g.succ[o] if lab == 'T']
        back = reach_cut(g, starts, set(), avoid=[s], kinds='nTF')
        ok = o not in back
        ctx.ob(rule, 'check_model: every leaf that passed the comparisons is remembered for the following leaves', f.loc(s.ast), ok,
               '' if ok else 'an iteration can finish without storing the leaf: later particles are not compared with it', key='check_model|store-every-leaf')
        v = s.ast.value
        elts = v.elts if isinstance(v, ast.Tuple) else [v]
        snap = [e for e in elts if 'current_path' in text(e)]
        ok = bool(snap) and all(isinstance(e, ast.Subscript) and isinstance(e.slice, ast.Slice) or
                                (isinstance(e, ast.Call) and text(e.func) in ('list', 'tuple', 'copy') and len(e.args) == 1) or
                                (isinstance(e, ast.Call) and isinstance(e.func, ast.Attribute) and e.func.attr == 'copy') for e in snap)
        ctx.ob(rule, 'check_model: the path to a leaf is remembered by copy (the walker keeps appending to and popping from current_path)', f.loc(s.ast), ok,
               '' if ok else f'`{text(v)[:60]}` stores the live list: every remembered path then equals the current one and distinguishable_paths compares a path '
               'with itself', key='check_model|path-copy')
    # the walker mutates current_path in place
    w = ctx.idx.functions.get(f'{f.qualname}.<locals>.safe_iter_path') or next((x for q, x in ctx.idx.functions.items() if q.startswith(f.qualname) and q.endswith('safe_iter_path')), None)
    if w is None:
        raise AnalysisError(f'missing anchor {f.qualname}.safe_iter_path')
    muts = [c for c in calls(w.node) if isinstance(c.func, ast.Attribute) and text(c.func.value) == 'current_path' and c.func.attr in ('append', 'pop')]
    ctx.ob(rule, 'safe_iter_path keeps the current path by appending and popping groups', w.loc(), len(muts) >= 2, '', key='safe_iter_path|live', nontrivial=False)
    ctx.explain('C15.b: nested loop structure, the store into `paths` lies on every completing iteration of the outer loop, and the '
                'stored path is a copy of the live list.')


def rule_c(ctx: Ctx) -> None:
    rule = 'C15.c'
    f = ctx.idx.func(f'{MODELS}.check_model')
    g = cfg_of(ctx, f)
    inner = [n for n in g.nodes if n.kind == 'for' and text(n.ast.iter) == 'paths.values()'][0]
    raises = [n for n in g.nodes if n.kind == 'raise' and 'XMLSchemaModelError' in text(n.ast.exc)]
    ctx.floor(rule, 'model errors raised by check_model', len(raises), 3)
    edc = []
    for r in raises:
        # which message does it raise?
        msgs = sorted((s for s in walk_no_nested(f.node) if isinstance(s, ast.Assign) and text(s.targets[0]) == 'msg' and s.lineno < r.ast.lineno),
                      key=lambda s: s.lineno)
        blk_msg = text(msgs[-1].value) if msgs else ''
        if 'Element Declarations Consistent' in blk_msg:
            edc.append(r)
    ctx.floor(rule, 'EDC reports', len(edc), 1)
    tests = [(text(x.ast.test), x) for x in g.nodes if x.kind == 'if']
    for r in edc:
        need = [x for t, x in tests if 'is_consistent(pe)' in t and t.startswith('not e.is_consistent(pe)')]
        ok = len(need) == 1 and iteration_requires(g, inner, r, {(need[0], 'T')})
        # and nothing else inside the iteration decides it
        if ok:
            others = [x for t, x in tests if x is not need[0]]
            ok = not any(iteration_requires(g, inner, r, {(x, 'T')}) or iteration_requires(g, inner, r, {(x, 'F')}) for x in others)
        ctx.ob(rule, 'check_model: two particles that match the same name with different types are always an error (no other condition on the path)',
               f.loc(r.ast), ok, '' if ok else 'the EDC report is skipped for some pairs (e.g. only when the particles overlap, or only for siblings)',
               key='check_model|edc-unconditional')
        t = need[0].ast.test if need else None
        ok = t is not None and isinstance(t, ast.BoolOp) and isinstance(t.op, ast.Or) and text(t.values[0]) == 'not e.is_consistent(pe)'
        ctx.ob(rule, 'check_model: the open-content wildcard of the type is part of the consistency test', f.loc(r.ast),
               ok and any('any_element' in text(v) and 'is_consistent(pe)' in text(v) for v in t.values[1:]), '', key='check_model|edc-open-content')
    ctx.explain('C15.c: the raise of the EDC error is, within one iteration of the inner loop, behind the True edge of the consistency '
                'test and behind no other test (edge-cut reachability).')


def rule_d(ctx: Ctx) -> None:
    rule = 'C15.d'
    f = ctx.idx.func(f'{MODELS}.check_model')
    g = cfg_of(ctx, f)
    inner = [n for n in g.nodes if n.kind == 'for' and text(n.ast.iter) == 'paths.values()'][0]
    raises = [n for n in g.nodes if n.kind == 'raise' and 'XMLSchemaModelError' in text(n.ast.exc)]
    tests = [(text(x.ast.test), x) for x in g.nodes if x.kind == 'if']
    w_pe = [x for t, x in tests if t == 'isinstance(pe, Xsd11AnyElement) and (not isinstance(e, XsdAnyElement))']
    w_e = [x for t, x in tests if t == 'isinstance(e, Xsd11AnyElement) and (not isinstance(pe, XsdAnyElement))']
    ctx.floor(rule, 'wildcard-versus-element tests', len(w_pe) + len(w_e), 2)
    upa = []
    for r in raises:
        # not the EDC raise: that one is behind the consistency test
        cons = [x for t, x in tests if t.startswith('not e.is_consistent(pe)')]
        if cons and iteration_requires(g, inner, r, {(cons[0], 'T')}):
            continue
        upa.append(r)
    ctx.floor(rule, 'UPA / overlap reports', len(upa), 2)
    for r in upa:
        ok = iteration_requires(g, inner, r, {(x, 'F') for x in w_pe}) and iteration_requires(g, inner, r, {(x, 'F') for x in w_e})
        ctx.ob(rule, 'check_model: an overlap between an XSD 1.1 wildcard and an element declaration is not reported as an error', f.loc(r.ast), ok,
               '' if ok else 'the report is reachable without both wildcard-versus-element tests being false: XSD 1.1 schemas that rely on the element '
               'taking precedence over the wildcard fail to build', key=f'check_model|upa-not-for-11-wildcard|{r.ast.lineno - f.node.lineno > 70}')
    # the precedence is recorded on the wildcard, for the element, in this group
    pre = call_nodes(g, lambda c: isinstance(c.func, ast.Attribute) and c.func.attr == 'add_precedence')
    ctx.floor(rule, 'precedence registrations', len(pre), 4)
    for n, c in pre:
        recv, arg = text(c.func.value), text(c.args[0]) if c.args else ''
        t = w_pe if recv == 'pe' else w_e
        ok = {recv, arg} == {'pe', 'e'} and iteration_requires(g, inner, n, {(x, 'T') for x in t}) and len(c.args) == 2 and text(c.args[1]) == 'group'
        ctx.ob(rule, f'check_model: `{text(c)}` gives the element precedence over the wildcard that competes with it', f.loc(c), ok, '',
               key=f'check_model|precedence|{recv}|{n.lineno - f.node.lineno > 70}')
    # distinguishable pairs are not errors
    dp = call_nodes(g, lambda c: text(c.func) == 'distinguishable_paths')
    ok = len(dp) == 1 and [text(a) for a in dp[0][1].args] == ['previous_path + [pe]', 'current_path + [e]']
    ctx.ob(rule, 'check_model: the deterministic-separation test receives the two complete paths (group chain + leaf)', f.loc(dp[0][1]) if dp else f.loc(), ok, '',
           key='check_model|distinguishable-args')
    if dp:
        last = [r for r in upa if r.ast.lineno > dp[0][0].lineno]
        ok = bool(last) and all(iteration_requires(g, inner, r, {(dp[0][0], 'F')}) for r in last)
        ctx.ob(rule, 'check_model: the UPA report is behind a failed separation test', f.loc(dp[0][1]), ok, '', key='check_model|upa-behind-separation')
    ctx.explain('C15.d: within one iteration of the inner loop the overlap/UPA reports are reachable only through the False edges of both '
                'wildcard-versus-element tests; the True edges lead to add_precedence(element, group) on the wildcard.')


def rule_e(ctx: Ctx) -> None:
    rule = 'C15.e'
    f = ctx.idx.method('xmlschema.validators.elements.XsdElement', 'is_consistent')
    rets = [r.value for r in ast.walk(f.node) if isinstance(r, ast.Return) and r.value is not None]
    ok = len(rets) == 1 and isinstance(rets[0], ast.BoolOp) and isinstance(rets[0].op, ast.Or) and \
        {text(v) for v in rets[0].values} in ({'self.name != other.name', 'self.type is other.type'}, {'other.name != self.name', 'other.type is self.type'})
    ctx.ob(rule, 'XsdElement.is_consistent: same name implies the same type definition', f.loc(), ok, '' if ok else f'{[text(r) for r in rets]}', key='XsdElement.is_consistent')
    w = ctx.idx.method('xmlschema.validators.wildcards.Xsd11AnyElement', 'is_matching')
    g = cfg_of(ctx, w)
    tests = [n for n in g.nodes if n.kind == 'if' and text(n.ast.test) == 'group in self.precedences']
    ok = len(tests) == 1
    if ok:
        fr = [n for n in g.nodes if n.kind == 'return' and isinstance(n.ast.value, ast.Constant) and n.ast.value.value is False
              and ('group in self.precedences', 'T') in guards(ctx, w, n)]
        ok = len(fr) >= 1 and any('self.precedences[group]' in t for n in fr for t, lab in guards(ctx, w, n))
    ctx.ob(rule, 'Xsd11AnyElement.is_matching: a name taken by an element that has precedence in this group is not matched by the wildcard', w.loc(), ok, '',
           key='Xsd11AnyElement.is_matching|precedence')
    ctx.explain('C15.e: shape of the element consistency predicate; the XSD 1.1 wildcard refuses names of the elements registered as '
                'having precedence over it in the group.')


def rule_f(ctx: Ctx) -> None:
    """Element against wildcard: the element declaration the wildcard resolves the name to is compared *leniently* (strict=False:
    a different type is a type-table warning, the element particle wins) - from both sides, whichever of the two particles
    check_model meets first."""
    rule = 'C15.f'
    n = 0
    for cq in ('xmlschema.validators.wildcards.Xsd11AnyElement', 'xmlschema.validators.elements.Xsd11Element'):
        c = ctx.idx.cls(cq)
        f = c.methods.get('is_consistent')
        if f is None:
            raise AnalysisError(f'missing anchor {cq}.is_consistent')
        ctx.analysed(f.qualname)
        # the resolved declaration: bound from <wildcard>.match(…, resolve=True)
        res = {text(s.targets[0]) for s in walk_no_nested(f.node) if isinstance(s, ast.Assign) and isinstance(s.value, ast.Call)
               and isinstance(s.value.func, ast.Attribute) and s.value.func.attr == 'match' and any(k.arg == 'resolve' for k in s.value.keywords)}
        for cl in calls(f.node):
            if isinstance(cl.func, ast.Attribute) and cl.func.attr == 'is_consistent' and cl.args and text(cl.args[0]) in res:
                n += 1
                st = next((k.value for k in cl.keywords if k.arg == 'strict'), cl.args[1] if len(cl.args) > 1 else None)
                ok = isinstance(st, ast.Constant) and st.value is False
                ctx.ob(rule, f'{c.name}.is_consistent: the declaration a wildcard resolves the name to is compared with strict=False', f.loc(cl), ok,
                       '' if ok else f'`{text(cl)}`: with the default strict=True an element whose name is also a global element of another type is an EDC error as soon as a '
                       'lax/strict wildcard follows it - a deterministic XSD 1.1 model is rejected (and the verdict depends on which particle comes first)',
                       key=f'{c.name}.is_consistent|lenient-through-wildcard')
    ctx.floor(rule, 'consistency tests through a wildcard', n, 2)
    ctx.explain('C15.f: sibling agreement of Xsd11Element.is_consistent and Xsd11AnyElement.is_consistent on the strict=False argument of '
                'the comparison with the wildcard-resolved declaration.')


RULES = [rule_a, rule_b, rule_c, rule_d, rule_e, rule_f]
