"""C07 — xsi:type, substitution, nil (structural clauses).

C07.a the xsi:type pipeline is complete on every path
C07.b nil acceptance path condition
C07.c blocking reads all three levels; abstract declarations are refused
"""
from __future__ import annotations

import ast

from ..astutil import calls, text, walk_no_nested
from ..index import AnalysisError
from ..report import Ctx
from .common import call_nodes, cfg_of, fixed_value_space_rule, guards, is_reporter_call, reporter_calls

ELEM = 'xmlschema.validators.elements.XsdElement'
DEC = f'{ELEM}.raw_decode'


def _truth(gs, pos_text, neg_text=None):
    """guard set contains the condition `pos_text` as true (or its negation as false)."""
    for t, lab in gs:
        if t == pos_text and lab == 'T':
            return True
        if neg_text is not None and t == neg_text and lab == 'F':
            return True
    return False


def rule_a(ctx: Ctx) -> None:
    rule = 'C07.a'
    f = ctx.idx.func(DEC)
    g = cfg_of(ctx, f)
    rd = g.reaching_defs(kinds='nTFxi')
    gi = call_nodes(g, lambda c: text(c.func) == 'self.maps.get_instance_type')
    ctx.floor(rule, 'get_instance_type call in XsdElement.raw_decode', len(gi), 1)
    dec = call_nodes(g, lambda c: text(c.func) == 'content_decoder.raw_decode')
    ctx.floor(rule, 'content_decoder.raw_decode calls', len(dec), 2)
    blocked = [n for n in g.nodes if n.kind == 'if' and 'is_blocked(self)' in text(n.ast.test)]
    abstract = [n for n in g.nodes if n.kind == 'if' and text(n.ast.test) == 'xsd_type.abstract']
    for kn, kc in gi:
        # result rebinds xsd_type; arguments: the attribute text, the declared type, the in-scope namespaces
        ok = isinstance(kn.ast, ast.Assign) and text(kn.ast.targets[0]) == 'xsd_type'
        ctx.ob(rule, 'the governing type is rebound to the type named by xsi:type', f.loc(kc), ok, '', key=f'{DEC}|rebind')
        a = [text(x) for x in kc.args]
        tn_defs = rd[kn].get(a[0], set()) if a else set()
        ok = len(a) == 3 and a[1] == 'xsd_type' and a[2] == 'context.namespaces' and bool(tn_defs) and \
            all(d.ast is not None and 'obj.attrib[nm.XSI_TYPE]' in text(d.ast) for d in tn_defs)
        ctx.ob(rule, 'get_instance_type receives the xsi:type text, the declared type and the in-scope namespaces', f.loc(kc), ok,
               '' if ok else f'arguments {a}', key=f'{DEC}|args')
        # the lookup is attempted whenever the attribute is present (and the schema is not the meta-schema):
        # K is *directly* control dependent on exactly one test, `XSI_TYPE in obj.attrib and meta_schema is not None`,
        # and that test lies on every path from the entry to content decoding
        direct = g.control_dependence(kinds='nTFx', transitive=False)[kn]
        dtests = {(text(b.ast.test) if b.kind == 'if' else b.kind, lab) for b, lab in direct}
        want = {('nm.XSI_TYPE in obj.attrib and self.schema.meta_schema is not None', 'T'),
                ('self.schema.meta_schema is not None and nm.XSI_TYPE in obj.attrib', 'T')}
        ok = len(dtests) == 1 and bool(dtests & want)
        t0 = [b for b, lab in direct if b.kind == 'if']
        if ok:
            for dn, dc in dec:
                ok = ok and g.must_pass(g.entry, [dn], t0, kinds='nTF') is None
        ctx.ob(rule, 'the xsi:type attribute is honoured whenever it is present (meta-schema elements excepted)', f.loc(kc), ok,
               '' if ok else f'lookup directly guarded by {sorted(dtests)}', key=f'{DEC}|honoured')
        # failure of the lookup is reported
        hs = [m for m, lab in g.succ[kn] if lab == 'i' and m.kind == 'handler']
        ok = bool(hs) and all(any(True for s in h.ast.body for _ in reporter_calls(s)) for h in hs)
        if ok:
            # ... unconditionally: every path through the handler passes a report (not only at level 0 / in some mode)
            for h in hs:
                reps = [x for x in g.stmt_nodes() if any(True for e in x.exprs for _ in reporter_calls(e)) and any(x.ast is y for b in h.ast.body for y in ast.walk(b))]
                inside = {x for x in g.nodes if x.ast is not None and any(x.ast is y for b in h.ast.body for y in ast.walk(b))}
                first = [m for m, lab in g.succ[h] if lab in 'nTF']
                leave = {m for x in inside for m, lab in g.succ[x] if lab in 'nTF' and m not in inside}
                for s0 in first:
                    if s0 in leave or g.must_pass(s0, leave, reps, kinds='nTF') is not None:
                        ok = False
        names = {x for h in hs for x in text(h.ast.type).strip('()').replace(' ', '').split(',')}
        ok = ok and {'KeyError', 'TypeError'} <= names
        ctx.ob(rule, 'an unknown or non-derived xsi:type (KeyError / TypeError) is reported', f.loc(kc), ok,
               '' if ok else f'handlers: {sorted(names)}', key=f'{DEC}|lookup-failure')
        for dn, dc in dec:
            for what, tests in (('block test', blocked), ('abstract test', abstract)):
                # from normal completion of the lookup to the content decoding
                starts = [m for m, lab in g.succ[kn] if lab in 'nTF']
                w = None
                for s in starts:
                    w = w or g.must_pass(s, [dn], tests, kinds='nTF')
                ok = bool(tests) and w is None
                ctx.ob(rule, f'every path from the xsi:type lookup to content decoding passes the {what}', f.loc(dc), ok,
                       '' if ok else 'path: ' + ' -> '.join(f'{x.kind}@{x.lineno}' for x in (w or [])[:10]),
                       key=f'{DEC}|{what}|{text(dc.args[0])}')
    for tn in blocked + abstract:
        reps = [c for s in tn.ast.body for c in reporter_calls(s)]
        ok = bool(reps) and all(text(c.args[0]) == 'validation' for c in reps)
        ctx.ob(rule, f'`{text(tn.ast.test)}` reports on its true branch', f.loc(tn.ast), ok, '', key=f'{DEC}|reports|{text(tn.ast.test)}')
    ctx.floor(rule, 'is_blocked(self) tests', len(blocked), 1)
    ctx.floor(rule, 'xsd_type.abstract tests', len(abstract), 1)
    # the abstract test is on every path to content decoding, xsi:type or not
    for dn, dc in dec:
        w = g.must_pass(g.entry, [dn], abstract, kinds='nTF')
        ctx.ob(rule, 'the abstract-type test dominates content decoding', f.loc(dc), w is None, '', key=f'{DEC}|abstract-dominates|{text(dc.args[0])}')
    # content and attributes are decoded with the rebound type
    cds = [n for n in g.nodes if n.kind == 'stmt' and isinstance(n.ast, ast.Assign) and text(n.ast.targets[0]) == 'content_decoder']
    ctx.floor(rule, 'content_decoder bindings', len(cds), 1)
    for cd in cds:
        ok = 'xsd_type' in text(cd.ast.value) and 'self.type' not in text(cd.ast.value)
        defs = rd[cd].get('xsd_type', set())
        ok = ok and all(any(kn is d for kn, _ in gi) or (d.ast is not None and text(d.ast).startswith('xsd_type = ')) for d in defs) \
            and any(kn in defs for kn, _ in gi)
        ctx.ob(rule, 'content is validated against the (possibly rebound) governing type', f.loc(cd.ast), ok, '', key=f'{DEC}|content-decoder')
    for dn, dc in dec:
        defs = rd[dn].get('content_decoder', set())
        ok = defs == set(cds)
        ctx.ob(rule, 'content_decoder.raw_decode uses the decoder derived from the governing type', f.loc(dc), ok, '', key=f'{DEC}|decoder-def|{text(dc.args[0])}')
    ag = call_nodes(g, lambda c: text(c.func) == 'self.get_attributes')
    for an, ac in ag:
        ok = [text(x) for x in ac.args] == ['xsd_type'] and any(kn in rd[an].get('xsd_type', set()) for kn, _ in gi)
        ctx.ob(rule, 'attributes are validated against the governing type', f.loc(ac), ok, '', key=f'{DEC}|attributes')
    # get_instance_type: every return is justified by derivation (or union membership)
    gt = ctx.idx.func('xmlschema.validators.xsd_globals.XsdGlobals.get_instance_type')
    gg = cfg_of(ctx, gt)
    rets = [n for n in gg.nodes if n.kind == 'return']
    ctx.floor(rule, 'returns of get_instance_type', len(rets), 1)
    p = [x for x in gt.params if x != 'self']
    base = p[1] if len(p) > 1 else 'base_type'
    for r in rets:
        gs = guards(ctx, gt, r)
        v = text(r.ast.value)
        ok = (f'{v}.is_derived({base})', 'T') in gs or any(t.startswith(f'{v} in {base}.') and t.endswith('member_types') and lab == 'T' for t, lab in gs)
        ctx.ob(rule, 'get_instance_type returns a type only if it is derived from the declared type (or a member of a facet-less union)',
               gt.loc(r.ast), ok, '' if ok else f'guards {sorted(gs)}', key=f'get_instance_type|return|{sorted(t for t, l in gs if l == "T")[:2]}')
    rdg = gg.reaching_defs()
    for r in rets:
        v = text(r.ast.value)
        defs = rdg[r].get(v, set())
        ok = bool(defs) and all(d.ast is not None and isinstance(d.ast, ast.Assign) and text(d.ast.value).startswith('self.types[') for d in defs)
        ctx.ob(rule, 'get_instance_type looks the name up in the global type map', gt.loc(r.ast), ok, '', key=f'get_instance_type|lookup|{len(defs)}')
    w = gg.must_pass(gg.entry, [gg.exit], rets, kinds='nTF')
    ctx.ob(rule, 'get_instance_type raises when no return is justified', gt.loc(), w is None, '', key='get_instance_type|fallthrough')
    ctx.explain('C07.a: from the read of xsi:type to content decoding, the type comes from get_instance_type (derivation tested '
                'on every return), the block and abstract tests are passed on every path, and content/attributes use the rebound type.')


def rule_b(ctx: Ctx) -> None:
    rule = 'C07.b'
    f = ctx.idx.func(DEC)
    g = cfg_of(ctx, f)
    sets = [n for n in g.nodes if n.kind == 'stmt' and isinstance(n.ast, ast.Assign) and text(n.ast.targets[0]) == 'nilled'
            and text(n.ast.value) == 'True']
    ctx.floor(rule, '`nilled = True` sites', len(sets), 1)
    for n in sets:
        gs = guards(ctx, f, n)
        conds = {
            'the attribute is present': any('nm.XSI_NIL in obj.attrib' in t and lab == 'T' for t, lab in gs),
            'the element is nillable': _truth(gs, 'self.nillable', 'not self.nillable'),
            'the value is boolean': any('xsi_nil' in t and 'not in' in t and "'true'" in t and "'1'" in t and "'0'" in t and "'false'" in t and lab == 'F'
                                        for t, lab in gs),
            'the value is true': any(t.replace('"', "'") in ("xsi_nil in ('0', 'false')", "xsi_nil in ('false', '0')") and lab == 'F' for t, lab in gs)
            or any(t.replace('"', "'") in ("xsi_nil in ('1', 'true')", "xsi_nil in ('true', '1')") and lab == 'T' for t, lab in gs),
            'there is no fixed value': _truth(gs, 'self.fixed is None', 'self.fixed is not None'),
            'the element is empty': _truth(gs, 'obj.text is None and (not len(obj))', 'obj.text is not None or len(obj)')
            or _truth(gs, 'obj.text is None and len(obj) == 0', 'obj.text is not None or len(obj) > 0'),
        }
        for what, ok in conds.items():
            ctx.ob(rule, f'xsi:nil is accepted only if {what}', f.loc(n.ast), ok, '' if ok else f'path condition: {sorted(gs)}',
                   key=f'{DEC}|nil|{what}')
    # the refusing branches report
    chain_tests = ['not self.nillable', "xsi_nil not in ('0', '1', 'false', 'true')", 'self.fixed is not None', 'obj.text is not None or len(obj)']
    n_rep = 0
    for n in g.nodes:
        if n.kind == 'if' and any(('nm.XSI_NIL in obj.attrib', 'T') == x for x in guards(ctx, f, n)):
            t = text(n.ast.test)
            if t.replace('"', "'") in ("xsi_nil in ('0', 'false')",):
                continue
            reps = [c for s in n.ast.body for c in reporter_calls(s)]
            n_rep += 1
            ok = bool(reps) and all(text(c.args[0]) == 'validation' for c in reps)
            ctx.ob(rule, f'xsi:nil refused under `{t}` is reported', f.loc(n.ast), ok, '', key=f'{DEC}|nil-report|{t}')
    ctx.floor(rule, 'refusing branches of the xsi:nil chain', n_rep, 4)
    # nilled skips content; nothing else does
    for dn, dc in call_nodes(g, lambda c: text(c.func) == 'content_decoder.raw_decode'):
        gs = guards(ctx, f, dn)
        ok = _truth(gs, 'not nilled', 'nilled')
        ctx.ob(rule, 'content is decoded unless the element is nilled', f.loc(dc), ok, '', key=f'{DEC}|nilled-skip|{text(dc.args[0])}')
    ctx.explain('C07.b: path condition (transitive control dependence) of `nilled = True` contains nillable, a true boolean '
                'value, no fixed value and empty content; each refusing branch reports.')


def rule_c(ctx: Ctx) -> None:
    rule = 'C07.c'
    ib = ctx.idx.func('xmlschema.validators.xsdbase.XsdType.is_blocked')
    ctx.analysed(ib.qualname)
    src = text(ib.node)
    p = [x for x in ib.params if x != 'self'][0]
    blk = [s for s in walk_no_nested(ib.node) if isinstance(s, ast.Assign) and text(s.targets[0]) == 'block']
    ok = len(blk) == 1 and f'{p}.block' in text(blk[0].value) and 'xsd_type.block' in text(blk[0].value)
    if ok:
        # a union, not a choice: neither operand may sit under `or` / `and` / a conditional expression
        from ..astutil import enclosing_map as _em, ancestors as _anc
        par_ = _em(blk[0].value)
        for a_ in ast.walk(blk[0].value):
            if isinstance(a_, ast.Attribute) and a_.attr == 'block':
                if any(isinstance(x, (ast.BoolOp, ast.IfExp)) for x in [blk[0].value] + list(_anc(a_, par_))):
                    ok = False
    tdef = [s for s in walk_no_nested(ib.node) if isinstance(s, ast.Assign) and text(s.targets[0]) == 'xsd_type']
    ok = ok and len(tdef) == 1 and text(tdef[0].value) == f'{p}.type'
    ctx.ob(rule, 'is_blocked combines the block of the element and of its declared type', ib.loc(), ok, '', key='is_blocked|levels')
    rets = sorted((r for r in walk_no_nested(ib.node) if isinstance(r, ast.Return)), key=lambda r: r.lineno)
    last = rets[-1] if rets else None
    ok = last is not None and 'self.is_derived(xsd_type, derivation)' in text(last.value) and text(last.value).startswith('any(')
    ctx.ob(rule, 'is_blocked is true when the instance type derives through a blocked method', ib.loc(last) if last else ib.loc(), ok, '', key='is_blocked|any')
    sets_ = [s for s in walk_no_nested(ib.node) if isinstance(s, ast.Assign) and text(s.targets[0]) == '_block']
    ok = len(sets_) == 1 and "'extension'" in text(sets_[0].value) and "'restriction'" in text(sets_[0].value)
    ctx.ob(rule, 'is_blocked considers both extension and restriction', ib.loc(), ok, '', key='is_blocked|methods')
    for r in rets[:-1]:
        ok = text(r.value) == 'False'
        ctx.ob(rule, 'early exits of is_blocked only say "not blocked"', ib.loc(r), ok, '', key=f'is_blocked|early|{text(r.value)}')
    # fallbacks to blockDefault
    for q in (f'{ELEM}.block', 'xmlschema.validators.complex_types.XsdComplexType.block'):
        f = ctx.idx.func(q)
        ctx.analysed(q)
        rs = [text(r.value) for r in walk_no_nested(f.node) if isinstance(r, ast.Return)]
        ok = any('self.schema.block_default' in r for r in rs) and any('self._block' in r for r in rs)
        ctx.ob(rule, f'{q.split(".")[-2]}.block falls back to the schema blockDefault', f.loc(), ok, '', key=f'{q}|default')
    # substitution in a model group
    cd = ctx.idx.func('xmlschema.validators.groups.XsdGroup.check_dynamic_context')
    g = cfg_of(ctx, cd)
    rz = [n for n in g.nodes if n.kind == 'raise']
    hit = False
    for r in rz:
        gs = guards(ctx, cd, r)
        for t, lab in gs:
            if "'substitution' in model_element.block" in t and 'is_blocked(model_element)' in t and lab == 'T':
                hit = True
                ok = any(t2 == 'model_element is not xsd_element and isinstance(model_element, XsdElement)' and l2 == 'T' for t2, l2 in gs)
                ctx.ob(rule, 'a substitution-group member is refused when the head blocks substitution or the member type derivation',
                       cd.loc(r.ast), ok and 'XMLSchemaValidationError' in text(r.ast.exc), '', key='check_dynamic_context|substitution')
    ctx.ob(rule, 'check_dynamic_context tests block="substitution" and is_blocked before accepting a substitute', cd.loc(), hit, '',
           key='check_dynamic_context|present')
    # abstract element declaration
    f = ctx.idx.func(DEC)
    g = cfg_of(ctx, f)
    first = [s for s in f.node.body if not isinstance(s, (ast.Expr, ast.AnnAssign)) or (isinstance(s, ast.Expr) and not isinstance(s.value, ast.Constant))]
    ok = bool(first) and isinstance(first[0], ast.If) and text(first[0].test) == 'self.abstract'
    ctx.ob(rule, 'XsdElement.raw_decode tests `self.abstract` before anything else', f.loc(first[0]) if first else f.loc(), ok, '', key=f'{DEC}|abstract-first')
    if ok:
        ifn = g.nodes_of(first[0])[0]
        # every path through the true branch reports or delegates to a concrete substitute
        body_nodes = set()
        for s in first[0].body:
            for sub in ast.walk(s):
                body_nodes.update(g.nodes_of(sub))
        reps = {n for n, c in call_nodes(g, is_reporter_call) if n in body_nodes}
        deleg = {n for n in body_nodes if n.kind == 'return' and 'xsd_element.raw_decode' in text(n.ast.value)}
        leave = [n for n in g.reachable(start_edges=[(ifn, 'T')], starts=[], kinds='nTF') if n not in body_nodes]
        seen = set()
        stack = [m for m, lab in g.succ[ifn] if lab == 'T']
        bad = None
        while stack:
            x = stack.pop()
            if x in seen or x in reps or x in deleg:
                continue
            seen.add(x)
            if x not in body_nodes:
                bad = x
                break
            stack.extend(m for m, lab in g.succ[x] if lab in 'nTF')
        ctx.ob(rule, 'an abstract element declaration always yields a report or a delegation to a concrete substitute', f.loc(first[0]),
               bad is None, '' if bad is None else f'silent path reaches line {bad.lineno}', key=f'{DEC}|abstract-paths')
    it = ctx.idx.func(f'{ELEM}.iter_substitutes')
    gi = cfg_of(ctx, it)
    ys = [n for n in gi.stmt_nodes() if n.kind == 'stmt' and any(isinstance(x, ast.Yield) for x in ast.walk(n.ast))]
    ok = bool(ys) and all(any('.abstract' in t and t.startswith('not ') and lab == 'T' for t, lab in guards(ctx, it, y)) for y in ys)
    ctx.ob(rule, 'iter_substitutes never yields an abstract member', it.loc(), ok, '', key='iter_substitutes|abstract')
    substitutes_closure(ctx, rule)
    ctx.explain('C07.c: is_blocked reads element block + type block, both fall back to blockDefault; substitution is refused '
                'under block=substitution / blocked derivation; abstract declarations are refused or delegated.')


def substitutes_closure(ctx: Ctx, rule: str) -> None:
    """the closure of a substitution group is taken through abstract members: the recursion is not filtered by abstractness"""
    for q in (f'{ELEM}.iter_substitutes', 'xmlschema.validators.elements.Xsd11Element.iter_substitutes'):
        try:
            fi = ctx.idx.func(q)
        except AnalysisError:
            continue
        gq = cfg_of(ctx, fi)
        rec = [n for n in gq.nodes if n.kind == 'for' and text(n.ast.iter).endswith('.iter_substitutes()')]
        rec += [n for n in gq.stmt_nodes() if n.kind == 'stmt' and any(isinstance(x, ast.YieldFrom) and text(x.value).endswith('.iter_substitutes()')
                                                                      for x in ast.walk(n.ast))]
        if not rec:
            continue
        ok = all(not any('.abstract' in t for t, lab in guards(ctx, fi, n)) for n in rec)
        ctx.ob(rule, f'{q.split(".")[-2]}.iter_substitutes follows the substitution chain through abstract members (only the yield is filtered)',
               fi.loc(rec[0].ast), ok, '' if ok else 'the recursion runs only for non-abstract members: a concrete member that substitutes an abstract '
               'intermediate member is no longer accepted in place of the head', key=f'{q}|closure-through-abstract')


def rule_d(ctx: Ctx) -> None:
    rule = 'C07.d'
    f = ctx.idx.func(DEC)
    fixed_value_space_rule(ctx, rule, f, 'XsdElement.raw_decode (simple content)', ('text', 'value'))
    ctx.explain('C07.d: the fixed-value report of XsdElement.raw_decode is guarded by a comparison of decoded values.')


def derived_ok(ctx: Ctx, rule: str) -> None:
    """"Validly derived" (cos-st-derived-ok / cos-ct-derived-ok) climbs the chain of *base* types, accepts the special ur-types and a
    member of a union - nothing else.  In particular the item type of a list is not an ancestor of the list."""
    n = 0
    for c in ctx.idx.classes.values():
        if not c.module.name.startswith('xmlschema.validators'):
            continue
        f = c.methods.get('is_derived')
        if f is None or isinstance(f.node, ast.Lambda):
            continue
        ctx.analysed(f.qualname)
        g = cfg_of(ctx, f)
        for r in g.nodes:
            if not (r.kind == 'return' and r.ast.value is not None):
                continue
            v = r.ast.value
            if isinstance(v, ast.Constant) and v.value is False:
                continue
            n += 1
            gs = guards(ctx, f, r)
            item = [t for t, lab in gs if lab == 'T' and 'item_type' in t]
            item_val = 'item_type' in text(v)
            ok = not item and not item_val
            ctx.ob(rule, f'{c.name}.is_derived: `return {text(v)[:40]}` climbs through base types, ur-types or union members only', f.loc(r.ast), ok,
                   '' if ok else f'accepted under `{(item or [text(v)])[0][:60]}`: a list type counts as derived from its item type - xsi:type="ListOfInt" is accepted on an '
                   'element declared xs:int, and a simpleContent restriction may replace an xs:int content by a list of xs:int', key=f'{c.name}.is_derived|{text(v)[:40]}|{(sorted(t for t, l in gs if l == "T") or [""])[-1][:40]}',
                   nontrivial=bool(item or item_val))
    ctx.floor(rule, 'accepting exits of the is_derived implementations', n, 8)
    ctx.explain(f'{rule}: every non-False return of the is_derived implementations of the validators: neither its value nor its path '
                'condition mentions the item type of a list.')


def rule_e(ctx: Ctx) -> None:
    derived_ok(ctx, 'C07.e')


def rule_f(ctx: Ctx) -> None:
    """A member of a substitution group declared without a type has the type of its head - a property of the declaration, whether or not the
    head can be substituted in instances.  In _parse_substitution_group the inheritance `self._set_type(head_element.type)` therefore lies on
    the way to every exit taken for a resolved head, including the early one for block="substitution"."""
    rule = 'C07.f'
    f = ctx.idx.method('xmlschema.validators.elements.XsdElement', '_parse_substitution_group')
    ctx.analysed(f.qualname)
    g = cfg_of(ctx, f)
    inh = [x for x in g.nodes if x.kind == 'if' and "'type' not in self.elem.attrib" in text(x.ast.test) and 'XSD_ANY_TYPE' in text(x.ast.test)]
    sets = [n for n, c in call_nodes(g, lambda c: text(c.func) == 'self._set_type' and c.args and text(c.args[0]) == 'head_element.type')]
    if len(inh) != 1 or not sets:
        raise AnalysisError(f'UNRECOGNISED-IDIOM {rule}: type inheritance in {f.qualname}')
    # exits of the function that are taken with a resolved head element: returns control dependent on a test of head_element (other than the tuple / circularity check)
    early = []
    for r in g.nodes:
        if r.kind != 'return':
            continue
        gs = guards(ctx, f, r)
        if any('head_element.block' in t and lab == 'T' for t, lab in gs):
            early.append(r)
    ctx.floor(rule, 'early exits for a head that blocks substitution', len(early), 1)
    dom = g.dominators(kinds='nTF')
    for r in early:
        ok = inh[0] in dom[r]
        ctx.ob(rule, '_parse_substitution_group: the untyped member inherits the type of its head before the exit for block="substitution"', f.loc(r.ast), ok,
               '' if ok else 'the function returns before the inheritance test: <xs:element name="B" substitutionGroup="A"/> with A: xs:integer block="substitution" keeps '
               'xs:anyType and <B>abc</B> is valid', key=f'{f.qualname}|inherit-before-block-exit')
    ctx.explain('C07.f: dominance - the test that gives an untyped member the type of its head dominates the return taken when the head blocks substitution.')


CLIMBS = ('self.base_type.is_derived', 'self.base_type.content.is_derived')


def rule_g(ctx: Ctx) -> None:
    """"Validly derived" is transitive: a type whose base type is validly derived from T is validly derived from T, however many steps lie between
    (xsi:type="DiscountedPrice" on an element declared Amount, with Price in between).  In the implementations of is_derived that climb the chain, every
    exit taken when the type *has* a base other than T itself either refuses for a stated structural reason or accepts whenever the recursive question to
    the base type is answered yes."""
    from .common import bool_atoms, bool_eval
    rule = 'C07.g'
    n = nimpl = 0
    for c in ctx.idx.classes.values():
        if not c.module.name.startswith('xmlschema.validators'):
            continue
        f = c.methods.get('is_derived')
        if f is None or isinstance(f.node, ast.Lambda):
            continue
        if not any(isinstance(x.func, ast.Attribute) and text(x.func) in CLIMBS for x in calls(f.node)):
            continue        # a terminal implementation (list, union: no base chain of their own)
        nimpl += 1
        ctx.analysed(f.qualname)
        g = cfg_of(ctx, f)
        for r in g.nodes:
            if not (r.kind == 'return' and r.ast.value is not None):
                continue
            gs = guards(ctx, f, r)
            if ('self.base_type is None', 'F') not in gs or ('self.base_type is other', 'F') not in gs:
                continue        # no base to ask, or the base is the target itself
            if any(lab == 'T' and t.startswith('isinstance(other, XsdUnion)') for t, lab in gs):
                continue        # the target is a union: the question is put to its members
            v = r.ast.value
            n += 1
            if isinstance(v, ast.Constant) and v.value is False:
                why = [t for t, lab in gs if lab == 'T' and ('has_simple_content' in t or 'is_complex' in t)]
                ok = bool(why)
                ctx.ob(rule, f'{c.name}.is_derived: a type with a base refuses only for a structural reason', f.loc(r.ast), ok,
                       why[0][:60] if ok else 'refusal without asking the base type', key=f'{c.name}.is_derived|refusal|{(why or [""])[0][:40]}', nontrivial=False)
                continue
            atoms = bool_atoms(v)
            climb = [a for a in atoms if a.startswith(CLIMBS)]
            ok = False
            if climb:
                env = {a: False for a in atoms}
                env[climb[0]] = True
                for a in atoms:
                    if a.replace(' ', '') == 'self.base_typeisnotself':
                        env[a] = True
                try:
                    ok = bool_eval(v, env) is True
                except KeyError:
                    ok = False
            ctx.ob(rule, f'{c.name}.is_derived: `return {text(v)[:50]}` accepts whenever the base type is derived from the target', f.loc(r.ast), ok,
                   '' if ok else ('the exit does not ask the base type at all' if not climb else 'the answer of the base type is and-ed with another condition') +
                   ': a derivation of two or more steps (C extends B extends A, simple content) is no longer recognised - xsi:type="C" on an element declared A is refused '
                   '"cannot substitute", and a substitution-group member of type C is refused at schema build', key=f'{c.name}.is_derived|climb|{(sorted(t for t, l in gs if l == "T") or [""])[-1][:40]}')
    ctx.floor(rule, 'chain-climbing is_derived implementations', nimpl, 2)
    ctx.floor(rule, 'exits of is_derived for a type with a base', n, 4)
    ctx.explain('C07.g: in XsdComplexType.is_derived / XsdSimpleType.is_derived every return reached with `self.base_type is None` false and `self.base_type is other` false '
                '(target not a union) evaluates to True when the atom `self.base_type[.content].is_derived(…)` is True and every other atom False (truth table of the return expression).')


def rule_h(ctx: Ctx) -> None:
    """Substitution is transitive and only the head that is *being substituted* blocks it: with C → B → A, `block="substitution"` on B keeps C out of
    B's place, not out of A's.  The membership table (maps.substitution_groups) is what the transitive closure walks, so whether an element is entered
    under its head must not depend on the head's block - blocking is decided where a member is used (XsdGroup.check_dynamic_context)."""
    rule = 'C07.h'
    f = ctx.idx.method('xmlschema.validators.elements.XsdElement', '_parse_substitution_group')
    ctx.analysed(f.qualname)
    g = cfg_of(ctx, f)
    regs = [n for n in g.nodes if n.kind == 'stmt' and 'self.maps.substitution_groups[' in text(n.ast) and
            (isinstance(n.ast, ast.Assign) or any(isinstance(c.func, ast.Attribute) and c.func.attr == 'add' for c in calls(n.ast)))]
    ctx.floor(rule, 'registrations in maps.substitution_groups', len(regs), 1)
    bad = []
    for n in regs:
        for t, lab in guards(ctx, f, n):
            if '.block' in t and 'substitution' in t:
                bad.append((n, t, lab))
    ok = not bad
    ctx.ob(rule, '_parse_substitution_group: the entry of a member under its head does not depend on the block of the head', f.loc(bad[0][0].ast) if bad else f.loc(regs[0].ast), ok,
           '' if ok else f'registration only when `{bad[0][1]}` is {bad[0][2] == "T"}: the members of a head that blocks substitution are not entered, so they are missing from the '
           'transitive group of the head\'s own head - C substitutionGroup=B, B substitutionGroup=A block="substitution": <C/> is refused in the place of A',
           key='_parse_substitution_group|registration-vs-block')
    use = ctx.idx.method('xmlschema.validators.groups.XsdGroup', 'check_dynamic_context')
    ok2 = any("'substitution' in model_element.block" in text(x.test) for x in ast.walk(use.node) if isinstance(x, ast.If))
    ctx.ob(rule, 'XsdGroup.check_dynamic_context refuses a member where the particle of the model blocks substitution', use.loc(), ok2, '', key='check_dynamic_context|block-at-use', nontrivial=False)
    ctx.explain('C07.h: the statements that enter an element in maps.substitution_groups are not control dependent on a test of the head\'s `block`; the block of the particle '
                'actually substituted is tested at the point of use.')


def rule_i(ctx: Ctx) -> None:
    """A fixed value is compared in the value space *of one type*: 1 (xs:int) and true (xs:boolean) are different values of a union although Python says
    True == 1, and 1 (int) differs from 1.0 (decimal) members likewise.  The helper every fixed-value comparison goes through therefore accepts only under an
    identity test of the operand types - an isinstance() shortcut lets bool through as an int."""
    rule = 'C07.i'
    f = ctx.idx.func('xmlschema.utils.decoding.strictly_equal')
    ctx.analysed(f.qualname)
    g = cfg_of(ctx, f)
    p_ = [x for x in f.params]
    a, b = (p_ + ['obj1', 'obj2'])[:2]
    ident = (f'type({a}) is type({b})', f'type({b}) is type({a})', f'type({a}) == type({b})')
    from .common import bool_atoms, atom_forces
    n = 0
    for r in g.nodes:
        if not (r.kind == 'return' and r.ast.value is not None):
            continue
        v = r.ast.value
        if isinstance(v, ast.Constant) and v.value is False:
            continue
        n += 1
        gs = guards(ctx, f, r)
        nident = (f'type({a}) is not type({b})', f'type({b}) is not type({a})', f'type({a}) != type({b})')
        by_guard = any(lab == 'T' and any(i_ in t for i_ in ident) and 'is not' not in t and '!=' not in t for t, lab in gs) or \
            any(lab == 'F' and t in nident for t, lab in gs)
        by_value = any(atom_forces(v, i_, False, False) for i_ in ident if i_ in bool_atoms(v))
        ok = by_guard or by_value
        ctx.ob(rule, f'strictly_equal: `return {text(v)[:50]}` can be true only for operands of the very same type', f.loc(r.ast), ok,
               '' if ok else 'an accepting exit without the type identity test: bool is an int for isinstance(), so fixed="1" on a union of xs:int and xs:boolean accepts <flag>true</flag> '
               '(and fixed="true" accepts 1)', key=f'strictly_equal|{text(v)[:30]}')
    ctx.floor(rule, 'accepting exits of strictly_equal', n, 1)
    # the value of a list type is a list: its items are compared with the same rule (the outer `list is list` says nothing about [True, False] vs [1, 0])
    rec = [r for r in g.nodes if r.kind == 'return' and r.ast.value is not None and 'strictly_equal' in text(r.ast.value)
           and any(lab == 'T' and 'isinstance(' in t and 'list' in t for t, lab in guards(ctx, f, r))]
    ctx.ob(rule, 'strictly_equal: two lists are compared item by item with the same rule', f.loc(rec[0].ast) if rec else f.loc(), bool(rec),
           '' if rec else 'no recursive comparison for lists: fixed="1 0" on a list of union(xs:int, xs:boolean) is matched by "true false" ([True, False] == [1, 0])',
           key='strictly_equal|lists-itemwise')
    ctx.explain('C07.i: every non-False return of utils.decoding.strictly_equal is guarded by, or conjoined with (truth table), `type(obj1) is type(obj2)`.')


RULES = [rule_a, rule_b, rule_c, rule_d, rule_e, rule_f, rule_g, rule_h, rule_i]
