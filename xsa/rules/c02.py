"""C02 — simple-type validation/decoding (structural clauses).

C02.a lexical-guard table       C02.b boolean codec table      C02.c facet validators' direction
C02.d normalisation first        C02.e facets on decoded value  C02.f whitespace table
"""
from __future__ import annotations

import ast

from ..astutil import calls, find_relations, text, walk_no_nested, enclosing_map, ancestors
from ..index import AnalysisError
from ..report import Ctx
from ..tables import builtin_tables, chain, literal_dict
from .common import call_nodes, cfg_of, guards

ST = 'xmlschema.validators.simple_types'
FACETS = 'xmlschema.validators.facets'

# Python built-in constructors whose accepted language is a strict superset of the XSD lexical space
PERMISSIVE = {
    'int': "accepts '_' separators, any Unicode decimal digit, surrounding whitespace",
    'float': "accepts 'nan', 'inf', 'infinity', '_' separators",
    'Decimal': "accepts 'NaN', 'Infinity', exponent forms, '_' separators",
    'decimal.Decimal': "accepts 'NaN', 'Infinity', exponent forms, '_' separators",
}
# string-derived built-ins whose lexical space is a proper subset of xs:token (XSD Part 2 §3.3)
RESTRICTED_STRINGS = ('nm.XSD_LANGUAGE', 'nm.XSD_NAME', 'nm.XSD_NCNAME', 'nm.XSD_ID', 'nm.XSD_IDREF',
                      'nm.XSD_ENTITY', 'nm.XSD_NMTOKEN')


def rule_a(ctx: Ctx) -> None:
    rule = 'C02.a'
    tables = builtin_tables(ctx.idx)
    m = ctx.idx.module('validators.builtins')
    n = 0
    seen_nodes: set[int] = set()
    derived: dict[str, list[str]] = {}
    for ver, table in sorted(tables.items()):
        for b in table:
            n += 1
            conv = b.to_python
            ch = chain(table, b)
            has_pattern = any(f.kind == 'element' and f.tag == 'nm.XSD_PATTERN' for x in ch for f in x.facets)
            loc = f'{m.relpath}:{b.node.lineno}'
            if conv in PERMISSIVE:
                if id(b.node) in seen_nodes:
                    continue   # entry shared by the 1.0 and 1.1 tables: decided once
                seen_nodes.add(id(b.node))
                # the defect (if any) is reported once, at the root of the unguarded chain
                root = b
                for x in ch[1:]:
                    if x.to_python == conv:
                        root = x
                    else:
                        break
                if not has_pattern and root is not b:
                    derived.setdefault(root.name, []).append(b.name)
                    ctx.ob(rule, f'{b.name}: converter `{conv}` — lexical guard inherited from {root.name} (decided there)',
                           loc, True, f'unguarded like its ancestor {root.name}', key=f'{b.name}|lexical-guard-inherited|{conv}')
                    continue
                ctx.ob(rule, f'{b.name}: converter `{conv}` ({PERMISSIVE[conv]}) is guarded by a pattern facet '
                             f'on the type or an ancestor', loc, has_pattern,
                       '' if has_pattern else 'no Element(nm.XSD_PATTERN, …) along ' + ' -> '.join(x.name for x in ch) +
                       ' (derived types sharing the defect are listed in the notes)',
                       key=f'{b.name}|lexical-guard|{conv}')
            elif conv == 'str':
                if b.name in RESTRICTED_STRINGS:
                    ctx.ob(rule, f'[{ver}] {b.name}: restricted string type carries a pattern facet (own or inherited)',
                           loc, has_pattern, '', key=f'{b.name}|string-pattern')
                else:
                    ctx.ob(rule, f'[{ver}] {b.name}: identity converter `str`', loc, True, nontrivial=False,
                           key=f'{ver}|{b.name}|str')
            elif conv.startswith('datatypes.'):
                ctx.ob(rule, f'[{ver}] {b.name}: converter `{conv}` from elementpath.datatypes (trusted base)', loc, True,
                       key=f'{ver}|{b.name}|trusted', nontrivial=False)
            else:
                # a repo converter: must exist and reject by raising
                tgt = ctx.idx.resolve_name(m, conv)
                f = ctx.idx.functions.get(tgt or '')
                ok = f is not None and any(isinstance(x, ast.Raise) for x in ast.walk(f.node))
                if conv == 'type(None)':
                    ok = True   # xs:error: no lexical space, every value is refused by error_type_validator
                    ok = any(fr.kind == 'callable' and fr.name == 'error_type_validator' for fr in b.facets)
                ctx.ob(rule, f'[{ver}] {b.name}: repo converter `{conv}` rejects by raising', loc, ok,
                       '' if ok else 'converter not found in the package or has no raise', key=f'{b.name}|repo-conv|{conv}')
    for r, ds in derived.items():
        ctx.note(f'C02.a: {len(ds)} types derived from {r} share its converter and its (missing) lexical guard: ' + ', '.join(ds))
    ctx.floor(rule, 'built-in table entries', n, 80)
    ctx.trusted.append('elementpath.datatypes converters (DecimalProxy, *.fromstring): third-party, outside the analysed source')
    ctx.explain('C02.a: every built-in type whose converter is a permissive Python constructor (int/float/Decimal) '
                'must be guarded by a pattern facet on the type or an ancestor (table read from builtins.py).')


def rule_b(ctx: Ctx) -> None:
    rule = 'C02.b'
    m = ctx.idx.module('validators.helpers')
    bm = literal_dict(m, 'XSD_BOOLEAN_MAP')
    spec = {'true': True, 'false': False, '1': True, '0': False}
    ok = bm == spec and all(type(v) is bool for v in bm.values())
    ctx.ob(rule, 'XSD_BOOLEAN_MAP is exactly {true,1 -> True; false,0 -> False}', f'{m.relpath}:{m.assigns["XSD_BOOLEAN_MAP"].lineno}',
           ok, '' if ok else f'found {bm}', key='XSD_BOOLEAN_MAP')
    f = ctx.idx.func('validators.helpers.boolean_to_python')
    ctx.analysed(f.qualname)
    p = f.params[0]
    # lookup in the map that raises on a miss
    subs = [n for n in ast.walk(f.node) if isinstance(n, ast.Subscript) and text(n.value) == 'XSD_BOOLEAN_MAP' and text(n.slice) == p]
    rets = [n for n in ast.walk(f.node) if isinstance(n, ast.Return)]
    lookup_ok = bool(subs) and all(r.value is not None and any(s is r.value for s in subs) for r in rets)
    par = enclosing_map(f.node)
    raise_ok = False
    for s in subs:
        for anc in ancestors(s, par):
            if isinstance(anc, ast.Try):
                for h in anc.handlers:
                    if any(isinstance(x, ast.Raise) for x in h.body) and not any(isinstance(x, ast.Return) for x in ast.walk(h)):
                        raise_ok = True
    if not any(isinstance(anc, ast.Try) for s in subs for anc in ancestors(s, par)):
        raise_ok = True   # bare lookup: KeyError propagates (still a rejection)
    ctx.ob(rule, 'boolean_to_python returns only XSD_BOOLEAN_MAP[value] and raises on a miss', f.loc(), lookup_ok and raise_ok,
           '', key='boolean_to_python')
    g = ctx.idx.func('validators.helpers.python_to_boolean')
    ctx.analysed(g.qualname)
    gp = g.params[0]
    cfg = cfg_of(ctx, g)
    ok2 = True
    det = ''
    found_str_branch = False
    for n in cfg.nodes:
        if n.kind == 'return' and n.ast.value is not None and text(n.ast.value) == gp:
            found_str_branch = True
            # must be control dependent on `value in XSD_BOOLEAN_MAP` true
            cd = cfg.control_dependence(kinds='nTFx')
            tests = {(text(b.ast.test), lab) for b, lab in cd[n] if b.kind == 'if'}
            if (f'{gp} in XSD_BOOLEAN_MAP', 'T') not in tests and (f'{gp} not in XSD_BOOLEAN_MAP', 'F') not in tests:
                ok2 = False
                det = f'`return {gp}` not guarded by membership in XSD_BOOLEAN_MAP (guards: {sorted(tests)})'
    ctx.ob(rule, 'python_to_boolean returns a string argument unchanged only after the membership test', g.loc(),
           ok2 and found_str_branch, det, key='python_to_boolean')
    # non-string branch yields 'true'/'false'
    low = [r for r in ast.walk(g.node) if isinstance(r, ast.Return) and r.value is not None and text(r.value) == f'str({gp}).lower()']
    ctx.ob(rule, 'python_to_boolean maps bool to lower-case text', g.loc(), bool(low), '', key='python_to_boolean|lower')
    ctx.explain('C02.b: the boolean codec table and its two accessor functions agree with the XSD boolean lexical space.')


# facet class -> (validator selector, subject predicate description, expected rejecting relation subject REL self.value)
def _subj_len(s): return s == 'len(value)'
def _subj_val(s): return s == 'value'
def _subj_total(s): return s in ('operator.add(a, b)', 'a + b', 'sum(count_digits(value))')
def _subj_frac(s): return s == 'count_digits(value)[1]' or s == 'b'


FACET_SPEC = {
    'XsdLengthFacet': ('length_validator', _subj_len, '!='),
    'XsdMinLengthFacet': ('min_length_validator', _subj_len, '<'),
    'XsdMaxLengthFacet': ('max_length_validator', _subj_len, '>'),
    'XsdMinInclusiveFacet': ('__call__', _subj_val, '<'),
    'XsdMinExclusiveFacet': ('__call__', _subj_val, '<='),
    'XsdMaxInclusiveFacet': ('__call__', _subj_val, '>'),
    'XsdMaxExclusiveFacet': ('__call__', _subj_val, '>='),
    'XsdTotalDigitsFacet': ('__call__', _subj_total, '>'),
    'XsdFractionDigitsFacet': ('__call__', _subj_frac, '>'),
}
NEG = {'<': '>=', '<=': '>', '>': '<=', '>=': '<', '==': '!=', '!=': '=='}


def rejecting_relation(ctx: Ctx, rule: str, f, is_subj, is_ref=lambda s: s == 'self.value'):
    """(relation, node) under which ``f`` raises XMLSchemaValidationError, oriented subject REL self.value."""
    par = enclosing_map(f.node)
    out = []
    for node, rel in find_relations(f.node, is_subj, is_ref):
        # the comparison must be the test of an `if`
        anc = par.get(id(node))
        if not (isinstance(anc, ast.If) and anc.test is node):
            ctx.unrecognised(rule, f.loc(node), f'comparison `{text(node)}` is not an if-test')
        raises = any(isinstance(x, ast.Raise) for s in anc.body for x in ast.walk(s))
        accepts = any(isinstance(s, ast.Return) for s in anc.body)
        if raises and not accepts:
            out.append((rel, node))
        elif accepts and not raises:
            out.append((NEG[rel], node))
        else:
            ctx.unrecognised(rule, f.loc(node), f'branch under `{text(node)}` neither raises nor returns')
    return out


def rule_c(ctx: Ctx) -> None:
    rule = 'C02.c'
    n = 0
    for cname, (sel, is_subj, expect) in FACET_SPEC.items():
        c = ctx.idx.cls(f'{FACETS}.{cname}')
        f = c.methods.get(sel)
        if f is None:
            raise AnalysisError(f'missing anchor {FACETS}.{cname}.{sel}')
        ctx.analysed(f.qualname)
        rels = rejecting_relation(ctx, rule, f, is_subj)
        n += len(rels)
        ok = len(rels) == 1 and rels[0][0] == expect
        ctx.ob(rule, f'{cname}.{sel} rejects exactly when subject {expect} self.value', f.loc(), ok,
               '' if ok else f'found rejecting relation(s) {[r for r, _ in rels]}', key=f'{cname}.{sel}|direction')
        # the selected validator is the one installed by _parse_value (self.validate = self.<sel>)
        pv = c.methods.get('_parse_value')
        if pv is not None:
            tgt = {text(a.value) for a in ast.walk(pv.node) if isinstance(a, ast.Assign) and text(a.targets[0]) == 'self.validate'}
            ok2 = f'self.{sel}' in tgt
            ctx.ob(rule, f'{cname}._parse_value installs {sel} as the validator', pv.loc(), ok2,
                   '' if ok2 else f'installs {sorted(tgt)}', key=f'{cname}|installs')
        # raises XMLSchemaValidationError (not another class) for a rejected value
        rz = [r for r in ast.walk(f.node) if isinstance(r, ast.Raise) and r.exc is not None]
        ok3 = all('XMLSchemaValidationError' in text(r.exc) for r in rz) and bool(rz)
        ctx.ob(rule, f'{cname}.{sel} signals rejection with XMLSchemaValidationError', f.loc(), ok3, '', key=f'{cname}.{sel}|exc')
    ctx.floor(rule, 'facet validator comparisons', n, 9)
    # range validators of helpers.py: reject outside [lo, hi)
    helpers = ctx.idx.module('validators.helpers')
    spec = {'byte_validator': (-2**7, 2**7), 'short_validator': (-2**15, 2**15), 'int_validator': (-2**31, 2**31),
            'long_validator': (-2**63, 2**63), 'unsigned_byte_validator': (0, 2**8), 'unsigned_short_validator': (0, 2**16),
            'unsigned_int_validator': (0, 2**32), 'unsigned_long_validator': (0, 2**64)}
    for name, (lo, hi) in spec.items():
        f = helpers.functions.get(name)
        if f is None:
            raise AnalysisError(f'missing anchor validators.helpers.{name}')
        ctx.analysed(f.qualname)
        ok = False
        det = 'no `if not (lo <= value < hi): raise` form found'
        for n_ in ast.walk(f.node):
            if isinstance(n_, ast.If) and any(isinstance(x, ast.Raise) for x in n_.body):
                t = n_.test
                neg = False
                while isinstance(t, ast.UnaryOp) and isinstance(t.op, ast.Not):
                    neg = not neg
                    t = t.operand
                if neg and isinstance(t, ast.Compare) and len(t.ops) == 2 and text(t.comparators[0]) == f.params[0]:
                    try:
                        a = _const_int(t.left)
                        b = _const_int(t.comparators[1])
                    except ValueError:
                        continue
                    ops = (type(t.ops[0]), type(t.ops[1]))
                    # normalise to half-open integer interval
                    lo_f = a if ops[0] is ast.LtE else a + 1 if ops[0] is ast.Lt else None
                    hi_f = b if ops[1] is ast.Lt else b + 1 if ops[1] is ast.LtE else None
                    ok = (lo_f, hi_f) == (lo, hi)
                    det = '' if ok else f'accepts [{lo_f}, {hi_f}) instead of [{lo}, {hi})'
        ctx.ob(rule, f'{name} accepts exactly [{lo}, {hi})', f.loc(), ok, det, key=f'helpers.{name}|range')
    sign = {'negative_int_validator': '>=', 'positive_int_validator': '<=', 'non_positive_int_validator': '>',
            'non_negative_int_validator': '<'}
    for name, expect in sign.items():
        f = helpers.functions.get(name)
        if f is None:
            raise AnalysisError(f'missing anchor validators.helpers.{name}')
        ctx.analysed(f.qualname)
        rels = rejecting_relation(ctx, rule, f, lambda s, p=f.params[0]: s == p, lambda s: s == '0')
        ok = len(rels) == 1 and rels[0][0] == expect
        ctx.ob(rule, f'{name} rejects exactly when value {expect} 0', f.loc(), ok,
               '' if ok else f'found {[r for r, _ in rels]}', key=f'helpers.{name}|sign')
    ctx.explain('C02.c: the rejecting comparison of each facet validator and of each integer range validator is '
                'normalised (negations, swapped operands, accepting early return) and compared with the XSD table.')


def _const_int(e: ast.AST) -> int:
    if isinstance(e, ast.Constant) and isinstance(e.value, int):
        return e.value
    if isinstance(e, ast.UnaryOp) and isinstance(e.op, ast.USub):
        return -_const_int(e.operand)
    if isinstance(e, ast.BinOp) and isinstance(e.op, ast.Pow):
        return _const_int(e.left) ** _const_int(e.right)
    if isinstance(e, ast.BinOp) and isinstance(e.op, ast.Sub):
        return _const_int(e.left) - _const_int(e.right)
    if isinstance(e, ast.BinOp) and isinstance(e.op, ast.Add):
        return _const_int(e.left) + _const_int(e.right)
    raise ValueError(text(e))


DECODERS = ['XsdSimpleType', 'XsdAtomicBuiltin', 'XsdList', 'XsdUnion', 'XsdAtomicRestriction']


def _is_normalize_call(e: ast.AST) -> bool:
    return isinstance(e, ast.Call) and isinstance(e.func, ast.Attribute) and e.func.attr == 'normalize'


def _is_str_test(e: ast.AST, var: str) -> bool:
    return isinstance(e, ast.Call) and text(e.func) == 'isinstance' and len(e.args) == 2 and text(e.args[0]) == var \
        and {x.strip() for x in text(e.args[1]).strip('()').split(',')} >= {'str'}


def rule_d(ctx: Ctx) -> None:
    rule = 'C02.d'
    sites = 0
    for cname in DECODERS:
        f = ctx.idx.cls(f'{ST}.{cname}').methods.get('raw_decode')
        if f is None:
            raise AnalysisError(f'missing anchor {ST}.{cname}.raw_decode')
        g = cfg_of(ctx, f)
        rd = None
        # pattern facets handed over in a list are applied one by one: `for <x> in patterns: <x>(…)`
        each = {text(lp.target) for lp in ast.walk(f.node) if isinstance(lp, ast.For) and text(lp.iter) == 'patterns' and isinstance(lp.target, ast.Name)}
        for n in g.stmt_nodes():
            for e in n.exprs:
                for c in calls(e):
                    fn = text(c.func)
                    # the restriction hands the value on to its base type: that value is the normalised one too (the stronger whiteSpace
                    # facet of the restriction must reach the base decoder, the facet validators and the result)
                    hand_on = cname == 'XsdAtomicRestriction' and fn == 'base_type.raw_decode'
                    if (fn not in ({'self.patterns', 'patterns', 'self.to_python'} | each) and not hand_on) or not c.args:
                        continue
                    sites += 1
                    a = c.args[0]
                    inst = f'{cname}.raw_decode: argument of {fn}({text(a)}) is whitespace-normalised'
                    if _is_normalize_call(a):
                        ctx.ob(rule, inst, f.loc(c), True, key=f'{cname}|{fn}|{text(a)}')
                        continue
                    if not isinstance(a, ast.Name):
                        ctx.ob(rule, inst, f.loc(c), False, 'argument is neither a .normalize() call nor a local', key=f'{cname}|{fn}|{text(a)}')
                        continue
                    var = a.id
                    if rd is None:
                        rd = g.reaching_defs(kinds='nTFx')
                    defs = rd[n].get(var, set())
                    norm_defs = {d for d in defs if d.kind == 'stmt' and isinstance(d.ast, ast.Assign) and _is_normalize_call(d.ast.value)}
                    other = defs - norm_defs
                    ok = True
                    det = ''
                    for d in other:
                        if d is not g.entry:
                            ok = False
                            det = f'`{var}` may come from `{text(d.ast)[:50]}` (line {d.lineno})'
                            break
                        # raw parameter: only allowed along the non-string branch of isinstance(var, (str, bytes))
                        all_norm = {x for x in g.nodes if x.kind == 'stmt' and isinstance(x.ast, ast.Assign)
                                    and _is_normalize_call(x.ast.value) and text(x.ast.targets[0]) == var}
                        seen = set()
                        stack = [g.entry]
                        bad = None
                        while stack:
                            x = stack.pop()
                            if x in seen or x in all_norm:
                                continue
                            seen.add(x)
                            if x is n:
                                bad = x
                                break
                            for y, lab in g.succ[x]:
                                if lab not in 'nTF':
                                    continue
                                if x.kind == 'if' and lab == 'F' and _is_str_test(x.ast.test, var):
                                    continue   # not a string: nothing to normalise
                                stack.append(y)
                        if bad is not None:
                            ok = False
                            det = f'a str/bytes `{var}` can reach the call without passing `{var} = ….normalize({var})`'
                    ctx.ob(rule, inst, f.loc(c), ok, det, key=f'{cname}|{fn}|{text(a)}')
    ctx.floor(rule, 'lexical-test call sites', sites, 7)
    # list items come from the normalised text
    f = ctx.idx.cls(f'{ST}.XsdList').methods['raw_decode']
    loops = [n for n in walk_no_nested(f.node) if isinstance(n, ast.For) and any(True for _ in calls(n.iter, attr='normalize'))]
    ok = bool(loops) and any(any(True for _ in calls(s, attr='raw_decode', recv='self.item_type')) for lp in loops for s in lp.body)
    ctx.ob(rule, 'XsdList.raw_decode: items are the whitespace-split chunks of the normalised text', f.loc(), ok, '', key='XsdList|chunks')
    ctx.explain('C02.d: by reaching definitions the argument of every pattern test / converter call in the five '
                'raw_decode methods is the result of .normalize() whenever the input is str/bytes.')


def rule_e(ctx: Ctx) -> None:
    rule = 'C02.e'
    f = ctx.idx.cls(f'{ST}.XsdAtomicRestriction').methods.get('raw_decode')
    if f is None:
        raise AnalysisError(f'missing anchor {ST}.XsdAtomicRestriction.raw_decode')
    g = cfg_of(ctx, f)
    rd = g.reaching_defs(kinds='nTFx')
    found = 0
    for n in g.nodes:
        if n.kind == 'for' and text(n.ast.iter) == 'self.validators':
            tv = text(n.ast.target)
            for s in ast.walk(n.ast):
                if isinstance(s, ast.Call) and text(s.func) == tv and s.args:
                    found += 1
                    a = s.args[0]
                    owner = g.owners(s)
                    ok = False
                    det = 'validator argument is not a local'
                    if isinstance(a, ast.Name) and owner:
                        defs = rd[owner[0]].get(a.id, set())
                        ok = bool(defs) and all(
                            d.kind == 'stmt' and isinstance(d.ast, (ast.Assign, ast.AnnAssign)) and
                            isinstance(d.ast.value, ast.Call) and text(d.ast.value.func) == 'base_type.raw_decode'
                            for d in defs)
                        det = '' if ok else f'`{a.id}` defined by ' + ', '.join(sorted(text(d.ast)[:40] if d.ast is not None and d is not g.entry else 'parameter' for d in defs))
                    ctx.ob(rule, 'restriction facets are applied to the value decoded by the base type', f.loc(s), ok, det,
                           key='XsdAtomicRestriction.raw_decode|validators-arg')
    ctx.floor(rule, 'validators loops in XsdAtomicRestriction.raw_decode', found, 1)
    # the base decode forwards validation and context
    bc = [c for c in calls(f.node) if text(c.func) == 'base_type.raw_decode']
    ok = bool(bc) and all([text(a) for a in c.args[1:3]] == ['validation', 'context'] for c in bc)
    ctx.ob(rule, 'base_type.raw_decode receives the same validation mode and context', f.loc(), ok, '', key='XsdAtomicRestriction.raw_decode|base-call')
    ctx.explain('C02.e: the validators loop of XsdAtomicRestriction.raw_decode iterates the value returned by the base type decode.')


def rule_f(ctx: Ctx) -> None:
    rule = 'C02.f'
    tables = builtin_tables(ctx.idx)
    m = ctx.idx.module('validators.builtins')
    spec = {'nm.XSD_STRING': 'preserve', 'nm.XSD_NORMALIZED_STRING': 'replace'}
    n = 0
    for ver, table in sorted(tables.items()):
        for b in table:
            n += 1
            if b.name == 'nm.XSD_ERROR':
                continue
            ws = None
            for x in chain(table, b):   # nearest whiteSpace facet wins (XsdAtomic.get_facet walks the base chain)
                for fr in x.facets:
                    if fr.kind == 'element' and fr.tag == 'nm.XSD_WHITE_SPACE':
                        ws = fr.value
                        break
                if ws is not None:
                    break
            exp = spec.get(b.name, 'collapse')
            ctx.ob(rule, f'[{ver}] {b.name}: whiteSpace is `{exp}`', f'{m.relpath}:{b.node.lineno}', ws == exp,
                   '' if ws == exp else f'effective whiteSpace facet is {ws!r}', key=f'{b.name}|whitespace')
    ctx.floor(rule, 'built-in table entries', n, 80)
    # normalize() implements the three modes
    f = ctx.idx.method(f'{ST}.XsdSimpleType', 'normalize')
    ctx.analysed(f.qualname)
    modes = {}
    for mt in ast.walk(f.node):
        if isinstance(mt, ast.Match) and text(mt.subject) == 'self.white_space':
            for c in mt.cases:
                key = c.pattern.value.value if isinstance(c.pattern, ast.MatchValue) and isinstance(c.pattern.value, ast.Constant) else '_'
                ret = [r for r in c.body if isinstance(r, ast.Return)]
                modes[key] = text(ret[0].value) if ret else ''
    if not modes:
        for i in ast.walk(f.node):
            if isinstance(i, ast.If) and 'self.white_space' in text(i.test):
                for lit in ('replace', 'collapse'):
                    if repr(lit) in text(i.test):
                        ret = [r for r in i.body if isinstance(r, ast.Return)]
                        modes[lit] = text(ret[0].value) if ret else ''
        rets = [r for r in f.node.body if isinstance(r, ast.Return)]
        if rets:
            modes['_'] = text(rets[-1].value)
    ok = 'replace' in modes and 'collapse' in modes and '.strip(' in modes['collapse'] and '.sub(' in modes['collapse'] \
        and '.sub(' in modes['replace'] and '.strip(' not in modes['replace'] and modes.get('_') == 'text'
    ctx.ob(rule, 'normalize(): replace substitutes, collapse substitutes and strips, preserve returns the text', f.loc(), ok,
           '' if ok else f'found {modes}', key='XsdSimpleType.normalize|modes')
    c = ctx.idx.cls(f'{ST}.XsdSimpleType')
    for attr, want in (('_REGEX_SPACE', '[\\n\\r\\t]'), ('_REGEX_SPACES', ' +')):
        a = c.find_attr(attr)
        pat = None
        if a is not None and isinstance(a[1], ast.Call) and a[1].args and isinstance(a[1].args[0], ast.Constant):
            pat = a[1].args[0].value
        ok = pat is not None
        ctx.ob(rule, f'XsdSimpleType.{attr} is a compiled literal pattern', f'{c.module.relpath}:{getattr(a[1], "lineno", 0) if a else 0}', ok,
               '', key=f'XsdSimpleType.{attr}', nontrivial=False)
        ctx.count(f'{rule}:{attr}={pat!r}')
    ctx.explain('C02.f: every built-in other than string/normalizedString has effective whiteSpace=collapse.')


def rule_g(ctx: Ctx, rule: str = 'C02.g') -> None:
    """Pattern hand-off slot: a restriction of a union pushes its patterns on the context (only if the slot is
    empty); the union that consumes them must empty the slot before it decodes a member, on every path."""
    n_cons = 0
    for f in ctx.idx.iter_functions('validators'):
        if isinstance(f.node, ast.Lambda) or 'context.patterns' not in f.module.segment(f.node):
            continue
        g = cfg_of(ctx, f)
        reads = [n for n in g.nodes if n.kind == 'stmt' and isinstance(n.ast, ast.Assign) and text(n.ast.value) == 'context.patterns']
        clears = [n for n in g.nodes if n.kind == 'stmt' and isinstance(n.ast, ast.Assign) and text(n.ast.targets[0]) == 'context.patterns'
                  and text(n.ast.value) == 'None']
        pushes = [n for n in g.nodes if n.kind == 'stmt' and isinstance(n.ast, ast.Assign) and text(n.ast.targets[0]) == 'context.patterns'
                  and text(n.ast.value) != 'None']
        short = f.qualname.split('.', 2)[-1]
        for r in reads:
            n_cons += 1
            members = [n for n, c in call_nodes(g, lambda c: isinstance(c.func, ast.Attribute) and c.func.attr in ('raw_decode', 'raw_encode'))]
            w = g.must_pass(r, members + [g.exit], clears, kinds='nTF')
            ok = w is None and bool(clears)
            ctx.ob(rule, f'{short}: the pushed patterns are taken and the context slot is emptied before any member is processed', f.loc(r.ast), ok,
                   '' if ok else 'the slot keeps the patterns of this type: the next union decoded with the same context is tested against them '
                   '(and its own patterns are never pushed because the slot is not empty)', key=f'{f.qualname}|patterns-slot|consume')
        for p_ in pushes:
            gs = guards(ctx, f, p_)
            ok = any(t.replace(' ', '') in ('context.patternsisNone', 'context.patternsisNoneandisinstance(self.primitive_type,XsdUnion)') and lab == 'T'
                     or ('context.patterns is None' in t and lab == 'T') for t, lab in gs) and text(p_.ast.value) in ('self.patterns', '[self.patterns]')
            ctx.ob(rule, f'{short}: patterns are pushed only into an empty slot', f.loc(p_.ast), ok, '' if ok else f'guards {sorted(gs)}',
                   key=f'{f.qualname}|patterns-slot|push')
    ctx.floor(rule, 'consumers of the context.patterns slot', n_cons, 2)
    cl = ctx.idx.func('xmlschema.validators.validation.ValidationContext.clear')
    ok = any(isinstance(s_, ast.Assign) and text(s_.targets[0]) == 'self.patterns' and text(s_.value) == 'None' for s_ in walk_no_nested(cl.node))
    ctx.ob(rule, 'ValidationContext.clear() empties the patterns slot', cl.loc(), ok, '', key='patterns-slot|clear')
    ctx.explain(f'{rule}: typestate of the context.patterns hand-off slot — every consumer empties it (must-pass-through) before '
                'processing a member type; producers push only into an empty slot.')


def rule_h(ctx: Ctx) -> None:
    """A complex type with simple content answers questions about its value space through the *same-named* member of its content
    type (facet lookup along the base chain, whitespace, validity, decoding): the callers in simple_types.py rely on that."""
    rule = 'C02.h'
    ct = ctx.idx.cls('xmlschema.validators.complex_types.XsdComplexType')
    st = ctx.idx.cls('xmlschema.validators.simple_types.XsdSimpleType')
    n = 0
    for name, m in sorted(ct.methods.items()):
        if isinstance(m.node, ast.Lambda) or st.find_method(name) is None:
            continue
        # methods that exist on the simple type too and answer from self.content under the simple-content guard
        rets = [r for r in ast.walk(m.node) if isinstance(r, ast.Return) and r.value is not None
                and any(isinstance(x, ast.Attribute) and text(x.value) == 'self.content' for x in ast.walk(r.value))]
        if not rets:
            continue
        enc = enclosing_map(m.node)
        for r in rets:
            guarded = any(isinstance(a, ast.If) and 'isinstance(self.content, XsdSimpleType)' in text(a.test) for a in ancestors(r, enc)) \
                or any(isinstance(a, ast.IfExp) for a in ast.walk(r.value))
            if not guarded and name not in ('get_facet',):
                continue
            n += 1
            v = r.value
            same = isinstance(v, ast.Call) and isinstance(v.func, ast.Attribute) and text(v.func.value) == 'self.content' and v.func.attr == name
            ctx.ob(rule, f'XsdComplexType.{name}: with simple content the answer is `self.content.{name}(…)` of the content type', m.loc(r), same,
                   '' if same else f'returns `{text(v)[:60]}`: not the same-named member of the content type - e.g. a facet lookup that reads only the '
                   'local `facets` mapping misses the whiteSpace/pattern facets inherited along the base chain, so a pattern is tested on '
                   'un-normalised text', key=f'XsdComplexType.{name}|delegates|{text(v)[:50]}')
    ctx.floor(rule, 'same-name delegations of XsdComplexType to its simple content', n, 5)
    ctx.explain('C02.h: every method of XsdComplexType that also exists on XsdSimpleType and answers from self.content under the '
                'simple-content guard returns the call of the same-named member (forwarding of the arguments: C04.c).')


def rule_i(ctx: Ctx) -> None:
    """Typed decoding is requested per family (decimal_type, datetime_types, binary_types): whether the values of one family are
    kept as typed objects depends on the option of that family alone."""
    rule = 'C02.i'
    f = ctx.idx.method('xmlschema.validators.validation.DecodeContext', '__init__')
    ctx.analysed(f.qualname)
    g = cfg_of(ctx, f)
    fam = {'AbstractDateTime': 'datetime_types', 'Duration': 'datetime_types', 'AbstractBinary': 'binary_types', 'decimal.Decimal': 'decimal_type', 'Decimal': 'decimal_type'}
    n = 0
    for node, c in call_nodes(g, lambda c: isinstance(c.func, ast.Attribute) and c.func.attr in ('append', 'extend') and text(c.func.value) == 'keep_datatypes'):
        names = [text(a) for a in c.args] if c.func.attr == 'append' else [text(x) for a in c.args for x in getattr(a, 'elts', [a])]
        for nm_ in names:
            opt = fam.get(nm_)
            if opt is None:
                continue
            n += 1
            gs = guards(ctx, f, node)
            foreign = sorted({t for t, lab in gs for o in set(fam.values()) if o != opt and o in t})
            own = any(opt in t for t, lab in gs)
            ok = own and not foreign
            ctx.ob(rule, f'DecodeContext: `{nm_}` values are kept typed exactly when `{opt}` asks for it', f.loc(c), ok,
                   '' if ok else (f'the append also depends on `{foreign[0]}`: with both options set the values of this family come back as strings'
                                  if foreign else f'not guarded by `{opt}`'), key=f'DecodeContext|keep|{nm_}')
    ctx.floor(rule, 'typed-family registrations in DecodeContext.__init__', n, 4)
    ctx.explain('C02.i: path condition of every keep_datatypes.append/extend in DecodeContext.__init__ mentions the option of its own '
                'family and no option of another family.')


def rule_j(ctx: Ctx) -> None:
    """A union value belongs to the *first* member type that accepts it, so the order of `member_types` is part of the value space:
    the types named by the memberTypes attribute come first, in order, then the <simpleType> children (XSD 1.0/1.1 §3.16.2)."""
    rule = 'C02.j'
    f = ctx.idx.method('xmlschema.validators.simple_types.XsdUnion', '_parse')
    ctx.analysed(f.qualname)
    g = cfg_of(ctx, f)
    apps = [(n, c) for n, c in call_nodes(g, lambda c: text(c.func) == 'self.member_types.append')]
    ctx.floor(rule, 'member type registrations in XsdUnion._parse', len(apps), 2)
    attr, kids = [], []
    for n, c in apps:
        gs = ' '.join(t for t, lab in guards(ctx, f, n))
        if 'memberTypes' in gs:
            attr.append(n)
        elif 'self.elem' in gs and 'for ' in gs:
            kids.append(n)
    ok = bool(attr) and bool(kids)
    if ok:
        # no attribute member can be appended after a child member
        after_kids = g.reachable([m for k in kids for m, lab in g.succ[k] if lab in 'nTF'], kinds='nTF')
        ok = not any(a in after_kids for a in attr)
    ctx.ob(rule, 'XsdUnion._parse: the members named by memberTypes are registered before the <simpleType> children', f.loc(attr[0].ast) if attr else f.loc(), ok,
           '' if ok else 'a memberTypes member can be appended after a child member: <xs:union memberTypes="xs:int"><xs:simpleType>…xs:string…</xs:simpleType></xs:union> '
           'decodes "1" with the string member (\'1\') instead of the int member (1)', key='XsdUnion._parse|member-order')
    ctx.explain('C02.j: CFG reachability between the two kinds of `self.member_types.append` sites of XsdUnion._parse (attribute loop, '
                'children loop).')


def rule_k(ctx: Ctx, rule: str = 'C02.k') -> None:
    """A value of a restricted type satisfies the pattern facets of *every* step of the derivation.  A restriction of a union hands its
    patterns to the union through the context slot; when the slot is already taken by an outer restriction, the patterns of this step
    must still be applied (tested here, or added to what the slot holds)."""
    n = 0
    for meth in ('raw_decode', 'raw_encode'):
        f = ctx.idx.method('xmlschema.validators.simple_types.XsdAtomicRestriction', meth)
        ctx.analysed(f.qualname)
        g = cfg_of(ctx, f)
        for node in g.nodes:
            if not (node.kind == 'stmt' and isinstance(node.ast, ast.Assign) and text(node.ast.targets[0]) == 'context.patterns' and text(node.ast.value) in ('self.patterns', '[self.patterns]')):
                continue
            gs = guards(ctx, f, node)
            EMPTY_T = ('context.patterns is None', 'not context.patterns', 'len(context.patterns) == 0')     # true edge: the slot is empty
            EMPTY_F = ('context.patterns is not None', 'context.patterns', 'len(context.patterns) > 0')      # false edge: the slot is empty
            cond = [t for t, lab in gs if (lab == 'T' and t in EMPTY_T) or (lab == 'F' and t in EMPTY_F)]
            n += 1
            if not cond:
                ctx.ob(rule, f'XsdAtomicRestriction.{meth}: the patterns of this step are applied also when an outer restriction of the same union already uses the hand-off slot',
                       f.loc(node.ast), False, 'the hand-off overwrites the slot unconditionally: the patterns an outer restriction step pushed are lost',
                       key=f'XsdAtomicRestriction.{meth}|patterns-of-every-step')
                continue
            # is there anything for the other case (slot taken)?
            other = []
            for m in g.stmt_nodes():
                gm = guards(ctx, f, m)
                if any((lab == 'F' and t in EMPTY_T) or (lab == 'T' and t in EMPTY_F) for t, lab in gm):
                    if any(text(c.func) == 'self.patterns' for e in m.exprs for c in calls(e)) or \
                            any(isinstance(c.func, ast.Attribute) and text(c.func.value) == 'context.patterns' and c.func.attr in ('append', 'extend', 'add') for e in m.exprs for c in calls(e)) or \
                            (isinstance(m.ast, (ast.Assign, ast.AugAssign)) and 'context.patterns' in text(m.ast)):
                        other.append(m)
            ok = bool(other)
            ctx.ob(rule, f'XsdAtomicRestriction.{meth}: the patterns of this step are applied also when an outer restriction of the same union already uses the hand-off slot',
                   f.loc(node.ast), ok, '' if ok else f'the hand-off is guarded by `{cond[0][:60]}` and nothing is done otherwise: in U <- R1 (pattern [a-c]+) <- R2 (pattern [c-e]+) only the '
                   'patterns of R2 reach the union; `d` is valid for R2 although its base type R1 rejects it', key=f'XsdAtomicRestriction.{meth}|patterns-of-every-step')
    ctx.floor(rule, 'pattern hand-offs of union restrictions', n, 2)
    ctx.explain(f'{rule}: for each `context.patterns = self.patterns` guarded by an empty-slot test there must be a statement for the '
                'taken-slot case that applies or accumulates the patterns of this step.')


BOUND_FACETS = {
    # class -> outcomes of comparing value with the bound on which the value must be REJECTED
    'XsdMinInclusiveFacet': {'lt', 'inc'}, 'XsdMinExclusiveFacet': {'lt', 'eq', 'inc'},
    'XsdMaxInclusiveFacet': {'gt', 'inc'}, 'XsdMaxExclusiveFacet': {'gt', 'eq', 'inc'},
}
_ORDER = {'lt': {ast.Lt: True, ast.LtE: True, ast.Gt: False, ast.GtE: False, ast.Eq: False, ast.NotEq: True},
          'eq': {ast.Lt: False, ast.LtE: True, ast.Gt: False, ast.GtE: True, ast.Eq: True, ast.NotEq: False},
          'gt': {ast.Lt: False, ast.LtE: False, ast.Gt: True, ast.GtE: True, ast.Eq: False, ast.NotEq: True},
          # incomparable (NaN, partially ordered durations): every order relation is false
          'inc': {ast.Lt: False, ast.LtE: False, ast.Gt: False, ast.GtE: False, ast.Eq: False, ast.NotEq: True}}
_MIRROR = {ast.Lt: ast.Gt, ast.Gt: ast.Lt, ast.LtE: ast.GtE, ast.GtE: ast.LtE, ast.Eq: ast.Eq, ast.NotEq: ast.NotEq}


def _eval_order(e: ast.AST, outcome: str):
    """truth of a test over `value` and `self.value` when the comparison of the two has the given outcome; None if not of that form."""
    if isinstance(e, ast.UnaryOp) and isinstance(e.op, ast.Not):
        r = _eval_order(e.operand, outcome)
        return None if r is None else not r
    if isinstance(e, ast.BoolOp):
        vs = [_eval_order(v, outcome) for v in e.values]
        if any(v is None for v in vs):
            return None
        return all(vs) if isinstance(e.op, ast.And) else any(vs)
    if isinstance(e, ast.Compare) and len(e.ops) == 1:
        l, r, op = text(e.left), text(e.comparators[0]), type(e.ops[0])
        if (l, r) == ('value', 'self.value'):
            return _ORDER[outcome].get(op)
        if (l, r) == ('self.value', 'value'):
            return _ORDER[outcome].get(_MIRROR.get(op))
    return None


def rule_l(ctx: Ctx) -> None:
    """Bound facets: a value is accepted only when the required order relation with the bound HOLDS.  Tested the other way round
    (`if value < bound: reject`) a value that is not comparable with the bound - NaN, a duration incomparable with the bound - passes
    every bound facet.  The rejecting test of each facet is evaluated on the four outcomes less / equal / greater / incomparable."""
    rule = 'C02.l'
    n = 0
    for cname, reject_on in BOUND_FACETS.items():
        c = ctx.idx.cls(f'xmlschema.validators.facets.{cname}')
        f = c.methods.get('__call__')
        if f is None:
            raise AnalysisError(f'missing anchor {cname}.__call__')
        ctx.analysed(f.qualname)
        g = cfg_of(ctx, f)
        tests = []
        for x in g.nodes:
            if x.kind == 'if' and any(m.kind == 'raise' or (m.kind == 'stmt' and any(r.kind == 'raise' for r, _ in g.succ[m])) for m, lab in g.succ[x] if lab == 'T') \
                    and _eval_order(x.ast.test, 'lt') is not None:
                tests.append(x)
        if len(tests) != 1:
            raise AnalysisError(f'UNRECOGNISED-IDIOM {rule}: the rejecting test of {cname}.__call__')
        t = tests[0]
        for outcome, label in (('lt', 'less than the bound'), ('eq', 'equal to the bound'), ('gt', 'greater than the bound'), ('inc', 'not comparable with the bound')):
            n += 1
            got = _eval_order(t.ast.test, outcome)
            want = outcome in reject_on
            ok = got == want
            ctx.ob(rule, f'{cname}: a value {label} is {"rejected" if want else "accepted"}', f.loc(t.ast), ok,
                   '' if ok else (f'`{text(t.ast.test)}` {"rejects" if got else "accepts"} it' +
                                  (': NaN passes the facet (<a>NaN</a> is valid for a restriction of xs:double with this bound), and so does a duration that is incomparable '
                                   'with the bound' if outcome == 'inc' else '')), key=f'{cname}|order|{outcome}')
    ctx.floor(rule, 'bound facet x order outcome', n, 16)
    ctx.explain('C02.l: the rejecting test of the four bound facets evaluated as a table over the outcomes {less, equal, greater, incomparable} of comparing value and bound '
                '(in the incomparable row every order comparison is false).')


def _bool_positions(e: ast.AST, out: list):
    """sub-expressions of e whose *truth value* is taken (operands of and/or/not, tests, the element expression of any()/all())."""
    if isinstance(e, ast.BoolOp):
        for v in e.values:
            _bool_positions(v, out)
    elif isinstance(e, ast.UnaryOp) and isinstance(e.op, ast.Not):
        _bool_positions(e.operand, out)
    elif isinstance(e, ast.IfExp):
        _bool_positions(e.test, out)
    else:
        out.append(e)


def rule_m(ctx: Ctx) -> None:
    """The members of an enumeration are decoded values: 0, 0.0, False, Decimal('0') and a zero duration are members like any other.  Code that
    asks whether the enumeration admits only the empty string (is_empty: "character data is not allowed because content is empty") must compare the
    members with '' - the truth value of a member says nothing about its lexical form."""
    rule = 'C02.m'
    n = 0
    for f in ctx.idx.iter_functions('validators'):
        if isinstance(f.node, ast.Lambda):
            continue
        fed = {id(c.args[0]) for c in ast.walk(f.node) if isinstance(c, ast.Call) and isinstance(c.func, ast.Name) and c.func.id in ('any', 'all') and c.args}
        for x in ast.walk(f.node):
            # (1) any(E) / all(E) / filter(None, E) directly over the member list
            if isinstance(x, ast.Call) and isinstance(x.func, ast.Name) and x.func.id in ('any', 'all', 'filter', 'bool') and x.args:
                arg = x.args[-1]
                if isinstance(arg, ast.Attribute) and arg.attr == 'enumeration' and x.func.id in ('any', 'all', 'filter'):
                    n += 1
                    ctx.ob(rule, f'{f.qualname.split(".", 2)[-1]}: `{text(x)[:50]}` does not take the truth value of the enumeration members', f.loc(x), False,
                           'the members are decoded values: an enumeration of the single value 0 (or 0.0, false) is taken for an enumeration of empty strings - the element '
                           'then refuses the very value the facet admits ("character data is not allowed because content is empty")',
                           key=f'{f.qualname}|member-truth|{text(x)[:40]}')
            # (2) comprehension / loop over the member list: the loop variable is never in a boolean position
            gens = []
            if isinstance(x, (ast.GeneratorExp, ast.ListComp, ast.SetComp)):
                gens = [(g.target, ([x.elt] if id(x) in fed else []) + list(g.ifs), True) for g in x.generators
                        if isinstance(g.iter, ast.Attribute) and g.iter.attr == 'enumeration']
            elif isinstance(x, ast.For) and isinstance(x.iter, ast.Attribute) and x.iter.attr == 'enumeration':
                gens = [(x.target, [t.test for b in x.body for t in ast.walk(b) if isinstance(t, (ast.If, ast.While, ast.IfExp))], False)]
            for tgt, exprs, is_comp in gens:
                if not isinstance(tgt, ast.Name):
                    continue
                n += 1
                bad = []
                for e in exprs:
                    pos: list = []
                    _bool_positions(e, pos)
                    # the element expression of a comprehension is a boolean position only when the comprehension feeds any()/all()
                    for q in pos:
                        if isinstance(q, ast.Name) and q.id == tgt.id:
                            bad.append(q)
                        elif isinstance(q, ast.Call) and isinstance(q.func, ast.Name) and q.func.id == 'bool' and q.args and text(q.args[0]) == tgt.id:
                            bad.append(q)
                ok = not bad
                ctx.ob(rule, f'{f.qualname.split(".", 2)[-1]}: the loop over `{text(x.iter if isinstance(x, ast.For) else [g.iter for g in x.generators][0])}` compares the members, it does not take their truth value',
                       f.loc(bad[0]) if bad else f.loc(x), ok,
                       '' if ok else f'`{tgt.id}` is used as a condition: the member 0 (0.0, false, a zero duration) counts as "empty"', key=f'{f.qualname}|member-loop|{tgt.id}')
    ie = ctx.idx.method('xmlschema.validators.simple_types.XsdSimpleType', 'is_empty')
    cmp_ok = any(isinstance(c, ast.Compare) and len(c.ops) == 1 and isinstance(c.ops[0], (ast.Eq, ast.NotEq)) and isinstance(c.comparators[0], ast.Constant) and c.comparators[0].value == ''
                 for c in ast.walk(ie.node))
    ctx.ob(rule, "XsdSimpleType.is_empty compares the enumeration members with ''", ie.loc(), cmp_ok or 'enumeration' not in text(ie.node),
           '' if cmp_ok else "no `== ''` comparison left in is_empty although it consults the enumeration", key='is_empty|lexical-comparison')
    ctx.floor(rule, 'walks over enumeration members', n, 1)
    ctx.explain("C02.m: no any()/all()/filter() directly over `….enumeration`, and in every comprehension or loop over it the loop variable never stands in a boolean position "
                "(operand of and/or/not, if-test, element of the comprehension); XsdSimpleType.is_empty compares the members with ''.")


def rule_n(ctx: Ctx) -> None:
    """fractionDigits / totalDigits count *significant* digits, so every spelling of zero counts (0, 0).  str(Decimal) switches to exponent notation for
    small values - Decimal('0.0000000') is '0E-7' - and the exponent arithmetic of count_digits (digits minus exponent) is meaningless for an all-zero
    significand: the branch needs a zero test before it computes."""
    rule = 'C02.n'
    f = ctx.idx.func('xmlschema.utils.decoding.count_digits')
    ctx.analysed(f.qualname)
    g = cfg_of(ctx, f)
    rets = [r for r in g.nodes if r.kind == 'return' and r.ast.value is not None]
    arith = [r for r in rets if any(isinstance(x, ast.Name) and x.id == 'exponent' for x in ast.walk(r.ast.value))]
    ctx.floor(rule, 'returns of count_digits computed from the exponent', len(arith), 2)
    zero = [r for r in rets if isinstance(r.ast.value, ast.Tuple) and all(isinstance(e, ast.Constant) and e.value == 0 for e in r.ast.value.elts)]
    guards_ok = []
    for z in zero:
        gs = guards(ctx, f, z)
        if any(lab == 'T' and 'significand' in t for t, lab in gs) or any(lab == 'F' and 'significand' in t for t, lab in gs):
            guards_ok.append(z)
    # the arithmetic returns are reached only when the zero test was made and failed
    tested = bool(guards_ok) and all(any('significand' in t for t, lab in guards(ctx, f, a)) for a in arith)
    ctx.ob(rule, 'count_digits: the exponent arithmetic is reached only after an all-zero significand was answered (0, 0)', f.loc(arith[0].ast) if arith else f.loc(), tested,
           '' if tested else "no zero test on the stripped significand before `num_digits - exponent - 1`: Decimal('0.0000000') is '0E-7' and counts 6 fraction digits - "
           "<d>0.0000000</d> is rejected by fractionDigits=2 although 0.00 and 1.0000000 are accepted", key='count_digits|zero-significand')
    ctx.explain('C02.n: in utils.decoding.count_digits a `return 0, 0` guarded by a test on `significand` exists and both returns that use `exponent` are control dependent on that test.')


XML_WS = frozenset(' \t\n\r')


def _regex_chars(pattern: str):
    """the set of characters a whitespace pattern can consume, from its parse tree (None when a category such as \\s - Unicode-wide for str patterns - occurs)."""
    import re._parser as rp     # the regex AST of the standard library
    out: set = set()

    def walk(items) -> bool:
        for op, av in items:
            name = str(op)
            if name == 'LITERAL':
                out.add(chr(av))
            elif name == 'IN':
                for o2, a2 in av:
                    n2 = str(o2)
                    if n2 == 'LITERAL':
                        out.add(chr(a2))
                    elif n2 == 'RANGE':
                        if a2[1] - a2[0] > 64:
                            return False
                        out.update(chr(c) for c in range(a2[0], a2[1] + 1))
                    else:
                        return False        # CATEGORY, NEGATE
            elif name in ('MAX_REPEAT', 'MIN_REPEAT'):
                if not walk(av[2]):
                    return False
            elif name == 'SUBPATTERN':
                if not walk(av[3]):
                    return False
            elif name == 'BRANCH':
                if not all(walk(b) for b in av[1]):
                    return False
            else:
                return False                # CATEGORY (\\s), ANY, ...
        return True
    return out if walk(rp.parse(pattern)) else None


def rule_o(ctx: Ctx) -> None:
    """The whiteSpace facet knows four characters: #x20, #x9, #xA, #xD.  NO-BREAK SPACE, EM SPACE and the other Unicode spaces are ordinary characters
    of a value: they count for length, make an integer or boolean literal invalid and do not separate list items.  Python's `\\s`, str.strip() and
    str.split() without arguments are Unicode-wide, so the normalisation and the list splitting spell the characters out."""
    rule = 'C02.o'
    idx = ctx.idx
    c = idx.cls('xmlschema.validators.simple_types.XsdSimpleType')
    nf = c.find_method('normalize')
    ctx.analysed(nf.qualname)
    used = sorted({x.attr for x in ast.walk(nf.node) if isinstance(x, ast.Attribute) and isinstance(x.value, ast.Name) and x.value.id == 'self' and 'REGEX' in x.attr.upper()})
    ctx.floor(rule, 'whitespace patterns used by XsdSimpleType.normalize', len(used), 2)
    for a in used:
        hit = c.find_attr(a)
        pat = None
        if hit is not None:
            node = hit[1]
            v = node if isinstance(node, ast.Call) else getattr(node, 'value', None)
            if isinstance(v, ast.Call) and text(v.func) == 're.compile' and v.args and isinstance(v.args[0], ast.Constant) and isinstance(v.args[0].value, str):
                pat = v.args[0].value
        if pat is None:
            raise AnalysisError(f'UNRECOGNISED-IDIOM {rule}: pattern of {a}')
        chars = _regex_chars(pat)
        ok = chars is not None and chars <= XML_WS
        ctx.ob(rule, f'XsdSimpleType.{a} = {pat!r} consumes XML whitespace only', f'{c.module.relpath}:{hit[1].lineno}', ok,
               '' if ok else ('the pattern contains a character class escape (\\s is Unicode-wide for str)' if chars is None else f'also consumes {sorted(chars - XML_WS)!r}') +
               ": '\\u00a0abc\\u2003' is collapsed to 'abc' - accepted by a token of length 3, '\\u00a0true' is a boolean", key=f'normalize|pattern|{a}')
    # no Unicode-wide strip()/split() on the value in normalize and in the list splitter
    n = 0
    for q in ('xmlschema.validators.simple_types.XsdSimpleType.normalize', 'xmlschema.validators.simple_types.XsdList.raw_decode'):
        f = idx.func(q)
        ctx.analysed(q)
        for cl in calls(f.node):
            if isinstance(cl.func, ast.Attribute) and cl.func.attr in ('strip', 'lstrip', 'rstrip', 'split') and \
                    any(isinstance(y, ast.Call) and isinstance(y.func, ast.Attribute) and y.func.attr in ('sub', 'normalize') for y in ast.walk(cl.func.value)):
                n += 1
                ok = bool(cl.args) and isinstance(cl.args[0], ast.Constant) and isinstance(cl.args[0].value, str) and set(cl.args[0].value) <= XML_WS
                ctx.ob(rule, f'{q.split(".", 3)[-1]}: `{text(cl)[-40:]}` names the XML whitespace characters', f.loc(cl), ok,
                       '' if ok else f"`.{cl.func.attr}()` without arguments is Unicode-wide: '1\\u00a02' is split into two list items / a NO-BREAK SPACE at the ends is stripped",
                       key=f'{q}|{cl.func.attr}')
    ctx.floor(rule, 'strip/split calls on the normalised value', n, 2)
    ctx.explain('C02.o: the regex ASTs (re._parser) of the patterns XsdSimpleType.normalize substitutes contain only literals / sets within {#x20, #x9, #xA, #xD} - no category '
                'escape; strip()/split() applied to the normalised value in normalize and XsdList.raw_decode carry an explicit argument within the same set.')


RULES = [rule_a, rule_b, rule_c, rule_d, rule_e, rule_f, rule_g, rule_h, rule_i, rule_j, rule_k, rule_l, rule_m, rule_n, rule_o]
