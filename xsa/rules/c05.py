"""C05 — round trip; strict encode is sound (structural clauses).

C05.a no collected encode error is dropped (XsdElement.raw_encode, XsdGroup.raw_encode)
C05.b encoder lexical table (builtins.py)
C05.c encode-side guards: simple-type encoders validate what they return
"""
from __future__ import annotations

import ast

from ..astutil import calls, text, walk_no_nested
from ..index import AnalysisError
from ..report import Ctx
from ..tables import builtin_tables
from .c01 import consumer_loops
from .common import call_nodes, cfg_of, flush_rule, guards, is_reporter_call

ELEM_ENCODE = 'xmlschema.validators.elements.XsdElement.raw_encode'
GROUP_ENCODE = 'xmlschema.validators.groups.XsdGroup.raw_encode'

# str() of these Python types is not in the XSD lexical space of the built-in they decode from
STR_NOT_LEXICAL = {
    'float': "str(float('inf')) == 'inf', str(float('nan')) == 'nan' (XSD: INF, NaN)",
    'bool': "str(True) == 'True' (XSD: true)",
    'Decimal': "str(Decimal('1E+2')) == '1E+2' (xs:decimal has no exponent form)",
}


def rule_a(ctx: Ctx) -> None:
    rule = 'C05.a'
    fe = ctx.idx.func(ELEM_ENCODE)
    flush_rule(ctx, rule, fe, 'errors', 'elem', min_appends=8)
    g = cfg_of(ctx, fe)
    # exits that return no element (`return None`) are reachable only before the first append
    appends = [n for n, c in call_nodes(g, lambda c: text(c.func) == 'errors.append')]
    after = set()
    for a in appends:
        after |= g.reachable([a], kinds='nTF')
    for r in g.nodes:
        if r.kind == 'return' and (r.ast.value is None or text(r.ast.value) == 'None'):
            ok = r not in after
            ctx.ob(rule, 'XsdElement.raw_encode: `return None` is not reachable after an error was collected', fe.loc(r.ast), ok, '',
                   key=f'{ELEM_ENCODE}|return-none|{sorted(guards(ctx, fe, r))[:2]}')
    fg = ctx.idx.func(GROUP_ENCODE)
    consumer_loops(ctx, rule, GROUP_ENCODE, 'errors', 3)
    flush_rule(ctx, rule, fg, 'errors', 'elem', min_appends=4)
    # an exception collected from the simple-type encoder is re-raised only when it already carries an element
    for h in [n for n in g.nodes if n.kind == 'handler' and 'XMLSchemaValidationError' in text(n.ast.type) and n.ast.name]:
        body = h.ast.body
        has_append = any(True for s in body for _ in calls(s, attr='append', recv='errors'))
        has_raise = any(isinstance(x, ast.Raise) for s in body for x in ast.walk(s))
        if has_append or has_raise:
            ok = has_raise or has_append
            # every path through the handler either raises or appends
            hn = h
            leave = [m for m in g.reachable([hn], kinds='nTF') if m.ast is not None and not any(m.ast is x for s in body for x in ast.walk(s)) and m is not hn]
            apps = {n for n in g.nodes if n.kind == 'stmt' and any(True for _ in calls(n.ast, attr='append', recv='errors'))}
            w = None
            for tgt in leave[:1]:
                w = g.must_pass(hn, leave, apps, kinds='nTF')
            ctx.ob(rule, f'XsdElement.raw_encode: `except {text(h.ast.type)} as {h.ast.name}` either re-raises or records the error',
                   fe.loc(h.ast), ok and w is None, '' if w is None else 'a path leaves the handler without recording the error',
                   key=f'{ELEM_ENCODE}|handler|{text(body[0])[:40]}')
    ctx.explain('C05.a: flush rule (CFG must-pass-through) on the local errors lists of XsdElement.raw_encode and '
                'XsdGroup.raw_encode: every path from an errors.append to the normal exit reports the collected errors in '
                'the caller\'s mode, attached to the produced element.')


def rule_b(ctx: Ctx) -> None:
    rule = 'C05.b'
    tables = builtin_tables(ctx.idx)
    m = ctx.idx.module('validators.builtins')
    seen = set()
    n = 0
    for ver, table in sorted(tables.items()):
        for b in table:
            n += 1
            if id(b.node) in seen:
                continue
            seen.add(id(b.node))
            pt = b.python_type.split('.')[-1]
            enc = b.from_python
            loc = f'{m.relpath}:{b.node.lineno}'
            if pt in STR_NOT_LEXICAL or pt == 'int':
                if pt == 'int':
                    # str(int) is lexical, but bool is an int subclass: the encoder must normalise through int()
                    ok = enc != 'str'
                    ctx.ob(rule, f'{b.name}: python type int is encoded by a repo encoder (bool is an int: str(True) is not lexical)',
                           loc, ok, '' if ok else 'encoder is str', key=f'{b.name}|encoder|int')
                    continue
                ok = enc != 'str'
                tgt = ctx.idx.resolve_name(m, enc) if ok else None
                if ok and (tgt is None or tgt not in ctx.idx.functions):
                    ok = False
                ctx.ob(rule, f'{b.name}: values of python type {pt} are encoded by a repo encoder, not str() — {STR_NOT_LEXICAL[pt]}',
                       loc, ok, '' if ok else f'encoder is `{enc}`', key=f'{b.name}|encoder|{pt}')
            else:
                ctx.ob(rule, f'{b.name}: encoder `{enc}` for python type {pt} (str() of the type is its lexical form: trusted datatype)',
                       loc, True, key=f'{b.name}|encoder-trusted', nontrivial=False)
    ctx.floor(rule, 'built-in table entries', n, 80)
    # the repo encoders map the special values
    h = ctx.idx.module('validators.helpers')
    f = h.functions.get('python_to_float')
    if f is None:
        raise AnalysisError('missing anchor validators.helpers.python_to_float')
    ctx.analysed(f.qualname)
    consts = {x.value for x in ast.walk(f.node) if isinstance(x, ast.Constant) and isinstance(x.value, str)}
    ok = {'NaN', 'INF', '-INF'} <= consts and any(text(c.func) == 'isnan' for c in calls(f.node))
    rets = {text(r.value) for r in ast.walk(f.node) if isinstance(r, ast.Return)}
    ok = ok and {"'NaN'", "'INF'", "'-INF'"} <= {r.replace('"', "'") for r in rets}
    ctx.ob(rule, 'python_to_float maps nan/inf/-inf to NaN/INF/-INF', f.loc(), ok, '', key='python_to_float|specials')
    f = h.functions.get('python_to_int')
    if f is None:
        raise AnalysisError('missing anchor validators.helpers.python_to_int')
    rets = [text(r.value) for r in ast.walk(f.node) if isinstance(r, ast.Return)]
    ok = rets == [f'str(int({f.params[0]}))']
    ctx.ob(rule, 'python_to_int normalises through int()', f.loc(), ok, '', key='python_to_int')
    ctx.trusted.append('elementpath.datatypes: str() of a datatype instance is its XSD lexical form')
    ctx.explain('C05.b: every built-in entry whose python type has a non-lexical str() (float, bool, Decimal) needs a repo encoder.')


def rule_c(ctx: Ctx) -> None:
    """What an atomic encoder returns has passed the type's validators and patterns in the caller's mode."""
    rule = 'C05.c'
    f = ctx.idx.func('xmlschema.validators.simple_types.XsdAtomicBuiltin.raw_encode')
    g = cfg_of(ctx, f)
    rets = [n for n in g.nodes if n.kind == 'return' and text(n.ast.value) == 'text']
    ctx.floor(rule, '`return text` exits of XsdAtomicBuiltin.raw_encode', len(rets), 1)
    vloops = [n for n in g.nodes if n.kind == 'for' and text(n.ast.iter) == 'self.validators']
    pats = [n for n, c in call_nodes(g, lambda c: text(c.func) == 'self.patterns')]
    for r in rets:
        w = g.must_pass(g.entry, [r], vloops, kinds='nTF')
        ctx.ob(rule, 'XsdAtomicBuiltin.raw_encode: the returned text passed the validators loop', f.loc(r.ast), w is None and bool(vloops), '',
               key='XsdAtomicBuiltin.raw_encode|validators')
        # patterns: applied whenever the type has them
        ptest = [n for n in g.nodes if n.kind == 'if' and text(n.ast.test) in ('self.patterns is not None', 'self.patterns')]
        w2 = g.must_pass(g.entry, [r], ptest, kinds='nTF')
        ok = w2 is None and bool(pats) and all(any((text(p.ast.test), 'T') in guards(ctx, f, n) for p in ptest) for n in pats)
        ctx.ob(rule, 'XsdAtomicBuiltin.raw_encode: the returned text passed the pattern facets', f.loc(r.ast), ok, '',
               key='XsdAtomicBuiltin.raw_encode|patterns')
    for n, c in call_nodes(g, lambda c: text(c.func) == 'self.patterns'):
        ok = bool(c.args) and text(c.args[0]) == 'text'
        ctx.ob(rule, 'XsdAtomicBuiltin.raw_encode: pattern facets test the encoded text', f.loc(c), ok, '', key='XsdAtomicBuiltin.raw_encode|patterns-arg')
    # XsdAtomicRestriction.raw_encode: patterns applied to the result of the base encoder
    f2 = ctx.idx.func('xmlschema.validators.simple_types.XsdAtomicRestriction.raw_encode')
    g2 = cfg_of(ctx, f2)
    pc = call_nodes(g2, lambda c: text(c.func) == 'self.patterns')
    ctx.floor(rule, 'pattern test in XsdAtomicRestriction.raw_encode', len(pc), 1)
    for n, c in pc:
        ok = text(c.args[0]) == 'result'
        ctx.ob(rule, 'XsdAtomicRestriction.raw_encode: pattern facets test the text returned by the base encoder', f2.loc(c), ok, '',
               key='XsdAtomicRestriction.raw_encode|patterns-arg')
    bc = [c for c in calls(f2.node) if text(c.func) == 'base_type.raw_encode']
    ok = bool(bc) and all([text(a) for a in c.args[1:3]] == ['validation', 'context'] for c in bc)
    ctx.ob(rule, 'XsdAtomicRestriction.raw_encode: base encoder gets the same mode and context', f2.loc(), ok, '', key='XsdAtomicRestriction.raw_encode|base')
    ctx.explain('C05.c: on every path to `return text` of the atomic encoders the validators loop and the pattern test are passed.')


def _is_attr_unmap(e: ast.AST) -> bool:
    """self.unmap_qname(<name>, xsd_element.attributes) — the form that leaves an unprefixed attribute name unqualified."""
    if isinstance(e, ast.NamedExpr):
        e = e.value
    return isinstance(e, ast.Call) and text(e.func) == 'self.unmap_qname' and \
        ((len(e.args) >= 2 and text(e.args[1]) == 'xsd_element.attributes') or
         any(k.arg == 'name_table' and text(k.value) == 'xsd_element.attributes' for k in e.keywords))


def rule_d(ctx: Ctx) -> None:
    """Sibling agreement (Engler): every key stored in the `attributes` mapping by an element_encode override is
    resolved against the attribute name table."""
    rule = 'C05.d'
    base = ctx.idx.cls('xmlschema.converters.base.XMLSchemaConverter')
    n = 0
    for f in ctx.idx.overrides(base, 'element_encode'):
        g = cfg_of(ctx, f)
        rd = None
        short = f.qualname.split('.', 2)[-1]
        for node in g.stmt_nodes():
            for e in node.exprs:
                for s_ in ast.walk(e):
                    keys = []
                    if isinstance(s_, ast.Assign):
                        for t in s_.targets:
                            if isinstance(t, ast.Subscript) and text(t.value) == 'attributes':
                                keys.append(t.slice)
                        if text(s_.targets[0]) == 'attributes' and isinstance(s_.value, ast.DictComp):
                            keys.append(s_.value.key)
                    elif isinstance(s_, ast.Call) and text(s_.func) == 'attributes.update' and s_.args:
                        a = s_.args[0]
                        if isinstance(a, (ast.GeneratorExp, ast.ListComp)) and isinstance(a.elt, ast.Tuple) and a.elt.elts:
                            keys.append(a.elt.elts[0])
                        elif isinstance(a, ast.DictComp):
                            keys.append(a.key)
                        else:
                            keys.append(a)
                    for k in keys:
                        n += 1
                        ok = _is_attr_unmap(k)
                        src = text(k)
                        if not ok and isinstance(k, ast.Name):
                            if rd is None:
                                rd = g.reaching_defs()
                            defs = rd[node].get(k.id, set())
                            vals = []
                            for d in defs:
                                if d.ast is not None and d is not g.entry:
                                    if isinstance(d.ast, ast.Assign):
                                        vals.append(d.ast.value)
                                    else:   # walrus in a test
                                        vals.extend(x for ex in d.exprs for x in ast.walk(ex) if isinstance(x, ast.NamedExpr) and text(x.target) == k.id)
                            ok = bool(vals) and all(_is_attr_unmap(v) for v in vals)
                            src = ' | '.join(text(v)[:60] for v in vals)
                        ctx.ob(rule, f'{short}: attribute key `{text(k)[:40]}` is resolved against the attribute name table', f.loc(s_), ok,
                               '' if ok else f'key comes from `{src}`: an unprefixed attribute name is mapped into the default namespace '
                               f'and no longer matches its declaration', key=f'{f.qualname}|attr-key|{text(k)[:40]}|{node.lineno if not ok else ""}')
    ctx.floor(rule, 'attribute key stores in element_encode overrides', n, 8)
    ctx.explain('C05.d: every key written to the attributes mapping by the element_encode overrides comes from '
                'unmap_qname(name, xsd_element.attributes) (reaching definitions; sibling agreement across the converters).')


def rule_e(ctx: Ctx) -> None:
    """A type predicate that XsdType answers with a constant False but simple types override (is_list, is_union, …) and that is asked
    on a receiver which may be a complex type must be overridden by XsdComplexType and delegate to its simple content."""
    rule = 'C05.e'
    idx = ctx.idx
    xt = idx.cls('xmlschema.validators.xsdbase.XsdType')
    ct = idx.cls('xmlschema.validators.complex_types.XsdComplexType')
    st = idx.cls('xmlschema.validators.simple_types.XsdSimpleType')
    const = {}
    for name, f in xt.methods.items():
        rets = [text(r.value) for r in ast.walk(f.node) if isinstance(r, ast.Return)]
        if rets == ['False'] and any(name in k.methods for k in idx.subclasses(st)):
            const[name] = f
    ctx.floor(rule, 'constant-False predicates of XsdType that simple types override', len(const), 3)
    n = 0
    for f in idx.functions.values():
        if f.module.name.startswith('xmlschema.testing') or isinstance(f.node, ast.Lambda):
            continue
        if not any(f'.{p}(' in f.module.segment(f.node) for p in const):
            continue
        for c in walk_no_nested(f.node):
            if isinstance(c, ast.Call) and isinstance(c.func, ast.Attribute) and c.func.attr in const:
                cls = ctx.typed.classes_of(f, c.func.value)
                if not any(k in idx.classes and ct in idx.classes[k].mro() for k in cls):
                    continue
                n += 1
                m = ct.find_method(c.func.attr)
                ok = m is not const[c.func.attr] and m is not None and 'self.content' in text(m.node)
                ctx.ob(rule, f'{f.qualname.split(".", 1)[-1]}: `{text(c)[:40]}` on a possibly complex type is answered from its simple content', f.loc(c), ok,
                       '' if ok else f'XsdComplexType inherits XsdType.{c.func.attr} (constant False): a complex type with simple content of that '
                       f'variety is treated as if it were not, e.g. a list value is re-encoded as repeated elements',
                       key=f'{f.qualname}|predicate|{c.func.attr}')
    ctx.floor(rule, 'predicate calls on possibly complex receivers', n, 5)
    ctx.trusted.append('mypy type map (L1) for the receiver classes of the predicate calls')
    ctx.explain('C05.e: typed call sites of constant-False type predicates on receivers that may be XsdComplexType; the complex type '
                'must override the predicate and consult its simple content.')


def _fixed_comparison(ctx: Ctx, f, e: ast.AST, depth: int = 0) -> bool:
    """Does the test ``e`` compare something with the declared fixed value (directly, through strictly_equal, or through a
    method of self whose body does)?"""
    for x in ast.walk(e):
        if isinstance(x, ast.Compare) and any(isinstance(op, (ast.Eq, ast.NotEq)) for op in x.ops):
            sides = [x.left] + list(x.comparators)
            if any('self.fixed' in text(sd) for sd in sides) and not all(text(sd) in ('self.fixed', 'None') for sd in sides):
                return True
        if isinstance(x, ast.Call) and text(x.func) == 'strictly_equal' and any('self.fixed' in text(a) for a in x.args):
            return True
        if isinstance(x, ast.Call) and isinstance(x.func, ast.Attribute) and text(x.func.value) == 'self' and f.cls is not None and depth < 2:
            m = f.cls.find_method(x.func.attr)
            if m is not None and not isinstance(m.node, ast.Lambda) and 'self.fixed' in text(m.node):
                if any(_fixed_comparison(ctx, m, r.value, depth + 1) for r in ast.walk(m.node) if isinstance(r, ast.Return) and r.value is not None) or \
                        any(_fixed_comparison(ctx, m, t.test, depth + 1) for t in ast.walk(m.node) if isinstance(t, ast.If)):
                    return True
    return False


def rule_g(ctx: Ctx) -> None:
    """Decoder and encoder of a declaration are siblings: a value constraint that raw_decode enforces (the fixed value, compared in
    the value space) must be enforced by raw_encode of the same class, or strict encoding returns XML the schema rejects."""
    rule = 'C05.g'
    n = 0
    for c in ctx.idx.classes.values():
        if not c.module.name.startswith('xmlschema.validators'):
            continue
        dec, enc = c.methods.get('raw_decode'), c.methods.get('raw_encode')
        if dec is None or enc is None or isinstance(dec.node, ast.Lambda):
            continue

        def reports_under_fixed(f):
            g = cfg_of(ctx, f)
            tests = {text(x.ast.test): x.ast.test for x in g.nodes if x.kind in ('if', 'while')}
            out = []
            for node in g.stmt_nodes():
                rep = any(is_reporter_call(cl) for e in node.exprs for cl in calls(e)) or \
                    any(isinstance(cl.func, ast.Attribute) and cl.func.attr == 'append' and text(cl.func.value) == 'errors' for e in node.exprs for cl in calls(e))
                if not rep:
                    continue
                if any(t in tests and _fixed_comparison(ctx, f, tests[t]) for t, lab in guards(ctx, f, node)):
                    out.append(node)
            return out
        d = reports_under_fixed(dec)
        if not d:
            continue
        n += 1
        ctx.analysed(dec.qualname)
        ctx.analysed(enc.qualname)
        e = reports_under_fixed(enc)
        ctx.ob(rule, f'{c.name}: raw_encode enforces the fixed value that raw_decode enforces', enc.loc(e[0].ast) if e else enc.loc(), bool(e),
               '' if e else f'{c.name}.raw_decode reports a value different from the fixed one (line {d[0].lineno}); raw_encode has no report under a comparison '
               'with self.fixed: strict encode() returns a document that the same schema rejects', key=f'{c.name}|encode-enforces-fixed')
    ctx.floor(rule, 'declarations whose decoder enforces a fixed value', n, 2)
    ctx.explain('C05.g: sibling cross-check raw_decode/raw_encode per class — reports (context.*_error calls or appends to the flushed '
                '`errors` list) whose path condition compares with self.fixed (==, !=, strictly_equal, or a self-method that does).')


def rule_f(ctx: Ctx) -> None:
    """Strict encoding is sound only if a value is tested against the patterns of its *own* type: the pattern hand-off slot of the
    context (shared by decode and encode) must be emptied by its consumer before any member type is processed (C02.g body)."""
    from .c02 import rule_g as patterns_slot
    patterns_slot(ctx, 'C05.f')


def rule_h(ctx: Ctx) -> None:
    """An encoded attribute value is left out only when the encoder returned None or Empty: the empty string is a value (a required
    attribute with value "" must still be written)."""
    rule = 'C05.h'
    f = ctx.idx.method('xmlschema.validators.attributes.XsdAttributeGroup', 'raw_encode')
    ctx.analysed(f.qualname)
    g = cfg_of(ctx, f)
    apps = [(n, c) for n, c in call_nodes(g, lambda c: text(c.func) == 'result.append')]
    ctx.floor(rule, 'attribute emissions in XsdAttributeGroup.raw_encode', len(apps), 1)
    for n, c in apps:
        var = None
        if c.args and isinstance(c.args[0], ast.Tuple) and len(c.args[0].elts) == 2 and isinstance(c.args[0].elts[1], ast.Name):
            var = c.args[0].elts[1].id
        bad = []
        for t, lab in guards(ctx, f, n):
            try:
                e = ast.parse(t, mode='eval').body
            except SyntaxError:
                continue
            atoms = []
            stack = [e]
            while stack:
                x = stack.pop()
                if isinstance(x, ast.BoolOp):
                    stack.extend(x.values)
                elif isinstance(x, ast.UnaryOp) and isinstance(x.op, ast.Not):
                    stack.append(x.operand)
                else:
                    atoms.append(x)
            for a in atoms:
                if var and isinstance(a, ast.Name) and a.id == var:
                    bad.append(t)            # bare truthiness of the encoded value
                if var and isinstance(a, ast.Call) and text(a.func) in ('bool', 'len') and a.args and text(a.args[0]) == var:
                    bad.append(t)
        ok = var is not None and not bad
        ctx.ob(rule, 'XsdAttributeGroup.raw_encode: an encoded value is dropped only for None/Empty, never for being falsy', f.loc(c), ok,
               '' if ok else f'`{bad[0][:70] if bad else text(c)}` tests the truthiness of `{var}`: an attribute whose encoded value is "" (or an empty list) is silently '
               'not written - a required attribute goes missing and the output is rejected by the same schema', key='XsdAttributeGroup.raw_encode|emit-guard')
    ctx.explain('C05.h: the path condition of `result.append((name, item))` in XsdAttributeGroup.raw_encode contains no truthiness test of '
                'the encoded value.')


def rule_i(ctx: Ctx) -> None:
    """Encoding restores the expanded names of decoded data: the declarations a node carries override the enclosing scope when its
    keys are resolved (C17.e body)."""
    from .c17 import rule_e as overlay_precedence
    overlay_precedence(ctx, 'C05.i')


def _cdata_exemption(test: ast.AST):
    """the sub-expression of a guard that exempts a group from the no-character-data rule, in a canonical text; None if absent."""
    for x in ast.walk(test):
        if isinstance(x, ast.Call) and text(x.func) == 'isinstance' and len(x.args) == 2 and text(x.args[0]) == 'self[0]' and 'XsdAnyElement' in text(x.args[1]):
            return x
    return None


def rule_j(ctx: Ctx) -> None:
    """Strict encoding is sound: what raw_encode lets through, raw_decode accepts.  The sibling pair agrees on character data in
    element-only content: it is refused unless the group is the single wildcard that stands for an empty declaration - in particular it is
    refused for a group without particles (a complex type with attributes only)."""
    rule = 'C05.j'
    import itertools
    from .common import bool_atoms, bool_eval
    verdicts = {}
    for meth in ('raw_decode', 'raw_encode'):
        f = ctx.idx.method('xmlschema.validators.groups.XsdGroup', meth)
        ctx.analysed(f.qualname)
        g = cfg_of(ctx, f)
        reps = [n for n, c in call_nodes(g, lambda c: is_reporter_call(c) and any('character data between child elements' in text(a) for a in c.args))]
        if not reps:
            # the message is bound to a local first: the report whose `reason` is defined by that assignment (reaching definitions)
            rd = g.reaching_defs(kinds='nTF')
            defs = [x for x in g.nodes if x.kind == 'stmt' and isinstance(x.ast, ast.Assign) and 'character data between child elements' in text(x.ast.value)]
            for n, c in call_nodes(g, is_reporter_call):
                for a in c.args:
                    if isinstance(a, ast.Name) and any(d in rd[n].get(a.id, set()) for d in defs):
                        reps.append(n)
        if not reps:
            raise AnalysisError(f'UNRECOGNISED-IDIOM {rule}: the character-data report of XsdGroup.{meth}')
        gs = guards(ctx, f, reps[0])
        # does a group WITHOUT particles (len(self) == 0, bool(self) False) reach the report when there is text?  fold the guards over that case
        reach = True
        for t, lab in gs:
            try:
                e = ast.parse(t, mode='eval').body
            except SyntaxError:
                continue
            atoms = bool_atoms(e)
            fixed = {}
            for a in atoms:
                if a == 'self':
                    fixed[a] = False
                elif a == 'len(self) == 1':
                    fixed[a] = False
                elif a in ('len(self) != 1',):
                    fixed[a] = True
                elif a == 'len(self) > 1':
                    fixed[a] = False
                elif a == 'not self':
                    fixed[a] = True
            if not fixed:
                continue
            free = [a for a in atoms if a not in fixed]
            can = False
            for bits in itertools.product((False, True), repeat=len(free)):
                env = dict(fixed)
                env.update(zip(free, bits))
                try:
                    if bool_eval(e, env) == (lab == 'T'):
                        can = True
                        break
                except KeyError:
                    can = True
                    break
            reach = reach and can
        verdicts[meth] = (reach, reps[0], f)
        # character data *after* a child (its tail) triggers the report on its own, not only the text before the first child
        tail_alone = False
        for t, lab in gs:
            if lab != 'T' or '.tail' not in t:
                continue
            try:
                e = ast.parse(t, mode='eval').body
            except SyntaxError:
                continue
            atoms = bool_atoms(e)
            tails = [a for a in atoms if '.tail' in a]
            texts = [a for a in atoms if '.tail' not in a and 'text' in a]
            free = [a for a in atoms if a not in tails and a not in texts]
            for bits in itertools.product((False, True), repeat=len(free)):
                env = dict(zip(free, bits))
                env.update({a: False for a in texts})
                env.update({a: True for a in tails})
                if bool_eval(e, env):
                    tail_alone = True
                    break
            # ... and it is the tail of *any* child: the walk over the children is not a slice (text after the last child counts)
            for comp in ast.walk(e):
                if isinstance(comp, (ast.GeneratorExp, ast.ListComp)) and '.tail' in text(comp):
                    if any(isinstance(gen.iter, ast.Subscript) for gen in comp.generators):
                        tail_alone = False
        ctx.ob(rule, f'XsdGroup.{meth}: character data after a child (a tail) is refused in element-only content like the text before the first child', f.loc(reps[0].ast), tail_alone,
               '' if tail_alone else 'the report depends on the leading text only: encode({"a": 1, "#1": "junk"}) emits <r><a>1</a>junk</r> in strict mode, a document the same schema rejects',
               key=f'XsdGroup.{meth}|cdata-tails')
    for meth, (reach, n, f) in verdicts.items():
        ctx.ob(rule, f'XsdGroup.{meth}: character data is refused for an element-only group without particles', f.loc(n.ast), reach,
               '' if reach else 'with bool(self) false the report is unreachable: for a complex type with attributes only encode({"@x": 1, "$": "foo"}) emits <e x="1">foo</e>, '
               'which the same schema rejects when it decodes it', key=f'XsdGroup.{meth}|cdata-empty-group')
    ctx.explain('C05.j: sibling agreement of XsdGroup.raw_decode / raw_encode - the guards of the "character data between child elements" report are folded for a group without '
                'particles (bool(self) False, len(self) 0): the report stays reachable in both; and in both a test on the path to the report is true for a non-blank tail alone.')


def rule_k(ctx: Ctx) -> None:
    """Children with the same name keep their document order through the encoder: the content iterators that reorder encoded content against the
    model (collapsing and unordered converters) park same-named values in per-name buffers; a buffer is filled at the tail and must be drained
    from the head.  The character-data parts are kept in a list sorted in *descending* index order and taken from its end."""
    rule = 'C05.k'
    nd = npop = 0
    for name in ('iter_unordered_content', 'iter_collapsed_content'):
        f = ctx.idx.func(f'xmlschema.validators.models.{name}')
        ctx.analysed(f.qualname)
        for c in calls(f.node):
            if not isinstance(c.func, ast.Attribute):
                continue
            recv, m = c.func.value, c.func.attr
            if isinstance(recv, ast.Subscript) and isinstance(recv.value, ast.Name):
                # B[key].<m>(…): a per-name buffer
                if m in ('popleft', 'pop', 'appendleft', 'extendleft', 'insert', 'reverse'):
                    nd += 1
                    fifo = m == 'popleft' or (m == 'pop' and len(c.args) == 1 and isinstance(c.args[0], ast.Constant) and c.args[0].value == 0)
                    ctx.ob(rule, f'{name}: `{text(c)[:50]}` takes the oldest parked value of the name', f.loc(c), fifo,
                           '' if fifo else f'`.{m}(…)` on a buffer that is filled with append(): the values of one name leave in reverse order - `<b>10</b><b>20</b><b>30</b>` '
                           'is re-encoded as 10, 30, 20; the document stays valid but decodes to other data', key=f'{name}|drain|{text(recv.value)}')
            elif isinstance(recv, ast.Name) and m == 'pop':
                npop += 1
                defs = [s_.value for s_ in ast.walk(f.node) if isinstance(s_, ast.Assign) and len(s_.targets) == 1 and text(s_.targets[0]) == recv.id]
                desc = bool(defs) and all(isinstance(d, ast.Call) and text(d.func) == 'sorted' and any(k.arg == 'reverse' and isinstance(k.value, ast.Constant) and k.value.value is True
                                                                                                       for k in d.keywords) for d in defs)
                asc = bool(defs) and all(isinstance(d, ast.Call) and text(d.func) == 'sorted' and not any(k.arg == 'reverse' for k in d.keywords) for d in defs)
                from_end = not c.args
                ok = (from_end and desc) or (not from_end and isinstance(c.args[0], ast.Constant) and c.args[0].value == 0 and asc)
                ctx.ob(rule, f'{name}: `{text(c)}` yields the character-data parts in ascending index order', f.loc(c), ok,
                       '' if ok else f'`{recv.id}` is {"sorted descending" if desc else "sorted ascending" if asc else "not a sorted list"} and popped from the '
                       f'{"end" if from_end else "front"}: the text parts between the children come out in reverse order', key=f'{name}|cdata|{text(c)}')
        rev = [c for c in calls(f.node) if isinstance(c.func, ast.Name) and c.func.id == 'reversed']
        ctx.ob(rule, f'{name}: the final flush of the buffers runs forward', f.loc(rev[0]) if rev else f.loc(), not rev, '', key=f'{name}|flush-forward', nontrivial=False)
    ctx.floor(rule, 'drains of per-name buffers', nd, 2)
    ctx.floor(rule, 'character-data pops', npop, 4)
    ctx.explain('C05.k: in iter_unordered_content / iter_collapsed_content every removal from a per-name buffer `B[key]` is popleft() / pop(0) (fill: append), no reversed(); every '
                '`cdata.pop()` is on a list built by sorted(…, reverse=True).')


def rule_l(ctx: Ctx) -> None:
    """Strict encoding is sound for attributes too: the encoder has the decoder's test on prohibited uses (sibling agreement, C03.d body on raw_encode)."""
    from .c03 import prohibited_report
    prohibited_report(ctx, 'C05.l', 'raw_encode')
    ctx.explain('C05.l: XsdAttributeGroup.raw_encode reports a prohibited attribute under the same path condition as raw_decode and lets the wildcard govern where it admits the name.')


RULES = [rule_a, rule_b, rule_c, rule_d, rule_e, rule_f, rule_g, rule_h, rule_i, rule_j, rule_k, rule_l]
