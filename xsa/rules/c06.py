"""C06 — lazy (streaming) processing gives the same results as full loading (structural clauses).

C06.a the lazy parser loop keeps the namespace stack like the full one and binds the maps before it yields
C06.b pruning typestate: a subtree is cleared only at lazy depth, after it was yielded, and only its own maps go
C06.c the drivers funnel chunks through the same decoder, flush per chunk and merge identities before the final check
C06.d every chunk gets its own namespace context and leaves none behind (with C20.c / C08.f)
C06.e document-wide constraints: live ancestors are remembered by copy, the reference check ends every run (C20.d / C04.d)
C06.f one iteration of a lazy resource at a time (C18.c)

Not decided: equality of verdicts, errors and data for every chunking of every document (a runtime quantity).
"""
from __future__ import annotations

import ast

from ..astutil import calls, get_arg, text, walk_no_nested
from ..index import AnalysisError
from ..report import Ctx
from . import c04, c08, c17, c18, c20
from .common import call_nodes, cfg_of, guards, iteration_requires

LOADER = 'xmlschema.resources.xml_loader.XMLResourceLoader'
RES = 'xmlschema.resources.xml_resource.XMLResource'
SCHEMA = 'xmlschema.validators.schemas.XMLSchemaBase'


def _yields(g):
    out = []
    for n in g.stmt_nodes():
        for e in n.exprs:
            for x in ast.walk(e):
                if isinstance(x, (ast.Yield, ast.YieldFrom)):
                    out.append((n, x))
    return out


def rule_a(ctx: Ctx) -> None:
    rule = 'C06.a'
    c17.rule_c(ctx, rule)          # both loops obey the same stack discipline (sibling agreement through a common invariant set)
    lazy = ctx.idx.method(LOADER, '_lazy_iterparse')
    full = ctx.idx.method(LOADER, '_parse')
    g = cfg_of(ctx, lazy)
    dom = g.dominators(kinds='nTF')
    st = [n for n in g.nodes if n.kind == 'if' and text(n.ast.test) == "event == 'start'"]
    if len(st) != 1:
        raise AnalysisError(f"{rule}: expected one `event == 'start'` branch in {lazy.qualname}")
    nsm = [n for n in g.nodes if n.kind == 'stmt' and isinstance(n.ast, ast.Assign) and text(n.ast.targets[0]) == 'self._nsmaps[node]']
    loop = [n for n in g.nodes if n.kind == 'for' and 'self._iterparse' in text(n.ast.iter)]
    if len(loop) != 1:
        raise AnalysisError(f'{rule}: expected one loop over self._iterparse in {lazy.qualname}')
    ys = [(n, y) for n, y in _yields(g) if iteration_requires(g, loop[0], n, {(st[0], 'T')})]
    ctx.floor(rule, "yields of the lazy loop on 'start' events", len(ys), 1)
    for n, y in ys:
        ok = bool(nsm) and all(s in dom[n] for s in nsm)
        ctx.ob(rule, "_lazy_iterparse: a started element is yielded only after its namespace map was bound", lazy.loc(y), ok,
               '' if ok else 'the consumer (iter/iter_depth/iterfind, the XPath root) sees an element without in-scope namespaces', key='lazy|yield-after-nsmap')
    # the element's own declarations are recorded by both loops, from the accumulated start-ns events
    for f, store in ((lazy, 'self._xmlns[node]'), (full, 'xmlns[node]')):
        gg = cfg_of(ctx, f)
        ss = [n for n in gg.nodes if n.kind == 'stmt' and isinstance(n.ast, ast.Assign) and text(n.ast.targets[0]) == store]
        ok = len(ss) == 1 and text(ss[0].ast.value) == 'start_ns' and ('start_ns', 'T') in guards(ctx, f, ss[0])
        ctx.ob(rule, f'{f.name}: the declarations of an element are recorded for it (xmlns map) when it has any', f.loc(ss[0].ast) if ss else f.loc(), ok,
               '' if ok else 'lazy and full loading disagree on get_xmlns(elem): the converter rebuilds different namespace contexts', key=f'{f.name}|xmlns-store')
    if full is not None:
        gg = cfg_of(ctx, full)
        al = {text(s.targets[0]): text(s.value) for s in walk_no_nested(full.node) if isinstance(s, ast.Assign) and len(s.targets) == 1}
        ok = al.get('nsmaps') == 'self._nsmaps' and al.get('xmlns') == 'self._xmlns'
        ctx.ob(rule, '_parse fills the same two maps the lazy loop fills (local aliases of self._nsmaps / self._xmlns)', full.loc(), ok, '', key='_parse|aliases',
               nontrivial=False)
    # a new lazy iteration starts from empty maps (elements of the previous pass are gone)
    cl = [n for n, c in call_nodes(g, lambda c: text(c.func) in ('self._nsmaps.clear', 'self._xmlns.clear'))]
    ok = len(cl) == 2 and bool(loop) and all(c in dom[loop[0]] for c in cl)
    ctx.ob(rule, '_lazy_iterparse: both maps are emptied before a new pass over the document', lazy.loc(cl[0].ast) if cl else lazy.loc(), ok, '', key='lazy|maps-cleared')
    ctx.explain(f'{rule}: also: every yield of the lazy loop on a start event is dominated by the binding of the namespace map; '
                'both loops record the xmlns declarations of an element; the maps are emptied before each lazy pass.')


def rule_b(ctx: Ctx) -> None:
    rule = 'C06.b'
    res = ctx.idx.cls(RES)
    n_sites = 0
    for name in ('iter', 'iter_depth', 'iterfind'):
        f = res.methods.get(name)
        if f is None:
            raise AnalysisError(f'missing anchor {RES}.{name}')
        ctx.analysed(f.qualname)
        g = cfg_of(ctx, f)
        heads = [n for n in g.nodes if n.kind == 'for' and 'self._lazy_iterparse' in text(n.ast.iter)]
        if len(heads) != 1:
            raise AnalysisError(f'{rule}: expected one loop over self._lazy_iterparse in {f.qualname}')
        head = heads[0]
        tg = head.ast.target
        evar = text(tg.elts[0]) if isinstance(tg, ast.Tuple) and len(tg.elts) == 2 else None
        nvar = text(tg.elts[1]) if isinstance(tg, ast.Tuple) and len(tg.elts) == 2 else None
        clears = call_nodes(g, lambda c: text(c.func) == 'self._clear')
        ctx.floor(rule, f'subtree pruning calls in {name}', len(clears), 1)
        ys = _yields(g)
        for n, c in clears:
            n_sites += 1
            arg = text(c.args[0]) if c.args else ''
            ok = arg == nvar
            ctx.ob(rule, f'{name}: the pruned subtree is the element of the current event', f.loc(c), ok, f'argument `{arg}`', key=f'{name}|clear-arg|{text(c)[:40]}',
                   nontrivial=False)
            # nothing is handed out after the subtree was emptied (until the next event rebinds the element)
            after = g.reachable([m for m, lab in g.succ[n] if lab in 'nTF'], avoid=[head], kinds='nTF')
            late = [y for m, y in ys if m in after]
            ctx.ob(rule, f'{name}: no element is yielded between pruning a subtree and the next parser event', f.loc(c), not late,
                   '' if not late else f'`{text(late[0])[:50]}` at line {late[0].lineno} hands out an element whose children were already deleted: a lazy run '
                   'validates an empty element where the full run sees the content', key=f'{name}|no-yield-after-clear|{text(c)[:40]}')
            # only complete elements (end events) at exactly lazy depth are pruned
            ifs = {text(x.ast.test): x for x in g.nodes if x.kind == 'if'}
            st_tests = [x for t, x in ifs.items() if t in (f"{evar} == 'start'", f'{evar} == "start"')]
            at_end = iteration_requires(g, head, n, {(x, 'F') for x in st_tests})
            eq = {(x, 'T') for t, x in ifs.items() if t in ('level == lazy_depth', 'lazy_depth == level')} | \
                 {(x, 'F') for t, x in ifs.items() if t in ('level != lazy_depth', 'lazy_depth != level')}
            lt = {(x, 'F') for t, x in ifs.items() if t in ('level < lazy_depth', 'lazy_depth > level')}
            gt = {(x, 'F') for t, x in ifs.items() if t in ('level > lazy_depth', 'lazy_depth < level')}
            at_depth = iteration_requires(g, head, n, eq) or (iteration_requires(g, head, n, lt) and iteration_requires(g, head, n, gt))
            ctx.ob(rule, f'{name}: a subtree is pruned only on its end event and only at the lazy depth', f.loc(c), at_end and at_depth,
                   '' if at_end and at_depth else f'on end event: {at_end}, at level == lazy_depth: {at_depth} - pruning above the lazy depth deletes chunks that '
                   'were not processed yet, pruning below it or on a start event empties an element the consumer still has to see',
                   key=f'{name}|clear-at-depth|{text(c)[:40]}')
    ctx.floor(rule, 'pruning sites in the lazy iterators', n_sites, 3)
    # _clear deletes the maps of the removed nodes only
    f = ctx.idx.method(LOADER, '_clear')
    g = cfg_of(ctx, f)
    dels = [n for n in g.nodes if n.kind == 'stmt' and isinstance(n.ast, ast.Delete)
            and any(text(t).startswith(('self._nsmaps[', 'self._xmlns[')) for t in n.ast.targets)]
    ctx.floor(rule, 'namespace-map deletions in _clear', len(dels), 4)
    for n in dels:
        T = {t for t, lab in guards(ctx, f, n) if lab == 'T'}
        key = text(n.ast.targets[0])
        var = key[key.index('[') + 1:-1]
        ok = any(t in (f'elem is not {var}', f'child is not {var}', f'{var} is not elem', f'{var} is not child') for t in T)
        ctx.ob(rule, f'_clear: `{text(n.ast)}` concerns a removed node, never the element that stays in the tree', f.loc(n.ast), ok,
               '' if ok else 'the in-scope namespaces of an element that is still reachable (the chunk root or an ancestor) are dropped: QName values '
               'and xsi:type of later chunks resolve differently from the full run', key=f'_clear|{text(n.ast)}|{sorted(T)[:2]}')
    pr = [n for n in g.nodes if n.kind == 'stmt' and isinstance(n.ast, ast.Delete) and text(n.ast.targets[0]) == 'elem[:]']
    ctx.ob(rule, '_clear empties the subtree (children deleted; attributes, text and tail kept)', f.loc(pr[0].ast) if pr else f.loc(), len(pr) == 1, '',
           key='_clear|prune', nontrivial=False)
    # the lazy XPath tree caches the children of the root: it is reset by every pruning, on every path (identity selectors and
    # iterfind evaluate their paths on it for the chunks that follow)
    resets = [n for n, c in call_nodes(g, lambda c: text(c.func) in ('self._xpath_root.children.clear', 'self.xpath_root.children.clear'))]
    tests_x = [n for n in g.nodes if n.kind == 'if' and text(n.ast.test) in ('self._xpath_root is not None', 'self._xpath_root')]
    okx = bool(resets)
    if okx:
        from .common import reach_cut as _rc
        # a normal exit reached without a reset and without the "no XPath tree yet" branch
        live = _rc(g, [g.entry], {(t, 'F') for t in tests_x}, avoid=resets, kinds='nTF')
        okx = g.exit not in live
    ctx.ob(rule, '_clear resets the cached children of the lazy XPath root on every path (unless no XPath tree exists yet)', f.loc(resets[0].ast) if resets else f.loc(),
           okx, '' if okx else 'a return is reachable without the reset: after such a chunk the XPath tree keeps the children it had - selectors of root-level '
           'identity constraints and iterfind() stop seeing the chunks parsed later (keys missed, references reported dangling)', key='_clear|xpath-reset')
    thin = [n for n in g.nodes if n.kind == 'if' and 'self._thin_lazy' in text(n.ast.test)]
    ok = bool(thin) and all('ancestors' in text(n.ast.test) for n in thin)
    ctx.ob(rule, '_clear removes preceding siblings only for thin lazy resources that track ancestors', f.loc(thin[0].ast) if thin else f.loc(), ok, '',
           key='_clear|thin', nontrivial=False)
    ctx.explain(f'{rule}: typestate {{live, pruned}} of the element of the current parser event over the CFG of XMLResource.iter / '
                'iter_depth / iterfind (no yield reachable after _clear before the loop head; _clear control dependent on the end event '
                'and on level == lazy_depth); path conditions of the namespace-map deletions in _clear.')


def rule_c(ctx: Ctx) -> None:
    rule = 'C06.c'
    idx = ctx.idx
    # --- iter_errors: one loop body for the pruned root and for the chunks
    f = idx.method(SCHEMA, 'iter_errors')
    g = cfg_of(ctx, f)
    loops = [n for n in g.nodes if n.kind == 'for' and text(n.ast.iter) == 'selector']
    if len(loops) != 1:
        raise AnalysisError(f'{rule}: expected one `for … in selector` loop in {f.qualname}')
    head = loops[0]
    dec = [n for n, c in call_nodes(g, lambda c: isinstance(c.func, ast.Attribute) and c.func.attr == 'raw_decode' and text(c.func.value) == 'xsd_element')]
    ctx.floor(rule, 'decoder calls in iter_errors', len(dec), 1)
    flush = [n for n, y in _yields(g) if isinstance(y, ast.YieldFrom) and text(y.value) == 'context.errors']
    clr = [n for n, c in call_nodes(g, lambda c: text(c.func) == 'context.errors.clear')]
    w = None
    for d in dec:
        w = w or g.must_pass(d, [head], flush, kinds='nTFxi')     # the handler of the stop-validation hook included
    ok = bool(flush) and bool(clr) and w is None
    ctx.ob(rule, 'iter_errors: the errors of a chunk are yielded and the collector emptied before the next chunk is taken', f.loc(flush[0].ast) if flush else f.loc(), ok,
           '' if ok else 'errors of one chunk are reported late or twice: the order differs from the full run', key='iter_errors|flush-per-chunk')
    sel = {text(s.targets[0]): s for s in walk_no_nested(f.node) if isinstance(s, ast.Assign) and len(s.targets) == 1 and text(s.targets[0]) == 'selector'}
    srcs = [text(s.value) for s in walk_no_nested(f.node) if isinstance(s, ast.Assign) and len(s.targets) == 1 and text(s.targets[0]) == 'selector']
    ok = any(s.startswith('resource.iter_depth(') and 'mode=4' in s for s in srcs) and any(s.startswith('resource.iterfind(') for s in srcs) and len(srcs) == 2
    ctx.ob(rule, 'iter_errors: lazy and full resources go through the same selector (iter_depth mode 4: chunks, then the pruned root) and the same loop body',
           f.loc(sel['selector']) if sel else f.loc(), ok, f'{srcs}', key='iter_errors|selector')
    # the pruned root of a lazy document is validated above the cut only, at level 0, on counters of its own
    want = {'context.level': '0', 'context.identities': '{}', 'context.max_depth': 'resource.lazy_depth'}
    got = {}
    for n in g.nodes:
        if n.kind == 'stmt' and isinstance(n.ast, ast.Assign) and text(n.ast.targets[0]) in want:
            gs = guards(ctx, f, n)
            if ('elem is resource.root', 'T') in gs and ('resource.lazy_depth', 'T') in gs:
                got[text(n.ast.targets[0])] = text(n.ast.value)
    ok = got == want
    ctx.ob(rule, 'iter_errors: the pruned root of a lazy document is validated at level 0, down to the lazy depth only, on identity counters of its own',
           f.loc(), ok, '' if ok else f'found {got}', key='iter_errors|lazy-root')
    # the counters of the root pass are merged into the document-wide ones before the final reference check
    refs = [n for n, c in call_nodes(g, lambda c: text(c.func) == 'self._validate_references')]
    back = [n for n in g.nodes if n.kind == 'stmt' and isinstance(n.ast, ast.Assign) and text(n.ast.targets[0]) == 'context.identities'
            and text(n.ast.value) == 'identities' and ('context.identities is not identities', 'T') in guards(ctx, f, n)]
    upd = [n for n, c in call_nodes(g, lambda c: isinstance(c.func, ast.Attribute) and c.func.attr == 'update' and 'counter' in text(c.func.value))
           if ('context.identities is not identities', 'T') in guards(ctx, f, n)]
    tests = [n for n in g.nodes if n.kind == 'if' and text(n.ast.test) == 'context.identities is not identities']
    dom = g.dominators(kinds='nTF')
    ok = len(tests) == 1 and bool(back) and bool(upd) and bool(refs) and all(tests[0] in dom[r] for r in refs)
    if ok:
        # on the True branch the restore precedes the check
        starts = [m for m, lab in g.succ[tests[0]] if lab == 'T']
        ok = all(g.must_pass(s, refs, back, kinds='nTF') is None for s in starts)
    ctx.ob(rule, 'iter_errors: the identity counters of the root pass are merged into the document-wide counters before the final reference check',
           f.loc(tests[0].ast) if tests else f.loc(), ok,
           '' if ok else 'key references are checked against the counters of the root pass only: keys collected in the streamed chunks are not seen',
           key='iter_errors|merge-identities')
    # the document-wide table is created lazily per constraint (only when a chunk under the constraint's scope was seen): every
    # read `identities[k]` needs the membership test its sibling sites have (a root without children has no chunk at all)
    nread = 0
    for n in g.stmt_nodes():
        for e in n.exprs:
            for x in ast.walk(e):
                if isinstance(x, ast.Subscript) and isinstance(x.ctx, ast.Load) and text(x.value) == 'identities':
                    nread += 1
                    k = text(x.slice)
                    gs = guards(ctx, f, n)
                    okr = (f'{k} in identities', 'T') in gs or (f'{k} not in identities', 'F') in gs
                    ctx.ob(rule, f'iter_errors: `identities[{k}]` is read only for a constraint that has a document-wide counter', f.loc(x), okr,
                           '' if okr else f'no `{k} in identities` on the path (the sibling read at the ancestor-change site has it): a lazy document whose '
                           'root has an identity constraint but no child never creates the counter - KeyError instead of a verdict',
                           key=f'iter_errors|identities-read|{text(n.ast)[:50]}')
    ctx.floor(rule, 'reads of the document-wide identity table in iter_errors', nread, 2)
    lvl = [c for c in calls(f.node) if text(c.func) == 'ValidationContext']
    a = get_arg(lvl[0], None, 'level') if lvl else None
    ok = a is not None and text(a).startswith('resource.lazy_depth')
    ctx.ob(rule, 'iter_errors: chunks are validated at the level they have in the document (lazy depth)', f.loc(lvl[0]) if lvl else f.loc(), ok,
           '' if a is None else text(a), key='iter_errors|chunk-level')
    # --- iter_decode: the pruned root is decoded down to the lazy depth, the chunks are filled in by raw_decoder with the same options
    f = idx.method(SCHEMA, 'iter_decode')
    g = cfg_of(ctx, f)
    rd = [c for c in calls(f.node) if text(c.func) == 'self.raw_decoder']
    ctx.floor(rule, 'chunk decoder construction in iter_decode', len(rd), 1)
    for c in rd:
        kw = {k.arg: text(k.value) for k in c.keywords}
        ok = kw.get('validation') == 'validation' and kw.get('source') == 'resource' and kw.get(None) == 'kwargs' and 'schema_path' in kw
        ctx.ob(rule, 'iter_decode: the chunk decoder gets the same resource, mode and options as the root pass', f.loc(c), ok, f'{kw}', key='iter_decode|raw_decoder-args')
    want = {'context.max_depth': 'resource.lazy_depth', 'selector': 'resource.iter_depth(mode=3)'}
    got = {}
    for n in g.nodes:
        if n.kind == 'stmt' and isinstance(n.ast, ast.Assign) and text(n.ast.targets[0]) in want:
            gs = guards(ctx, f, n)
            if ('not resource.is_lazy()', 'F') in gs and ('path', 'F') in gs:
                got[text(n.ast.targets[0])] = text(n.ast.value)
    df = [n for n in g.nodes if n.kind == 'stmt' and isinstance(n.ast, ast.Assign) and text(n.ast.targets[0]) == 'context.depth_filler'
          and 'decoder' in text(n.ast.value)]
    ok = got == want and bool(df)
    ctx.ob(rule, 'iter_decode: a lazy document is decoded from the pruned root down to the lazy depth, the cut is filled by the chunk decoder', f.loc(), ok,
           '' if ok else f'found {got}, depth filler bound: {bool(df)}', key='iter_decode|lazy-branch')
    # --- raw_decoder: every chunk through the same decoder, errors flushed per chunk
    f = idx.method(SCHEMA, 'raw_decoder')
    g = cfg_of(ctx, f)
    loops = [n for n in g.nodes if n.kind == 'for' and text(n.ast.iter) == 'selector']
    dec = [n for n, c in call_nodes(g, lambda c: isinstance(c.func, ast.Attribute) and c.func.attr == 'raw_decode' and text(c.func.value) == 'xsd_element')]
    flush = [n for n, y in _yields(g) if isinstance(y, ast.YieldFrom) and text(y.value) == 'context.errors']
    ok = len(loops) == 1 and bool(dec) and bool(flush)
    if ok:
        # a path from the decoder call to the next chunk without the flush must have had no errors
        for d in dec:
            p = g.must_pass(d, [loops[0]], flush, kinds='nTF')
            if p is not None:
                tests = [(text(x.ast.test), ) for x in p if x.kind == 'if']
                ok = ok and any(t == ('context.errors',) for t in tests)
    ctx.ob(rule, 'raw_decoder: the errors of a chunk are yielded before the next chunk is taken', f.loc(flush[0].ast) if flush else f.loc(), ok, '',
           key='raw_decoder|flush-per-chunk')
    srcs = [text(s.value) for s in walk_no_nested(f.node) if isinstance(s, ast.Assign) and len(s.targets) == 1 and text(s.targets[0]) == 'selector']
    ok = any('iter_depth(mode=2)' in s for s in srcs) and any('.iterfind(' in s for s in srcs)
    ctx.ob(rule, 'raw_decoder: chunks come from iter_depth (thin mode) or from the path selector', f.loc(), ok, f'{srcs}', key='raw_decoder|selector', nontrivial=False)
    ctx.explain(f'{rule}: the three drivers over lazy resources — per-chunk flush (must-pass-through from the decoder call to the loop '
                'head), handling of the pruned root (level 0, max_depth = lazy depth, own counters merged back before the reference '
                'check), forwarding of mode and options to the chunk decoder.')


def rule_d(ctx: Ctx) -> None:
    rule = 'C06.d'
    c20.rule_c(ctx, rule)
    c08.rule_f(ctx, rule)


def rule_e(ctx: Ctx) -> None:
    rule = 'C06.e'
    c20.rule_d(ctx, rule)
    c04.reference_check(ctx, rule)
    # a subtree that was left gets fresh counters for its scoped constraints
    f = ctx.idx.method(SCHEMA, 'iter_errors')
    g = cfg_of(ctx, f)
    rs = [n for n, c in call_nodes(g, lambda c: isinstance(c.func, ast.Attribute) and c.func.attr == 'reset' and text(c.func.value).startswith('identities['))]
    gc = [n for n, c in call_nodes(g, lambda c: isinstance(c.func, ast.Attribute) and c.func.attr == 'get_counter')]
    ok = bool(rs) and bool(gc) and all(('prev_ancestors != ancestors', 'T') in guards(ctx, f, n) for n in rs + gc)
    ctx.ob(rule, 'iter_errors: when the chain of ancestors changes, the counters of the constraints scoped by the new ancestors are reset or created',
           f.loc(rs[0].ast) if rs else f.loc(), ok, '', key='iter_errors|reset-counters')
    ctx.explain(f'{rule}: also: reset/creation of the identity counters is control dependent on the change of the ancestor chain.')


def rule_f(ctx: Ctx) -> None:
    c18.rule_c(ctx, 'C06.f')


def _truth(e: ast.AST, env: dict, unknown: list) -> bool:
    if isinstance(e, ast.BoolOp):
        vals = [_truth(v, env, unknown) for v in e.values]
        return all(vals) if isinstance(e.op, ast.And) else any(vals)
    if isinstance(e, ast.UnaryOp) and isinstance(e.op, ast.Not):
        return not _truth(e.operand, env, unknown)
    t = text(e)
    if t in env:
        return env[t]
    unknown.append(t)
    return False          # an unrecognised conjunct cannot be relied upon to be true


def rule_g(ctx: Ctx) -> None:
    """The set of elements selected by an identity constraint is cached on its counter; the tree of a lazy resource grows (and is
    pruned) while it is validated, so for a lazy source an element that is not in the cached set is looked up in a fresh selection."""
    rule = 'C06.g'
    f = ctx.idx.method('xmlschema.validators.elements.XsdElement', 'collect_key_fields')
    ctx.analysed(f.qualname)
    enc = {}
    for parent in ast.walk(f.node):
        for ch in ast.iter_child_nodes(parent):
            enc[id(ch)] = parent
    memo = [s for s in walk_no_nested(f.node) if isinstance(s, ast.Assign) and text(s.targets[0]) == 'counter.elements'
            and any(isinstance(c.func, ast.Attribute) and c.func.attr in ('select_results', 'select', 'iter_select') for c in calls(s))]
    ctx.floor(rule, 'cached selections in collect_key_fields', len(memo), 1)
    for s in memo:
        p = enc.get(id(s))
        while p is not None and not (isinstance(p, ast.If) and any(s is x for b in p.body for x in ast.walk(b))):
            p = enc.get(id(p))
        if p is None:
            ctx.ob(rule, 'collect_key_fields: the selection is computed for every element (no cache)', f.loc(s), True, '', key='collect_key_fields|selection-refresh')
            continue
        unknown: list = []
        env = {'counter.elements is None': False, 'counter.elements is not None': True,
               'context.source.is_lazy()': True, 'not context.source.is_lazy()': False, 'context.source.lazy_depth': True,
               'obj not in counter.elements': True, 'obj in counter.elements': False}
        ok = _truth(p.test, env, unknown)
        ctx.ob(rule, 'collect_key_fields: for a lazy source an element missing from the cached selection triggers a fresh selection', f.loc(p), ok,
               '' if ok else f'the selection is refreshed only under `{text(p.test)[:70]}`: with a cached set, a lazy source and a new element this is false - the '
               'set computed from the part of the document parsed so far (first parser block) is kept, later chunks are not counted: duplicate '
               'keys are missed and key references reported dangling', key='collect_key_fields|selection-refresh')
    ctx.explain(f'{rule}: the guard of the cached selection (`counter.elements = …select_results…`) is evaluated under '
                '{cached, lazy source, element not in cache}: it must be true.')


def rule_h(ctx: Ctx) -> None:
    """Same errors *in the same order*: a full run reports what concerns the root element itself (its attributes) before
    anything inside its children.  The lazy driver takes the root from the selector; the selector mode decides when."""
    rule = 'C06.h'
    f = ctx.idx.method(SCHEMA, 'iter_errors')
    ctx.analysed(f.qualname)
    cs = [c for c in calls(f.node) if isinstance(c.func, ast.Attribute) and c.func.attr == 'iter_depth']
    ctx.floor(rule, 'iter_depth selectors in iter_errors', len(cs), 1)
    d = ctx.idx.method(RES, 'iter_depth')
    flags = {}
    for st in walk_no_nested(d.node):
        if isinstance(st, ast.Assign) and len(st.targets) == 1 and isinstance(st.targets[0], ast.Name) and isinstance(st.value, ast.Compare) \
                and text(st.value.left) == 'mode' and len(st.value.ops) == 1 and isinstance(st.value.comparators[0], ast.Constant):
            flags[st.targets[0].id] = (type(st.value.ops[0]), st.value.comparators[0].value)
    if not {'incomplete_root', 'pruned_root'} <= set(flags):
        raise AnalysisError(f'UNRECOGNISED-IDIOM {rule}: mode flags of {d.qualname}')

    def ev(flag, mode):
        op, k = flags[flag]
        return {ast.Eq: mode == k, ast.NotEq: mode != k, ast.Gt: mode > k, ast.GtE: mode >= k, ast.Lt: mode < k, ast.LtE: mode <= k}[op]
    for c in cs:
        m = get_arg(c, 0, 'mode')
        if not (isinstance(m, ast.Constant) and isinstance(m.value, int)):
            raise AnalysisError(f'UNRECOGNISED-IDIOM {rule}: iter_depth mode `{text(m)}` at {f.loc(c)}')
        first = ev('incomplete_root', m.value)
        last = ev('pruned_root', m.value)
        ok = first or not last
        ctx.ob(rule, f'iter_errors: the root element of a lazy document is validated before its chunks (iter_depth mode {m.value})', f.loc(c), ok,
               '' if ok else f'mode {m.value} yields the chunks first and the pruned root on its end event: what concerns the root itself (its attributes, '
               'its child sequence) is reported after the errors of all chunks, the full run reports it first - same errors, different order',
               key='iter_errors|root-after-chunks')
    ctx.explain(f'{rule}: the literal mode of the iter_depth selector is folded into the flags of XMLResource.iter_depth '
                '(incomplete_root / pruned_root) to decide when the root reaches the driver.')


def rule_i(ctx: Ctx) -> None:
    """Document-wide constraints span the streamed chunks also when decoding: the chunk decoder (raw_decoder) yields its
    end-of-run reference errors *after* its last result, so whoever consumes it must run it to exhaustion."""
    rule = 'C06.i'
    f = ctx.idx.method(SCHEMA, 'raw_decoder')
    ctx.analysed(f.qualname)
    g = cfg_of(ctx, f)
    loops = [n for n in g.nodes if n.kind == 'for' and text(n.ast.iter) == 'selector']
    tail = [n for n, y in _yields(g) if isinstance(y, ast.YieldFrom) and '_validate_references' in text(y.value)]
    after = set()
    if loops:
        after = g.reachable([m for m, lab in g.succ[loops[0]] if lab == 'F'], kinds='nTF')
    has_tail = bool(tail) and all(t in after for t in tail)
    ctx.ob(rule, 'raw_decoder reports dangling IDREFs / key references of the chunks after the last chunk', f.loc(tail[0].ast) if tail else f.loc(), has_tail, '',
           key='raw_decoder|tail-errors', nontrivial=False)
    doc = ctx.idx.module('documents')
    enc = [fn for q, fn in ctx.idx.functions.items() if q.startswith('xmlschema.documents.get_lazy_json_encoder') and fn.name == 'default']
    if not enc:
        raise AnalysisError('missing anchor xmlschema.documents.get_lazy_json_encoder.<locals>.JSONLazyEncoder.default')
    d = enc[0]
    ctx.analysed(d.qualname)
    gd = cfg_of(ctx, d)
    lp = [n for n in gd.nodes if n.kind == 'for' and text(n.ast.iter) == 'obj']
    early = [r for r in gd.nodes if r.kind == 'return' and lp and any(r.ast is x for b in lp[0].ast.body for x in ast.walk(b))]
    # one result per placeholder: the generator is left suspended after the last result unless something drains it
    drains = [fn for fn in ctx.idx.iter_functions('documents') if not isinstance(fn.node, ast.Lambda) and fn.name in ('to_json',)
              and any(isinstance(x, ast.For) and 'decoder' in text(x.iter) for x in ast.walk(fn.node))]
    ok = not (has_tail and early) or bool(drains)
    ctx.ob(rule, 'the consumer of the lazy chunk decoder runs it to exhaustion (the errors after the last chunk are collected)', d.loc(early[0].ast) if early else d.loc(), ok,
           '' if ok else 'JSONLazyEncoder.default takes one result per placeholder and returns; after the last chunk nothing resumes the generator, so the reference errors '
           'that raw_decoder yields after its loop are never produced: lazy to_json()/decode() of a document with a dangling IDREF inside the chunks report no error, '
           'the full run reports it', key='lazy-json|decoder-not-exhausted')
    ctx.explain(f'{rule}: raw_decoder yields `_validate_references` after its loop; the only consumer of the lazy decoder returns from inside '
                'its loop and no caller drains the generator afterwards.')


def rule_j(ctx: Ctx) -> None:
    """Every streamed chunk is resolved through the schema path `<parent>/*`: the declaration under the parent comes first (C20.f body)."""
    c20.rule_f(ctx, 'C06.j')


def rule_k(ctx: Ctx) -> None:
    """The chunks of a lazy resource are not reached from their parents, so nobody has put the namespace declarations of the intermediate
    ancestors in scope (XsdElement.raw_decode sets the context of the element itself, the converter's initial map holds the root's).  The
    driver that tracks the live ancestors re-establishes their xmlns contexts, level by level, whenever the chain changes."""
    rule = 'C06.k'
    f = ctx.idx.method(SCHEMA, 'iter_errors')
    ctx.analysed(f.qualname)
    g = cfg_of(ctx, f)
    sites = []
    for n, c in call_nodes(g, lambda c: isinstance(c.func, ast.Attribute) and c.func.attr == 'set_xmlns_context'):
        gs = guards(ctx, f, n)
        loop = [t for t, lab in gs if lab == 'T' and t.startswith('for ') and 'enumerate(ancestors' in t]
        args = [text(a) for a in c.args]
        lvl_ok = False
        if loop and len(args) == 2:
            hdr = loop[0]                   # "for k, e in enumerate(ancestors)"
            vars_ = hdr[4:hdr.index(' in ')].replace('(', '').replace(')', '').split(',')
            vars_ = [v.strip() for v in vars_]
            start1 = 'start=' in hdr or ', 1)' in hdr
            lvl_ok = len(vars_) == 2 and args == [vars_[1], vars_[0]] and not start1
        sites.append((n, c, bool(loop), lvl_ok, ('prev_ancestors != ancestors', 'T') in gs or ('prev_ancestors == ancestors', 'F') in gs))
    good = [x for x in sites if x[2] and x[3] and x[4]]
    ok = bool(good)
    ctx.ob(rule, 'iter_errors: when the chain of ancestors changes, the xmlns context of every ancestor is set at its own level', f.loc(good[0][1]) if good else f.loc(), ok,
           '' if ok else 'no `converter.set_xmlns_context(ancestor, level)` over enumerate(ancestors) under the ancestor-change test: with a lazy depth of 2 or more a prefix '
           'declared on an intermediate element is unmapped for the chunks below it - lazy validation reports "unmapped prefix" for a document that full validation accepts',
           key='iter_errors|ancestor-xmlns')
    ctx.explain('C06.k: in XMLSchemaBase.iter_errors a call converter.set_xmlns_context(e, k) sits in a loop `for k, e in enumerate(ancestors)` (levels from 0) that is control '
                'dependent on `prev_ancestors != ancestors`.')


def rule_l(ctx: Ctx) -> None:
    """Lazy and full validation report an error at the same path - C19.l body."""
    from .c19 import lazy_path_kept
    lazy_path_kept(ctx, 'C06.l')


def rule_m(ctx: Ctx) -> None:
    """Iterating a lazy resource yields the elements of the loaded tree - in the order of the loaded tree, document order.  The elements below the lazy
    depth are only complete at their end events, which arrive in post-order; whatever buffers them must give them back in pre-order (or the full element is
    walked with .iter()).  A buffer filled with appendleft() and yielded as it stands gives *reverse post-order*: parent, then the children right to left."""
    rule = 'C06.m'
    f = ctx.idx.method('xmlschema.resources.xml_resource.XMLResource', 'iter')
    ctx.analysed(f.qualname)
    ys = [y for y in ast.walk(f.node) if isinstance(y, ast.YieldFrom)]
    ctx.floor(rule, '`yield from` sites of XMLResource.iter', len(ys), 2)
    bad = []
    for y in ys:
        src = text(y.value)
        if not isinstance(y.value, ast.Name):
            continue
        fills = [c for c in calls(f.node) if isinstance(c.func, ast.Attribute) and text(c.func.value) == src and c.func.attr in ('appendleft', 'append', 'insert', 'extendleft')]
        for c in fills:
            rev = c.func.attr in ('appendleft', 'extendleft') or (c.func.attr == 'insert' and c.args and isinstance(c.args[0], ast.Constant) and c.args[0].value == 0)
            if rev:
                bad.append((y, c))
    ok = not bad
    ctx.ob(rule, 'XMLResource.iter: the elements below the lazy depth are yielded in document order', f.loc(bad[0][1]) if bad else f.loc(), ok,
           '' if ok else f'`{text(bad[0][1])}` at every end event and `yield from {text(bad[0][0].value)}` afterwards: <r><a><b><c/><d/></b><e/></a><f/></r> is iterated as r a e b d c f '
           '(lazy depth 1) and r a b d c e f (depth 2) - the loaded tree gives r a b c d e f', key='XMLResource.iter|subtree-order')
    ctx.explain('C06.m: a buffer that XMLResource.iter hands out with `yield from` is not filled at the front (appendleft / insert(0, …)) from the post-order end events.')


RULES = [rule_a, rule_b, rule_c, rule_d, rule_e, rule_f, rule_g, rule_h, rule_i, rule_j, rule_k, rule_l, rule_m]
