"""C17 — names survive prefix mapping (structural clauses).

C17.a forward and reverse maps move together     C17.b snapshot before update, by value
C17.c loader namespace stack discipline           C17.d context copy keeps the converter private
"""
from __future__ import annotations

import ast

from ..astutil import calls, text, walk_no_nested
from ..index import AnalysisError
from ..report import Ctx
from .common import call_nodes, cfg_of, guards

NM = 'xmlschema.namespaces.NamespaceMapper'
LOADER = 'xmlschema.resources.xml_loader.XMLResourceLoader'
MUTATORS = ('update', 'pop', 'clear', 'setdefault', 'popitem', '__setitem__', '__delitem__')


def _mutates(stmt_exprs, target: str, rebinding: bool = True) -> bool:
    """Does a node (its expressions) mutate (or, with ``rebinding``, rebind) the map ``target`` (e.g. 'self.namespaces')?"""
    for e in stmt_exprs:
        for n in ast.walk(e):
            if isinstance(n, (ast.Assign, ast.AugAssign, ast.AnnAssign)):
                tg = n.targets if isinstance(n, ast.Assign) else [n.target]
                for t in tg:
                    if (rebinding and text(t) == target) or (isinstance(t, ast.Subscript) and text(t.value) == target):
                        return True
            elif isinstance(n, ast.Delete):
                for t in n.targets:
                    if isinstance(t, ast.Subscript) and text(t.value) == target:
                        return True
            elif isinstance(n, ast.Call) and isinstance(n.func, ast.Attribute) and n.func.attr in MUTATORS and text(n.func.value) == target:
                return True
    return False


def rule_a(ctx: Ctx) -> None:
    rule = 'C17.a'
    base = ctx.idx.cls(NM)
    sites = 0
    for c in ctx.idx.subclasses(base):
        for m in c.methods.values():
            if isinstance(m.node, ast.Lambda):
                continue
            if 'self.namespaces' not in text(m.node):
                continue
            g = cfg_of(ctx, m)
            fwd = [n for n in g.stmt_nodes() if n.kind in ('stmt', 'for', 'with') and _mutates(n.exprs, 'self.namespaces')]
            if not fwd:
                continue
            rev = {n for n in g.stmt_nodes() if _mutates(n.exprs, 'self._reverse')}
            # first-prefix-wins idiom: `if uri not in self._reverse:` guarding the reverse write
            tests = {n for n in g.nodes if n.kind == 'if' and 'not in self._reverse' in text(n.ast.test)}
            for n in fwd:
                sites += 1
                if n in rev:
                    ok = True
                    w = None
                else:
                    w = g.must_pass(n, [g.exit], rev | tests, kinds='nTF')
                    ok = w is None
                # or the reverse mutation precedes in the same straight line (e.g. `del self._reverse[uri]` right after a pop is after; clear order may vary)
                if not ok:
                    dom = g.dominators(kinds='nTF')
                    ok = any(r in dom[n] and not any(k.kind in ('if', 'for', 'while') for k in _between(g, r, n)) for r in rev)
                ctx.ob(rule, f'{c.name}.{m.name}: `{text(n.ast)[:50]}` is paired with an update of the reverse map', m.loc(n.ast), ok,
                       '' if ok else 'a path reaches the end of the method with the prefix->URI map changed and the URI->prefix map stale: '
                       'map_qname would emit prefixes that no longer resolve', key=f'{c.qualname}.{m.name}|pair|{text(n.ast)[:50]}')
    ctx.floor(rule, 'mutation sites of NamespaceMapper.namespaces', sites, 8)
    # nobody else mutates a mapper's maps
    n_other = 0
    for f in ctx.idx.iter_functions():
        if f.module.name.startswith('xmlschema.testing') or isinstance(f.node, ast.Lambda):
            continue
        if f.cls is not None and base in f.cls.mro():
            continue
        if '.namespaces' not in f.module.segment(f.node) and '_reverse' not in f.module.segment(f.node):
            continue
        for s in walk_no_nested(f.node):
            if isinstance(s, ast.stmt):
                for tgt in ('context.namespaces', 'converter.namespaces', 'context.converter.namespaces', 'self.converter.namespaces',
                            'mapper.namespaces', 'context.converter._reverse', 'converter._reverse'):
                    if not any(isinstance(x, ast.stmt) and x is not s for x in ast.walk(s)) and _mutates([s], tgt, rebinding=False):
                        n_other += 1
                        ctx.ob(rule, f'{f.qualname.split(".", 1)[-1]} writes `{tgt}` from outside the mapper', f.loc(s), False,
                               'the reverse map cannot follow a write made outside NamespaceMapper', key=f'{f.qualname}|outside|{tgt}')
    ctx.ob(rule, 'no code outside NamespaceMapper (and subclasses) mutates a mapper\'s namespace maps', 'xmlschema/namespaces.py:1', n_other == 0, '',
           key='outside-writers', nontrivial=False)
    # embedded positive example: the detector recognises a write
    probe = ast.parse("context.namespaces['p'] = uri").body
    if not _mutates(probe, 'context.namespaces'):
        raise AnalysisError(f'{rule}: embedded positive example not recognised')
    ctx.explain('C17.a: every mutation of the prefix->URI map in NamespaceMapper and its subclasses is followed on every path '
                '(CFG must-pass-through) by a mutation of the URI->prefix map or the first-prefix-wins guard.')


def _between(g, a, b):
    """nodes on some path a..b (exclusive), cheap approximation: reachable from a that can reach b."""
    fwd = g.reachable([a], kinds='nTF')
    back = set()
    stack = [b]
    while stack:
        x = stack.pop()
        if x in back:
            continue
        back.add(x)
        stack.extend(p for p, lab in g.pred[x] if lab in 'nTF')
    return (fwd & back) - {a, b}


def _is_copy_of(e: ast.AST, src: str) -> bool:
    t = text(e)
    if t in (f'{src}.copy()', f'dict({src})', f'{{**{src}}}', f'copy({src})', f'copy.copy({src})'):
        return True
    if isinstance(e, ast.DictComp) and len(e.generators) == 1 and text(e.generators[0].iter) == f'{src}.items()':
        return True
    return False


def rule_b(ctx: Ctx) -> None:
    rule = 'C17.b'
    f = ctx.idx.method(NM, 'set_xmlns_context')
    g = cfg_of(ctx, f)
    # the context pushed on the stack holds copies of both maps
    pushes = call_nodes(g, lambda c: text(c.func) == 'self._xmlns_contexts.append')
    ctx.floor(rule, 'pushes on the xmlns context stack', len(pushes), 1)
    rd = g.reaching_defs()
    for n, c in pushes:
        arg = c.args[0]
        ctor = arg
        if isinstance(arg, ast.Name):
            defs = rd[n].get(arg.id, set())
            ctor = next((d.ast.value for d in defs if d.ast is not None and isinstance(d.ast, ast.Assign)), None)
        ok = isinstance(ctor, ast.Call) and text(ctor.func) == 'NamespaceMapperContext'
        copies = []
        if ok:
            parts = list(ctor.args) + [k.value for k in ctor.keywords]
            copies = [p for p in parts if _is_copy_of(p, 'self.namespaces')] + [p for p in parts if _is_copy_of(p, 'self._reverse')]
            alias = [p for p in parts if text(p) in ('self.namespaces', 'self._reverse')]
            ok = len(copies) == 2 and not alias
        ctx.ob(rule, 'the saved context holds copies (not aliases) of both maps', f.loc(c), ok,
               '' if ok else 'the live dict objects are stored: the later update would also change the snapshot', key='set_xmlns_context|snapshot-by-value')
        # push precedes the update on the same path
        # the merge: update(xmlns), or a loop over xmlns that stores each binding
        ups = [m for m, cc in call_nodes(g, lambda cc: text(cc.func) == 'self.namespaces.update' and text(cc.args[0]) == 'xmlns')]
        stacked = [t for t, lab in guards(ctx, f, n) if lab == 'T' and 'stacked' in t]
        for m in g.nodes:
            if m.kind == 'stmt' and isinstance(m.ast, ast.Assign) and isinstance(m.ast.targets[0], ast.Subscript) \
                    and text(m.ast.targets[0].value) == 'self.namespaces':
                gs = guards(ctx, f, m)
                if any(t.startswith('for ') and t.endswith(' in xmlns') and lab == 'T' for t, lab in gs) and all((t, 'T') in gs for t in stacked):
                    ups.append(m)
        snap_nodes = [d for d in (rd[n].get(arg.id, set()) if isinstance(arg, ast.Name) else {n})]
        dom = g.dominators(kinds='nTF')
        ok = bool(ups) and all(all(s in dom[u] for s in snap_nodes) for u in ups)
        ctx.ob(rule, 'the snapshot is taken before the in-scope declarations are merged', f.loc(c), ok, '', key='set_xmlns_context|snapshot-first')
        gs = guards(ctx, f, n)
        ok = ("self.xmlns_processing == 'stacked'", 'T') in gs
        ctx.ob(rule, "contexts are stacked only in the 'stacked' processing mode", f.loc(c), ok, '', key='set_xmlns_context|stacked-only')
    # restore: both maps are reassigned from the popped context
    pops = call_nodes(g, lambda c: text(c.func) == 'self._xmlns_contexts.pop')
    ctx.floor(rule, 'pops of the xmlns context stack', len(pops), 1)
    restore = [n for n in g.nodes if n.kind == 'if' and 'namespaces is not None' in text(n.ast.test)]
    ok = bool(restore)
    if ok:
        body = ' ; '.join(text(s) for s in restore[0].ast.body)
        ok = 'self.namespaces.clear()' in body and 'self.namespaces.update(namespaces)' in body and \
            'self._reverse.clear()' in body and 'self._reverse.update(reverse)' in body
        if not ok:
            ok = 'self.namespaces = ' in body and 'self._reverse = ' in body
    ctx.ob(rule, 'leaving a scope restores both maps from the saved context', f.loc(restore[0].ast) if restore else f.loc(), ok, '', key='set_xmlns_context|restore')
    for n, c in pops:
        okp = isinstance(n.ast, ast.Assign) and text(n.ast.targets[0]).replace(' ', '') in ('namespaces,reverse', '(namespaces,reverse)') \
            and text(n.ast.value).endswith('[-2:]')
        ctx.ob(rule, 'the popped context yields (namespaces, reverse) in the order they were saved', f.loc(c), okp, '', key='set_xmlns_context|pop-order')
    # field order of NamespaceMapperContext: (..., namespaces, reverse) last
    nc = ctx.idx.cls('xmlschema.namespaces.NamespaceMapperContext')
    fields = [text(s.target) for s in nc.node.body if isinstance(s, ast.AnnAssign)]
    ctx.ob(rule, 'NamespaceMapperContext ends with the fields (namespaces, reverse)', f'{nc.module.relpath}:{nc.node.lineno}',
           fields[-2:] == ['namespaces', 'reverse'], f'fields {fields}', key='NamespaceMapperContext|fields')
    # the pop loop stops at an ancestor: level > context.level
    brk = [b for b in g.nodes if b.kind == 'break']
    ok = any(('level > context.level', 'T') in guards(ctx, f, b) for b in brk)
    ctx.ob(rule, 'contexts are popped only for siblings and descendants (stop at level > context.level)', f.loc(), ok, '', key='set_xmlns_context|pop-stop')
    ctx.explain('C17.b: the stacked branch pushes a by-value snapshot of both maps before merging the declarations; the '
                'restore branch reassigns both maps; popping stops at the first ancestor context.')


def rule_c(ctx: Ctx, rule: str = 'C17.c') -> None:
    for meth, store in (('_parse', 'nsmaps[node]'), ('_lazy_iterparse', 'self._nsmaps[node]')):
        f = ctx.idx.method(LOADER, meth)
        g = cfg_of(ctx, f)
        pushes = call_nodes(g, lambda c: text(c.func) == 'nsmap_stack.append')
        ok = len(pushes) == 1 and text(pushes[0][1].args[0]) == 'nsmap_stack[-1].copy()'
        ctx.ob(rule, f'{meth}: a new scope is pushed as a copy of the enclosing namespace map', f.loc(pushes[0][1]) if pushes else f.loc(), ok,
               '' if ok else 'the parent map object itself is pushed: the update would leak declarations to the parent and siblings',
               key=f'{meth}|push-copy')
        ups = call_nodes(g, lambda c: text(c.func) == 'nsmap_stack[-1].update')
        dom = g.dominators(kinds='nTF')
        ok = len(ups) == 1 and bool(pushes) and pushes[0][0] in dom[ups[0][0]] and text(ups[0][1].args[0]) == 'start_ns' \
            and ('start_ns', 'T') in guards(ctx, f, ups[0][0])
        ctx.ob(rule, f'{meth}: declarations are merged into the freshly pushed map only', f.loc(), ok, '', key=f'{meth}|update-after-push')
        # every 'start' path stores the current top of the stack for the node
        st = [n for n in g.nodes if n.kind == 'if' and text(n.ast.test) == "event == 'start'"]
        stores = [n for n in g.nodes if n.kind == 'stmt' and isinstance(n.ast, ast.Assign) and text(n.ast.targets[0]) == store]
        ok = len(st) == 1 and len(stores) == 1 and text(stores[0].ast.value) == 'nsmap_stack[-1]'
        if ok:
            body_end = [m for m in g.nodes if m.kind in ('for',) and 'self._iterparse' in text(m.ast.iter)]
            starts = [m for m, lab in g.succ[st[0]] if lab == 'T']
            for s in starts:
                w = g.must_pass(s, body_end, stores, kinds='nTF')
                ok = ok and w is None
            # after push/pop handling: the store is after both
            pops_ = [n for n, c in call_nodes(g, lambda c: text(c.func) == 'nsmap_stack.pop')]
        ctx.ob(rule, f"{meth}: every 'start' event binds the node to the map on top of the stack", f.loc(stores[0].ast) if stores else f.loc(), ok, '',
               key=f'{meth}|store-top')
        # pops only under the end_ns flag, which is reset
        pops_ = call_nodes(g, lambda c: text(c.func) == 'nsmap_stack.pop')
        okp = bool(pops_)
        for n, c in pops_:
            gs = guards(ctx, f, n)
            okp = okp and ('end_ns', 'T') in gs
            blk = _block(f.node, n.ast)
            okp = okp and any(isinstance(s, ast.Assign) and text(s.targets[0]) == 'end_ns' and text(s.value) == 'False' for s in blk)
        ctx.ob(rule, f'{meth}: a scope is popped only when an end-ns event was seen, and the flag is reset', f.loc(), okp, '', key=f'{meth}|pop-flag')
        # a pending end-ns is consumed at the next 'start' AND at the next 'end' event: two nested scopes that close before the
        # next start tag are then both popped (sibling agreement of the two loops)
        en = [n for n in g.nodes if n.kind == 'if' and text(n.ast.test) == "event == 'end'"]
        pop_nodes = [n for n, c in pops_]
        has_start = any(("event == 'start'", 'T') in guards(ctx, f, n) for n in pop_nodes)
        has_end = any(("event == 'end'", 'T') in guards(ctx, f, n) for n in pop_nodes)
        ctx.ob(rule, f"{meth}: a pending end-ns is consumed both at the next 'start' and at the next 'end' event", f.loc(en[0].ast) if en else f.loc(),
               has_start and has_end, '' if has_start and has_end else "nested scopes closing before the next start tag are popped only once: "
               "the following sibling inherits the declarations of a closed element", key=f'{meth}|pop-at-end')
        sets_ = [n for n in g.nodes if n.kind == 'stmt' and isinstance(n.ast, ast.Assign) and text(n.ast.targets[0]) == 'end_ns' and text(n.ast.value) == 'True']
        ok = bool(sets_) and all(("event == 'end-ns'", 'T') in guards(ctx, f, n) for n in sets_)
        ctx.ob(rule, f"{meth}: the flag is raised exactly on 'end-ns' events", f.loc(), ok, '', key=f'{meth}|flag-set')
        # start_ns is re-bound to a fresh list after use (the used list object is stored in xmlns[node])
        rb = [n for n in g.nodes if n.kind == 'stmt' and isinstance(n.ast, ast.Assign) and text(n.ast.targets[0]) == 'start_ns' and text(n.ast.value) == '[]'
              and n is not None and ('start_ns', 'T') in guards(ctx, f, n)]
        ok = len(rb) == 1
        ctx.ob(rule, f'{meth}: start_ns is re-bound to a fresh list after it was attached to the node', f.loc(), ok,
               '' if ok else 'clearing the same list object would also empty the declarations already stored for the node', key=f'{meth}|fresh-start-ns')
        app = call_nodes(g, lambda c: text(c.func) == 'start_ns.append')
        ok = bool(app) and all(("event == 'start-ns'", 'T') in guards(ctx, f, n) for n, c in app)
        ctx.ob(rule, f"{meth}: 'start-ns' events are accumulated for the next start tag", f.loc(), ok, '', key=f'{meth}|accumulate')
    ctx.explain(f'{rule}: per-function invariants of the namespace stack in both parser loops (push = copy of top, then update; '
                'store top for every start; pop only under the end-ns flag; fresh start_ns list).')


def _block(fnode, stmt):
    for n in ast.walk(fnode):
        for fld in ('body', 'orelse', 'finalbody'):
            b = getattr(n, fld, None)
            if isinstance(b, list) and any(s is stmt for s in b):
                return b
    return []


def rule_d(ctx: Ctx) -> None:
    rule = 'C17.d'
    f = ctx.idx.func('xmlschema.validators.validation.ValidationContext.__copy__')
    g = cfg_of(ctx, f)
    sets_ = [n for n in g.nodes if n.kind == 'stmt' and isinstance(n.ast, ast.Assign) and text(n.ast.targets[0]) == 'context.converter']
    copied = [n for n in sets_ if text(n.ast.value) in ('copy.copy(self.converter)', 'copy(self.converter)', '_copy(self.converter)')]
    shared = [n for n in sets_ if text(n.ast.value) == 'self.converter']
    ok = len(copied) == 1
    if ok and shared:
        ok = all(("self.converter.xmlns_processing == 'none'", 'T') in guards(ctx, f, n) for n in shared)
    ctx.ob(rule, "a copied validation context gets its own converter unless namespace processing is 'none'", f.loc(), ok, '', key='ValidationContext.__copy__|converter')
    ns = [n for n in g.nodes if n.kind == 'stmt' and isinstance(n.ast, ast.Assign) and text(n.ast.targets[0]) == 'context.namespaces']
    ok = bool(ns) and all(text(n.ast.value) in ('context.converter.namespaces', 'self.namespaces') for n in ns) and \
        any(text(n.ast.value) == 'context.converter.namespaces' for n in ns)
    ctx.ob(rule, 'the copied context reads the namespaces of its own converter', f.loc(), ok, '', key='ValidationContext.__copy__|namespaces')
    # NamespaceMapper.__copy__ copies dict/list slots (namespaces, _reverse, _xmlns_contexts)
    mc = ctx.idx.method(NM, '__copy__')
    src = text(mc.node)
    ok = 'isinstance(value, (dict, list))' in src and 'value.copy()' in src
    ctx.ob(rule, 'NamespaceMapper.__copy__ copies its map and stack attributes', mc.loc(), ok, '', key='NamespaceMapper.__copy__')
    # ValidationContext.namespaces is the converter's live map
    init = ctx.idx.func('xmlschema.validators.validation.ValidationContext.__init__')
    ok = any(isinstance(s, ast.Assign) and text(s.targets[0]) == 'self.namespaces' and text(s.value) == 'converter.namespaces' for s in walk_no_nested(init.node))
    ctx.ob(rule, 'a validation context shares the namespace map object of its converter', init.loc(), ok, '', key='ValidationContext.__init__|namespaces')
    ctx.explain('C17.d: ValidationContext.__copy__ gives the copy a private converter (and its namespace map).')


def rule_e(ctx: Ctx, rule: str = 'C17.e') -> None:
    """unmap_qname resolves a key with the declarations of the node itself laid *over* the enclosing scope: where both bind a
    prefix (or the default namespace) the node's own declaration wins, and the mapper's map is not modified."""
    f = ctx.idx.method(NM, 'unmap_qname')
    ctx.analysed(f.qualname)
    g = cfg_of(ctx, f)
    defs = [n for n in g.nodes if n.kind == 'stmt' and isinstance(n.ast, (ast.Assign, ast.AnnAssign)) and getattr(n.ast, 'value', None) is not None
            and text(n.ast.targets[0] if isinstance(n.ast, ast.Assign) else n.ast.target) == 'namespaces'
            and ('xmlns', 'T') in guards(ctx, f, n)]
    ctx.floor(rule, 'overlay constructions in unmap_qname', len(defs), 1)

    def from_xmlns(e):
        return any(isinstance(x, ast.Name) and x.id == 'xmlns' for x in ast.walk(e))

    def from_mapper(e):
        return 'self.namespaces' in text(e) or 'self._namespaces' in text(e)
    for n in defs:
        v = n.ast.value
        verdict, why = None, ''
        if isinstance(v, ast.Call) and text(v.func) in ('ChainMap', 'collections.ChainMap') and len(v.args) >= 2:
            verdict = from_xmlns(v.args[0]) and not from_mapper(v.args[0])
            why = 'ChainMap looks keys up in its first map first'
        elif isinstance(v, ast.Dict) and any(k is None for k in v.keys):
            stars = [val for k, val in zip(v.keys, v.values) if k is None]
            verdict = len(stars) >= 2 and from_xmlns(stars[-1]) and from_mapper(stars[0])
            why = 'in a dict display the later `**` operand overrides the earlier'
        elif from_mapper(v) and not from_xmlns(v):
            # a copy of the mapper's map, then updated with the declarations
            fresh = isinstance(v, (ast.DictComp,)) or (isinstance(v, ast.Call) and (text(v.func) in ('dict', 'copy', 'copy.copy')
                                                                                       or (isinstance(v.func, ast.Attribute) and v.func.attr == 'copy')))
            ups = [m for m, c in call_nodes(g, lambda c: text(c.func) == 'namespaces.update' and c.args and from_xmlns(c.args[0]))]
            dom = g.dominators(kinds='nTF')
            verdict = fresh and bool(ups) and all(n in dom[u] for u in ups)
            why = 'copy of the enclosing map, then update() with the declarations' if fresh else \
                'the mapper\'s own map object is updated: the declarations of one node leak into the scope of every later node'
        else:
            raise AnalysisError(f'UNRECOGNISED-IDIOM {rule} at {f.loc(n.ast)}: overlay `{text(v)[:60]}`')
        ctx.ob(rule, 'unmap_qname: the declarations passed for the node override the bindings of the enclosing scope (and the mapper is left untouched)',
               f.loc(n.ast), bool(verdict), '' if verdict else f'`{text(n.ast)[:70]}` - {why}: a child that redeclares a prefix (or the default namespace) of an '
               'ancestor is resolved with the ancestor\'s URI and encoded in the wrong namespace', key='unmap_qname|overlay-precedence')
    ctx.explain(f'{rule}: the overlay map of NamespaceMapper.unmap_qname is recognised in three forms (copy+update, dict display with '
                '** operands, ChainMap) and the operand that wins a collision must be the one derived from `xmlns`.')


def rule_f(ctx: Ctx) -> None:
    """Inverse consistency: `_reverse[uri]` names a prefix that is bound to `uri`.  Binding a prefix that may already be bound to
    another namespace must first take the old namespace's reverse entry away from it (or move it to another prefix of that
    namespace) - otherwise names of the old namespace are still mapped to the prefix, which now means something else."""
    rule = 'C17.f'
    c = ctx.idx.cls(NM)
    n = 0
    for m in [m for q, m in ctx.idx.functions.items() if m.cls is not None and c in m.cls.mro() and not isinstance(m.node, ast.Lambda)]:
        if m.name == '__init__':
            continue
        g = cfg_of(ctx, m)
        dom = None
        for node in g.nodes:
            if not (node.kind == 'stmt' and isinstance(node.ast, ast.Assign) and isinstance(node.ast.targets[0], ast.Subscript)
                    and text(node.ast.targets[0].value) == 'self.namespaces'):
                continue
            key = node.ast.targets[0].slice
            if isinstance(key, ast.Constant):
                kt = repr(key.value)
            else:
                kt = text(key)
            gs = guards(ctx, m, node)
            # cannot rebind: the store is behind "not bound yet", or at the exit of the renaming loop `while <key> in self.namespaces`
            fresh = any((t in (f'{kt} not in self.namespaces',) and lab == 'T') or (t in (f'{kt} in self.namespaces',) and lab == 'F') for t, lab in gs)
            n += 1
            if fresh:
                ctx.ob(rule, f'{m.name}: `{text(node.ast)[:40]}` binds a prefix that is not bound yet', m.loc(node.ast), True, '', key=f'{m.name}|bind|{kt}|fresh', nontrivial=False)
                continue
            dom = dom or g.dominators(kinds='nTF')
            un = [x for x, cc in call_nodes(g, lambda cc: text(cc.func) == 'self._unbind_prefix' and cc.args and text(cc.args[0]) == kt)]
            ok = any(u in dom[node] for u in un)
            ctx.ob(rule, f'{m.name}: `{text(node.ast)[:40]}` may rebind a prefix: the reverse entry of its old namespace is released first', m.loc(node.ast), ok,
                   '' if ok else f'no self._unbind_prefix({kt}, …) dominates the store: after <p:root xmlns:p="urn:1" xmlns:q="urn:1"><p:a xmlns:p="urn:2"><q:b/> '
                   'the element {urn:1}b is decoded under the key `p:b`, which the data\'s own declarations resolve to {urn:2}b', key=f'{m.name}|bind|{kt}|unbind-first')
        for node, cc in call_nodes(g, lambda cc: text(cc.func) == 'self.namespaces.update'):
            gs = guards(ctx, m, node)
            prior_clear = any(text(x.func) == 'self.namespaces.clear' for st in walk_no_nested(m.node) for x in calls(st)
                              if getattr(st, 'lineno', 0) < node.lineno and getattr(st, 'lineno', 0) >= node.lineno - 2)
            n += 1
            ctx.ob(rule, f'{m.name}: `{text(cc)[:40]}` replaces the whole map (restore after clear) - bulk updates never rebind', m.loc(cc), prior_clear,
                   '' if prior_clear else 'a bulk update can rebind prefixes without releasing the reverse entries of their old namespaces',
                   key=f'{m.name}|bulk|{text(cc)[:40]}')
    ctx.floor(rule, 'prefix binding sites in the namespace mappers', n, 4)
    # the release itself: only if the reverse entry points to this prefix; moved to another prefix of the old namespace when there is one
    u = c.methods.get('_unbind_prefix')
    ok = u is not None and 'self._reverse' in text(u.node) and any(isinstance(x, ast.Delete) and 'self._reverse' in text(x) for x in ast.walk(u.node))
    ctx.ob(rule, 'NamespaceMapper._unbind_prefix deletes (or re-targets) the reverse entry of the old namespace', u.loc() if u else f'{c.module.relpath}:{c.node.lineno}',
           ok, '', key='_unbind_prefix|deletes')
    ctx.explain('C17.f: every store `self.namespaces[k] = …` in the mappers is either behind a not-bound-yet test or dominated by '
                'self._unbind_prefix(k, …); bulk updates only restore a snapshot into the cleared map.')


def rule_g(ctx: Ctx) -> None:
    """The key of a child is its tag mapped with the prefixes in scope *for that child*: in XsdGroup.raw_decode the mapped name is
    computed anew for every child, after the child's namespace context was set (a name kept from the previous sibling was mapped
    in the previous sibling's scope)."""
    rule = 'C17.g'
    from .common import reach_cut
    f = ctx.idx.func('xmlschema.validators.groups.XsdGroup.raw_decode')
    ctx.analysed(f.qualname)
    g = cfg_of(ctx, f)
    loops = [n for n in g.nodes if n.kind == 'for' and text(n.ast.iter) in ('enumerate(obj)', 'obj')]
    if len(loops) != 1:
        raise AnalysisError(f'{rule}: expected one loop over the children in {f.qualname}')
    head = loops[0]
    maps_ = [n for n in g.nodes if n.kind == 'stmt' and isinstance(n.ast, ast.Assign) and isinstance(n.ast.value, ast.Call)
             and isinstance(n.ast.value.func, ast.Attribute) and n.ast.value.func.attr == 'map_qname' and 'child.tag' in text(n.ast.value)]
    ctx.floor(rule, 'mappings of the child tag in XsdGroup.raw_decode', len(maps_), 1)
    var = text(maps_[0].ast.targets[0]) if maps_ else 'name'
    uses = [n for n in g.stmt_nodes() if n not in maps_ and any(isinstance(x, ast.Name) and x.id == var and isinstance(x.ctx, ast.Load) for e in n.exprs for x in ast.walk(e))
            and any(any(n.ast is y for y in ast.walk(b)) for b in head.ast.body)]
    starts = [m for m, lab in g.succ[head] if lab == 'T']
    stale = reach_cut(g, starts, set(), avoid=set(maps_) | {head}, kinds='nTF')
    bad = [u for u in uses if u in stale]
    ok = bool(uses) and not bad
    ctx.ob(rule, f'XsdGroup.raw_decode: every use of `{var}` in an iteration follows the mapping of this child\'s tag', f.loc(maps_[0].ast) if maps_ else f.loc(), ok,
           '' if ok else f'line {bad[0].lineno} can use `{var}` computed for an earlier sibling: when that sibling redeclared the prefix (or the default namespace) on itself, '
           'the next sibling of the same tag is stored under a key that its own scope resolves to another namespace', key='XsdGroup.raw_decode|name-per-child')
    sx = [n for n, c in call_nodes(g, lambda c: isinstance(c.func, ast.Attribute) and c.func.attr == 'set_xmlns_context' and c.args and text(c.args[0]) == 'child')]
    dom = g.dominators(kinds='nTF')
    ok = bool(sx) and bool(maps_) and all(any(s in dom[m] for s in sx) for m in maps_)
    ctx.ob(rule, 'XsdGroup.raw_decode: the tag is mapped after the namespace context of the child was set', f.loc(sx[0].ast) if sx else f.loc(), ok, '',
           key='XsdGroup.raw_decode|map-after-context')
    ctx.explain('C17.g: within one iteration over the children no use of the mapped name is reachable without passing '
                '`… = converter.map_qname(child.tag)`, which is dominated by set_xmlns_context(child, …).')


def _prefix_encoding(e: ast.AST):
    """the prefix variable when ``e`` computes the reverse-map value of a prefix ('' for the default prefix, 'p:' otherwise) in one of
    the accepted spellings; '' for the constant ''; None otherwise."""
    def plus_colon(x):
        if isinstance(x, ast.BinOp) and isinstance(x.op, ast.Add) and isinstance(x.right, ast.Constant) and x.right.value == ':' and isinstance(x.left, ast.Name):
            return x.left.id
        if isinstance(x, ast.JoinedStr) and len(x.values) == 2 and isinstance(x.values[0], ast.FormattedValue) and isinstance(x.values[0].value, ast.Name) \
                and isinstance(x.values[1], ast.Constant) and x.values[1].value == ':':
            return x.values[0].value.id
        return None
    if isinstance(e, ast.Constant) and e.value == '':
        return ''
    if isinstance(e, ast.BoolOp) and isinstance(e.op, ast.And) and len(e.values) == 2 and isinstance(e.values[0], ast.Name) and plus_colon(e.values[1]) == e.values[0].id:
        return e.values[0].id
    if isinstance(e, ast.IfExp):
        t, neg = e.test, False
        if isinstance(t, ast.UnaryOp) and isinstance(t.op, ast.Not):
            t, neg = t.operand, True
        a, b = (e.orelse, e.body) if neg else (e.body, e.orelse)
        if isinstance(t, ast.Name) and plus_colon(a) == t.id and isinstance(b, ast.Constant) and b.value == '':
            return t.id
    return None


def rule_h(ctx: Ctx) -> None:
    """One encoding of the reverse map: `_reverse[uri]` is '' for the default prefix and 'p:' for a named one.  Every value stored
    into it and every value it is compared with is computed that way - a site that spells the default prefix as ':' never matches, so
    the reverse entry of a rebound default namespace is never released."""
    rule = 'C17.h'
    c = ctx.idx.cls(NM)
    n = 0
    for f in c.methods.values():
        for x in walk_no_nested(f.node):
            sites = []
            if isinstance(x, ast.Assign) and len(x.targets) == 1 and isinstance(x.targets[0], ast.Subscript) and text(x.targets[0].value) == 'self._reverse':
                sites.append(('stored into', x.value))
            elif isinstance(x, ast.Compare) and len(x.ops) == 1 and isinstance(x.ops[0], (ast.Eq, ast.NotEq)):
                l, r = x.left, x.comparators[0]
                for a_, b_ in ((l, r), (r, l)):
                    ta = text(a_)
                    if ta.startswith('self._reverse.get(') or ta.startswith('self._reverse['):
                        sites.append(('compared with', b_))
            for kind, v in sites:
                n += 1
                enc = _prefix_encoding(v)
                ok = enc is not None
                ctx.ob(rule, f'NamespaceMapper.{f.name}: the value {kind} the reverse map, `{text(v)[:40]}`, is the reverse-map encoding of a prefix', f.loc(x), ok,
                       '' if ok else f'`{text(v)}` gives ":" for the default prefix where every other site uses "": rebinding a default namespace that is also bound to a named '
                       'prefix leaves its reverse entry pointing at the default prefix, so {urn:a}e is decoded as the unprefixed key `e` inside an element that declares another '
                       'default namespace', key=f'NamespaceMapper.{f.name}|reverse-encoding|{kind}|{text(v)[:30]}')
    ctx.floor(rule, 'values stored into / compared with the reverse map', n, 5)
    ctx.explain('C17.h: sibling agreement of every site that produces a reverse-map value (stores and comparisons) on the encoding `p and p + \':\'` (accepted spellings '
                'enumerated in _prefix_encoding).')


def rule_i(ctx: Ctx) -> None:
    """The names of an element and of its attributes are mapped with the element's own namespace scope: the scopes pushed for its
    descendants (also for children that are skipped or cut) are purged before converter.element_decode runs, on every path - C08.f body."""
    from .c08 import rule_f as own_scope
    own_scope(ctx, 'C17.i')


def rule_j(ctx: Ctx) -> None:
    """A converter decodes and encodes in the same xmlns mode: the default mode is read from the `stackable` marker of the *effective*
    element_decode (XML source) or element_encode (data source).  Data decoded in stacked mode carries nested, scope-dependent prefix
    declarations which only a stacked encoder resolves - a collapsed encoder renames a shadowing prefix and resolves the descendants'
    names through the outer binding.  So for every converter class the two effective methods (after inheritance) carry the marker alike."""
    rule = 'C17.j'
    n = 0
    base = ctx.idx.cls('xmlschema.converters.base.XMLSchemaConverter')
    pd = base.find_method('xmlns_processing_default')
    reads = sorted({text(c.args[0]) for c in calls(pd.node) if isinstance(c.func, ast.Name) and c.func.id == 'getattr' and len(c.args) >= 2
                    and isinstance(c.args[1], ast.Constant) and c.args[1].value == 'stackable'}) if pd else []
    ok = reads == ['self.element_decode', 'self.element_encode']
    ctx.ob(rule, 'xmlns_processing_default reads the marker of the bound element_decode / element_encode', pd.loc() if pd else f'{base.module.relpath}:{base.node.lineno}', ok,
           f'{reads}', key='xmlns_processing_default|marker-reads', nontrivial=False)
    for c in ctx.idx.classes.values():
        if c.module.name.startswith(('xmlschema.testing', 'xmlschema.extras')):
            continue
        if base not in c.mro():
            continue
        marks = {}
        for m in ('element_decode', 'element_encode'):
            f = c.find_method(m)
            if f is None or isinstance(f.node, ast.Lambda):
                raise AnalysisError(f'{rule}: {c.qualname} has no {m}')
            marks[m] = (any(text(d).split('.')[-1] == 'stackable' for d in f.node.decorator_list), f)
        n += 1
        ok = marks['element_decode'][0] == marks['element_encode'][0]
        odd = marks['element_encode'][1] if marks['element_decode'][0] else marks['element_decode'][1]
        ctx.ob(rule, f'{c.name}: the effective element_decode and element_encode agree on the stackable marker', odd.loc() if not ok else f'{c.module.relpath}:{c.node.lineno}', ok,
               f'both {"stacked" if marks["element_decode"][0] else "collapsed"}' if ok else
               f'element_decode (from {marks["element_decode"][1].cls.name}) is {"" if marks["element_decode"][0] else "not "}stackable, element_encode (from '
               f'{marks["element_encode"][1].cls.name}) is {"" if marks["element_encode"][0] else "not "}stackable: decoded data carries nested xmlns declarations that the '
               'encoder flattens - a descendant under a re-bound prefix is encoded into the outer namespace', key=f'{c.qualname}|stackable-agreement')
    ctx.floor(rule, 'converter classes', n, 9)
    ctx.explain('C17.j: for every subclass of XMLSchemaConverter the methods element_decode and element_encode found through the MRO both carry @stackable or neither does.')


def rule_k(ctx: Ctx) -> None:
    """An encoder resolves the names of an object in the namespace context of that object: `set_xmlns_context(obj, level)` first drops the contexts the previous
    sibling's subtree left on the stack and then pushes the object's own declarations.  A name resolved *before* that call sees the sibling's rebindings; the wrapper
    encoders (BadgerFish, GData) do so only to probe whether the single key is the element's own tag and fall back to the declared name - a refusal ("Unmatched
    tag") must not hang on such a name."""
    rule = 'C17.k'
    base = ctx.idx.cls('xmlschema.converters.base.XMLSchemaConverter')
    n = 0
    for c in ctx.idx.classes.values():
        if c.module.name.startswith(('xmlschema.testing', 'xmlschema.extras')) or base not in c.mro():
            continue
        f = c.methods.get('element_encode')
        if f is None or isinstance(f.node, ast.Lambda):
            continue
        g = cfg_of(ctx, f)
        sets = [x for x, cl in call_nodes(g, lambda cl: isinstance(cl.func, ast.Attribute) and cl.func.attr == 'set_xmlns_context')]
        if not sets:
            continue
        n += 1
        ctx.analysed(f.qualname)
        dom = g.dominators(kinds='nTF')
        early = {}
        for x, cl in call_nodes(g, lambda cl: isinstance(cl.func, ast.Attribute) and cl.func.attr == 'unmap_qname'):
            if not any(s_ in dom.get(x, set()) for s_ in sets) and x.kind == 'stmt' and isinstance(x.ast, ast.Assign) and isinstance(x.ast.targets[0], ast.Name):
                early[x.ast.targets[0].id] = x
        bad = None
        for r in g.nodes:
            if r.kind != 'raise':
                continue
            for t, lab in guards(ctx, f, r):
                for v in early:
                    if f'is_matching({v})' in t:
                        bad = (r, v, t)
        ok = bad is None
        ctx.ob(rule, f'{c.name}.element_encode: no refusal depends on a name resolved before the namespace context of the object is set', f.loc(bad[0].ast) if bad else f.loc(), ok,
               '' if ok else f'`{bad[1]}` is resolved at line {early[bad[1]].lineno}, before set_xmlns_context(obj, level) has dropped the contexts of the previous sibling, and the raise '
               f'under `{bad[2][:50]}` hangs on it: after <p:a xmlns:p="urn:u2">…</p:a> the sibling <p:b> (p bound to urn:u1 by the root) resolves to {{urn:u2}}b - refused in strict mode, '
               'dropped in lax mode', key=f'{c.qualname}|early-name-refusal')
    ctx.floor(rule, 'encoders that set the namespace context of the object', n, 4)
    ctx.explain('C17.k: in each element_encode that calls set_xmlns_context, a local assigned from an unmap_qname call that the context call does not dominate never occurs in the '
                'is_matching(…) test guarding a raise (dominators + control dependence).')


RULES = [rule_a, rule_b, rule_c, rule_d, rule_e, rule_f, rule_g, rule_h, rule_i, rule_j, rule_k]
