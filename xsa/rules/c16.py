"""C16 — wildcard namespace constraints behave as sets of allowed names (structural clauses).

A constraint denotes a set of namespaces:   notNamespace X -> U \\ X      ##any -> U      ##other (target T) -> U \\ {'', T}
                                            list X -> X                    ('' = absent namespace, U infinite)
The predicates are hand-written case splits on the *kind* of both operands.  They are decided here by partial evaluation: for
every pair of kinds the if-chain is folded to the one expression it returns, that expression is put into a small vocabulary of
set relations (SUBSET, DISJOINT, MEMBER …) and compared with the relation the set reading prescribes.  Nothing is executed.

C16.a is_namespace_allowed: membership in the denoted set, per kind        C16.b is_matching asks about the right namespace
C16.c is_restriction: inclusion of the denoted sets, per pair of kinds     C16.d is_overlap: non-empty intersection, per pair
C16.e derivations use the matching operation; union(##other, list) keeps the target namespace of the list

Not decided: the in-place algebra of union()/intersection() beyond the clause in C16.e; notQName.
"""
from __future__ import annotations

import ast
import itertools
from typing import Optional

from ..astutil import calls, text, walk_no_nested
from ..index import AnalysisError
from ..report import Ctx
from .common import bool_atoms, cfg_of

W = 'xmlschema.validators.wildcards.XsdWildcard'
KINDS = ('N', 'A', 'O', 'L')
KIND_NAME = {'N': 'notNamespace', 'A': '##any', 'O': '##other', 'L': 'list'}


# --------------------------------------------------------------------------------------------- folding an if-chain
def _tv(e: ast.AST, env: dict) -> Optional[bool]:
    """three-valued truth of a test under known atoms (None = not determined by the kinds)"""
    if text(e) in env:
        return env[text(e)]
    if isinstance(e, ast.BoolOp):
        vals = [_tv(v, env) for v in e.values]
        if isinstance(e.op, ast.And):
            return False if any(v is False for v in vals) else (True if all(v is True for v in vals) else None)
        return True if any(v is True for v in vals) else (False if all(v is False for v in vals) else None)
    if isinstance(e, ast.UnaryOp) and isinstance(e.op, ast.Not):
        v = _tv(e.operand, env)
        return None if v is None else not v
    return env.get(text(e))


def simplify(e: ast.AST, env: dict) -> ast.AST:
    """a returned boolean expression with the operands the kinds determine folded away"""
    v = _tv(e, env)
    if v is not None:
        return ast.Constant(value=v)
    if isinstance(e, ast.BoolOp):
        vals = [simplify(x, env) for x in e.values]
        neutral = isinstance(e.op, ast.And)          # True is neutral for `and`, False for `or`
        vals = [x for x in vals if not (isinstance(x, ast.Constant) and x.value is neutral)]
        if any(isinstance(x, ast.Constant) and x.value is (not neutral) for x in vals):
            return ast.Constant(value=not neutral)
        if not vals:
            return ast.Constant(value=neutral)
        return vals[0] if len(vals) == 1 else ast.BoolOp(op=e.op, values=vals)
    return e


def fold(stmts: list, env: dict, undecided: list) -> list:
    """return expressions reachable in ``stmts`` under ``env`` (tests the kinds do not determine are followed both ways and noted)"""
    out = []

    def run(block) -> bool:
        """True if the block may fall through"""
        for st in block:
            if isinstance(st, ast.Return):
                out.append(simplify(st.value, env))
                return False
            if isinstance(st, ast.If):
                v = _tv(st.test, env)
                if v is True:
                    if not run(st.body):
                        return False
                elif v is False:
                    if not run(st.orelse):
                        return False
                else:
                    undecided.append(text(st.test))
                    a, b = run(st.body), run(st.orelse)
                    if not (a or b):
                        return False
            elif isinstance(st, (ast.Pass, ast.Expr, ast.Assign, ast.AnnAssign)):
                continue
            else:
                raise AnalysisError(f'UNRECOGNISED-IDIOM statement `{text(st)[:50]}` in a wildcard case split')
        return True
    run(stmts)
    return out


def kind_env(who: str, k: str) -> dict:
    return {f'{who}.not_namespace': k == 'N', f"'##any' in {who}.namespace": k == 'A', f"'##other' in {who}.namespace": k == 'O',
            f"'##other' not in {who}.namespace": k != 'O', f"'##any' not in {who}.namespace": k != 'A'}


# --------------------------------------------------------------------------------------------- vocabulary of set relations
def _gen(e: ast.AST):
    """(function, element expression, variable, iterated expression) of all(...)/any(...) over one generator without filter"""
    if isinstance(e, ast.Call) and isinstance(e.func, ast.Name) and e.func.id in ('all', 'any') and len(e.args) == 1 \
            and isinstance(e.args[0], ast.GeneratorExp) and len(e.args[0].generators) == 1 and not e.args[0].generators[0].ifs \
            and isinstance(e.args[0].generators[0].target, ast.Name):
        g = e.args[0]
        return e.func.id, g.elt, g.generators[0].target.id, text(g.generators[0].iter)
    return None


def _neg(r: str) -> str:
    if r in ('TRUE', 'FALSE'):
        return 'FALSE' if r == 'TRUE' else 'TRUE'
    if r.startswith('NOT '):
        return r[4:]
    head, rest = r.split('(', 1)
    if head in ('DISJOINT', 'MEETS'):
        return ('MEETS(' if head == 'DISJOINT' else 'DISJOINT(') + rest
    return 'NOT ' + r


def canon(e: ast.AST) -> str:
    """canonical relation denoted by a result expression (UNRECOGNISED forms raise)"""
    if isinstance(e, ast.Constant) and isinstance(e.value, bool):
        return 'TRUE' if e.value else 'FALSE'
    g = _gen(e)
    if g:
        fn, elt, var, it = g
        if isinstance(elt, ast.Compare) and len(elt.ops) == 1 and text(elt.left) == var:
            other = text(elt.comparators[0])
            if isinstance(elt.ops[0], ast.In):
                return f'SUBSET({it}, {other})' if fn == 'all' else f'MEETS({it}, {other})'
            if isinstance(elt.ops[0], ast.NotIn):
                return f'DISJOINT({it}, {other})' if fn == 'all' else f'NOT SUBSET({it}, {other})'
        # any(ns and ns != T for ns in X): some element outside {'', T}
        if fn == 'any' and isinstance(elt, ast.BoolOp) and isinstance(elt.op, ast.And) and len(elt.values) == 2 and text(elt.values[0]) == var:
            c = elt.values[1]
            if isinstance(c, ast.Compare) and len(c.ops) == 1 and isinstance(c.ops[0], ast.NotEq) and text(c.left) == var:
                return f"NOT SUBSET({it}, {{'', {text(c.comparators[0])}}})"
    if isinstance(e, ast.Call) and isinstance(e.func, ast.Attribute) and e.func.attr == 'issubset' and len(e.args) == 1 \
            and isinstance(e.args[0], (ast.Tuple, ast.Set, ast.List)):
        return f"SUBSET({text(e.func.value)}, {{{', '.join(sorted(text(x) for x in e.args[0].elts))}}})"
    if isinstance(e, ast.Call) and isinstance(e.func, ast.Attribute) and e.func.attr == 'isdisjoint' and len(e.args) == 1:
        if isinstance(e.args[0], (ast.Tuple, ast.Set, ast.List)):
            return f"DISJOINT({text(e.func.value)}, {{{', '.join(sorted(text(x) for x in e.args[0].elts))}}})"
        return f"DISJOINT({text(e.func.value)}, {text(e.args[0])})"
    if isinstance(e, ast.UnaryOp) and isinstance(e.op, ast.Not):
        return _neg(canon(e.operand))
    if isinstance(e, ast.BoolOp) and isinstance(e.op, ast.And) and all(isinstance(v, ast.Compare) and len(v.ops) == 1 for v in e.values):
        ins = [v for v in e.values if isinstance(v.ops[0], ast.In)]
        nins = [v for v in e.values if isinstance(v.ops[0], ast.NotIn)]
        if len(ins) == len(e.values) and len({text(v.comparators[0]) for v in ins}) == 1:
            return f"SUBSET({{{', '.join(sorted(text(v.left) for v in ins))}}}, {text(ins[0].comparators[0])})"
        if len(nins) == len(e.values) and len({text(v.comparators[0]) for v in nins}) == 1:
            return f"DISJOINT({text(nins[0].comparators[0])}, {{{', '.join(sorted(text(v.left) for v in nins))}}})"
    if isinstance(e, ast.Compare) and len(e.ops) == 1:
        a, b = text(e.left), text(e.comparators[0])
        if isinstance(e.ops[0], ast.In):
            return f'MEMBER({a}, {b})'
        if isinstance(e.ops[0], ast.NotIn):
            return f'NOT MEMBER({a}, {b})'
        if isinstance(e.ops[0], ast.NotEq):
            return f'NOT EQUAL({a}, {b})'
        if isinstance(e.ops[0], ast.Eq):
            return f'EQUAL({a}, {b})'
    raise AnalysisError(f'UNRECOGNISED-IDIOM set relation `{text(e)[:70]}`')


def _body(f):
    return [s for s in f.node.body if not (isinstance(s, ast.Expr) and isinstance(s.value, ast.Constant))]


# --------------------------------------------------------------------------------------------- C16.a
def rule_a(ctx: Ctx) -> None:
    rule = 'C16.a'
    f = ctx.idx.method(W, 'is_namespace_allowed')
    ctx.analysed(f.qualname)
    # namespace in the denoted set, per kind; the atoms about the queried namespace stay symbolic
    spec = {'N': ['NOT MEMBER(namespace, self.not_namespace)'], 'A': ['TRUE'],
            'O': None, 'L': ['MEMBER(namespace, self.namespace)']}
    # no namespace is treated specially: every test of the chain is about the constraint or about membership in it
    special = sorted({a for t in ast.walk(f.node) if isinstance(t, ast.If) for a in bool_atoms(t.test)
                      if 'namespace ==' in a and 'target_namespace' not in a})
    ctx.ob(rule, 'is_namespace_allowed: no namespace is admitted by name, whatever the constraint says', f.loc(), not special,
           '' if not special else f'`{special[0]}` admits that namespace for every constraint without notNamespace: a wildcard namespace="urn:a" '
           'matches elements and attributes of that namespace although it is not in its set', key='is_namespace_allowed|special-namespace')
    for k in KINDS:
        env = kind_env('self', k)
        for a in special:
            env[a] = False          # the table below is about ordinary namespaces
        und: list = []
        got = fold(_body(f), env, und)
        if k == 'O':
            # U \ {'', T}: absent namespace refused, otherwise different from the target
            env2 = dict(env)
            res = {}
            for absent in (True, False):
                env2['not namespace'] = absent
                env2['namespace'] = not absent
                u2: list = []
                r = [canon(x) for x in fold(_body(f), env2, u2)]
                res[absent] = (sorted(set(r)), sorted(set(u2)))
            ok = res[True][0] == ['FALSE'] and res[False][0] == ['NOT EQUAL(namespace, self.target_namespace)'] and not res[True][1] and not res[False][1]
            det = '' if ok else f'absent namespace -> {res[True]}, present -> {res[False]}'
        else:
            r = sorted({canon(x) for x in got})
            extra = [u for u in und]
            ok = r == spec[k] and not extra
            det = '' if ok else (f'returns {r}' + (f'; additionally decided by `{extra[0]}`: a namespace outside the denoted set is admitted (or one inside refused) '
                                                   'whenever that test holds' if extra else ''))
        ctx.ob(rule, f'is_namespace_allowed, constraint kind {KIND_NAME[k]}: a namespace is allowed exactly when it is in the denoted set', f.loc(), ok, det,
               key=f'is_namespace_allowed|{k}')
    ctx.explain('C16.a: the if-chain of XsdWildcard.is_namespace_allowed folded for each kind of constraint (notNamespace / ##any / ##other / '
                'list) to the expression it returns; that expression must be the membership test of the denoted set and no other test may '
                'take part in the decision.')


# --------------------------------------------------------------------------------------------- C16.b
def rule_b(ctx: Ctx) -> None:
    rule = 'C16.b'
    f = ctx.idx.method(W, 'is_matching')
    ctx.analysed(f.qualname)
    rets = [r for r in ast.walk(f.node) if isinstance(r, ast.Return) and r.value is not None]
    asked = sorted(text(c.args[0]) for r in rets for c in calls(r.value) if text(c.func) == 'self.is_namespace_allowed' and c.args)
    ok = asked == sorted(["''", 'default_namespace', 'get_namespace(name)'])
    ctx.ob(rule, 'is_matching asks about the namespace of a qualified name, the default namespace of an unprefixed one, or the absent namespace',
           f.loc(), ok, f'{asked}', key='is_matching|namespaces')
    other = [text(r.value) for r in rets if 'is_namespace_allowed' not in text(r.value)]
    ok = other == ['False']
    ctx.ob(rule, 'is_matching decides by the namespace alone (the only other answer is False for a missing name)', f.loc(), ok, f'{other}', key='is_matching|only-namespace')
    for cn in ('XsdAnyElement', 'XsdAnyAttribute'):
        c = ctx.idx.cls(f'xmlschema.validators.wildcards.{cn}')
        m = c.find_method('is_matching')
        ok = m is not None and m.cls is not None and m.cls.qualname == W
        ctx.ob(rule, f'{cn} (XSD 1.0) matches names with the inherited namespace test', m.loc() if m else f'{c.module.relpath}:{c.node.lineno}', ok, '',
               key=f'{cn}|inherits-is_matching', nontrivial=False)
    ctx.explain('C16.b: the arguments of the three is_namespace_allowed calls of XsdWildcard.is_matching.')


# --------------------------------------------------------------------------------------------- C16.c / C16.d
def _pair_table(ctx: Ctx, rule: str, f, preset: dict, spec, what: str, floor: int) -> None:
    n = 0
    for ks, ko in itertools.product(KINDS, KINDS):
        eqs = [False]
        if ks == ko and ks in ('A', 'O'):
            eqs = [True]
        elif ks == ko == 'L':
            eqs = [True, False]
        for eq in eqs:
            env = dict(preset)
            env.update(kind_env('self', ks))
            env.update(kind_env('other', ko))
            env['self.namespace == other.namespace'] = eq
            und: list = []
            got = fold(_body(f), env, und)
            res = sorted({canon(x) for x in got})
            want = spec(ks, ko, eq)
            n += 1
            ok = res == sorted(want) and not und
            det = '' if ok else f'folds to {res}' + (f' (undecided tests {sorted(set(und))[:2]})' if und else '') + f', the set reading gives {sorted(want)}'
            ctx.ob(rule, f'{f.name}({KIND_NAME[ks]}, {KIND_NAME[ko]}{", equal lists" if eq and ks == "L" else ""}): {what}', f.loc(), ok, det,
                   key=f'{f.name}|{ks}|{ko}|{eq}')
    ctx.floor(rule, f'kind pairs of {f.name}', n, floor)


def rule_c(ctx: Ctx, rule: str = 'C16.c') -> None:
    f = ctx.idx.method(W, 'is_restriction')
    ctx.analysed(f.qualname)
    # the tests before the namespace part (class, occurrences, processContents, notQName) only ever refuse: folded away as "passed"
    pre = {}
    for st in _body(f):
        if isinstance(st, ast.If):
            cur = st
            while isinstance(cur, ast.If):
                t = text(cur.test)
                if 'not_namespace' in t or ".namespace" in t:
                    break
                pre[t] = None
                cur = cur.orelse[0] if len(cur.orelse) == 1 and isinstance(cur.orelse[0], ast.If) else None
    # every such branch must only return False or fall through
    for st in _body(f):
        if isinstance(st, ast.If) and not ('not_namespace' in text(st.test) or '.namespace' in text(st.test)):
            rets = [r for r in ast.walk(st) if isinstance(r, ast.Return)]
            ok = all(isinstance(r.value, ast.Constant) and r.value.value is False for r in rets)
            ctx.ob(rule, f'is_restriction: the checks before the namespace part (`{text(st.test)[:40]}` …) can only refuse', f.loc(st), ok, '',
                   key=f'is_restriction|prefix|{text(st.test)[:40]}', nontrivial=False)
    preset = {t: False for t in pre}
    preset['not self.not_qname and (not other.not_qname)'] = True     # no notQName on either side: the namespace part alone decides

    def spec(ks, ko, eq):
        if ko == 'A':
            return ['TRUE'] if ks != 'N' or True else []
        if ks == 'N':
            return {'N': ['SUBSET(other.not_namespace, self.not_namespace)'],
                    'O': ["SUBSET({'', other.target_namespace}, self.not_namespace)"], 'L': ['FALSE']}[ko]
        if ks == 'A':
            return ['FALSE']
        if ks == 'O':
            # U\{'',Ts} within U\Xo  <=>  Xo within {'', Ts};   within U\{'',To} <=> same target;   within a finite list: never
            return {'N': ["SUBSET(other.not_namespace, {'', self.target_namespace})"], 'O': ['EQUAL(self.target_namespace, other.target_namespace)'],
                    'L': ['FALSE']}[ko]
        # list
        if ko == 'N':
            return ['DISJOINT(self.namespace, other.not_namespace)']
        if ko == 'O':
            return ["DISJOINT(self.namespace, {'', other.target_namespace})"]
        return ['TRUE'] if eq else ['SUBSET(self.namespace, other.namespace)']
    _pair_table(ctx, rule, f, preset, spec, 'accepted exactly when the set of the restriction is included in the set of the base', 17)
    ctx.explain(f'{rule}: XsdWildcard.is_restriction folded for the 16 pairs of constraint kinds (17 with equal lists); each returned '
                'expression, put into the vocabulary SUBSET / DISJOINT / MEMBER, must be the inclusion of the denoted sets.')


def rule_d(ctx: Ctx, rule: str = 'C16.d') -> None:
    c = ctx.idx.cls('xmlschema.validators.wildcards.XsdAnyElement')
    f = c.methods.get('is_overlap')
    if f is None:
        raise AnalysisError('missing anchor XsdAnyElement.is_overlap')
    ctx.analysed(f.qualname)
    preset = {'not isinstance(other, XsdAnyElement)': False}

    def spec(ks, ko, eq):
        if 'N' in (ks, ko):
            if ks == 'N' and ko == 'L':
                return ['NOT SUBSET(other.namespace, self.not_namespace)']
            if ks == 'L' and ko == 'N':
                return ['NOT SUBSET(self.namespace, other.not_namespace)']
            return ['TRUE']
        if eq or 'A' in (ks, ko):
            return ['TRUE']
        if ks == 'O' and ko == 'L':
            return ["NOT SUBSET(other.namespace, {'', self.target_namespace})"]
        if ks == 'L' and ko == 'O':
            return ["NOT SUBSET(self.namespace, {'', other.target_namespace})"]
        if ks == 'O' and ko == 'O':
            return ['TRUE']
        return ['MEETS(other.namespace, self.namespace)']
    _pair_table(ctx, rule, f, preset, spec, 'true exactly when the two denoted sets share a namespace', 17)
    ctx.explain(f'{rule}: XsdAnyElement.is_overlap folded for the pairs of constraint kinds; the returned expression must state that the '
                'denoted sets intersect.')


# --------------------------------------------------------------------------------------------- C16.e
def rule_e(ctx: Ctx) -> None:
    rule = 'C16.e'
    # derivations: extension -> union, composition of attribute groups -> intersection, restriction -> is_restriction
    ag = ctx.idx.func('xmlschema.validators.attributes.XsdAttributeGroup._parse')
    ctx.analysed(ag.qualname)
    from .common import cfg_of, guards
    g = cfg_of(ctx, ag)
    sites = {}
    for n in g.stmt_nodes():
        for e in n.exprs:
            for c in calls(e):
                if isinstance(c.func, ast.Attribute) and c.func.attr in ('union', 'intersection', 'is_restriction') and text(c.func.value) in ('attr', 'any_attribute'):
                    sites.setdefault(c.func.attr, []).append((n, c))
    for op, cond, lab, why in (('union', "self.derivation == 'extension'", 'T', 'the wildcard of an extension admits the union of both sets'),
                               ('is_restriction', "self.derivation == 'extension'", 'F', 'a restriction is accepted only if its wildcard is included in the base wildcard')):
        ss = sites.get(op, [])
        ok = bool(ss) and all((cond, lab) in guards(ctx, ag, n) and text(c.args[0]) == 'base_attr' for n, c in ss)
        ctx.ob(rule, f'XsdAttributeGroup._parse: {why} (`{op}(base_attr)`)', ag.loc(ss[0][1]) if ss else ag.loc(), ok, '', key=f'_parse|{op}')
    ss = sites.get('intersection', [])
    ok = bool(ss)
    ctx.ob(rule, 'XsdAttributeGroup._parse: wildcards of combined attribute groups are intersected', ag.loc(ss[0][1]) if ss else ag.loc(), ok, f'{len(ss)} site(s)',
           key='_parse|intersection')
    un = [(m, c) for m in ctx.idx.iter_functions('validators.complex_types') if not isinstance(m.node, ast.Lambda) for c in calls(m.node)
          if isinstance(c.func, ast.Attribute) and c.func.attr == 'union' and 'open_content.any_element' in text(c.func.value)]
    ctx.ob(rule, 'XsdComplexType: the open-content wildcard of an extension is united with the one of the base type', un[0][0].loc(un[0][1]) if un else 'xmlschema/validators/complex_types.py:1',
           bool(un), '', key='complex_types|open-content-union')
    # union(##other with target T, list X) = U \ ({'', T} \ X): the result can be `##other` only if X contains neither '' nor T
    f = ctx.idx.method(W, 'union')
    ctx.analysed(f.qualname)
    gg = cfg_of(ctx, f)
    adds = [n for n in gg.stmt_nodes() for e in n.exprs for c in calls(e) if text(c.func) == 'self.namespace.add' and c.args and text(c.args[0]) == "'##other'"]
    ctx.floor(rule, "`##other` results of union()", len(adds), 1)
    for n in adds:
        T = [t for t, lab in guards(ctx, f, n) if lab == 'T']
        conj = [a for t in T for a in _conjuncts(t)]
        ok = "'' not in w2.namespace" in conj and ('w1.target_namespace not in w2.namespace' in conj)
        ctx.ob(rule, "union(##other, list): the result is `##other` only if the list contains neither the absent namespace nor the target namespace",
               f.loc(n.ast), ok, '' if ok else f'path condition {sorted(set(conj))[:4]} does not exclude a list that contains the target namespace: '
               'U \\ {\'\', T} united with a list containing T is U \\ {\'\'}, the code keeps ##other and drops T', key='union|other-result')
    ctx.explain('C16.e: path conditions of the union / intersection / is_restriction calls in the attribute-group and complex-type parsers; '
                'path condition of the `##other` result of XsdWildcard.union.')


def _conjuncts(t: str) -> list[str]:
    try:
        e = ast.parse(t, mode='eval').body
    except SyntaxError:
        return [t]
    if isinstance(e, ast.BoolOp) and isinstance(e.op, ast.And):
        return [text(v) for v in e.values]
    return [t]


def rule_f(ctx: Ctx) -> None:
    """A wildcard admits a name exactly when it is in the denoted set - also when the content is skipped: the constraint test
    lies on every path of the wildcard validators (wild.constraint_first body)."""
    from .wild import constraint_first
    constraint_first(ctx, 'C16.f')


def rule_g(ctx: Ctx) -> None:
    """union()/intersection() update the constraint sets in place: a wildcard they are applied to must own its sets (C03.g body)."""
    from .c03 import rule_g as copy_ownership
    copy_ownership(ctx, 'C16.g')


MULTI_PASS_OK = {
    # (function, parameter) -> (its only caller, callee expression there): the caller is checked to pass a list
    ('xmlschema.validators.builders.GlobalMaps.build', 'schemas'): ('xmlschema.validators.xsd_globals.XsdGlobals.build', 'self.global_maps.build'),
}


def rule_h(ctx: Ctx) -> None:
    """A parameter declared `Iterable[...]` may be a one-shot generator (is_restriction passes `(x for x in other.not_qname if …)` to
    deny_qnames): a function that iterates it at two places on one path sees the second time only what the first left over, so some names
    are never tested against the namespace constraint.  On every path through the function the parameter is iterated at most once."""
    rule = 'C16.h'
    n = 0
    for f in ctx.idx.iter_functions('validators'):
        if isinstance(f.node, ast.Lambda):
            continue
        its = [a.arg for a in f.node.args.args + f.node.args.kwonlyargs if a.annotation is not None and text(a.annotation).startswith(('Iterable[', 'Iterator[', 'Iterable', 'Iterator'))]
        if not its:
            continue
        ctx.analysed(f.qualname)
        g = cfg_of(ctx, f)
        for p in its:
            sites = []
            for x in g.nodes:
                for e in (x.exprs or ([x.ast] if x.kind in ('stmt', 'return') else [])):
                    for y in ast.walk(e):
                        if isinstance(y, ast.comprehension) and isinstance(y.iter, ast.Name) and y.iter.id == p:
                            sites.append((x, y))
                        elif isinstance(y, ast.Call) and text(y.func) in ('list', 'tuple', 'set', 'sorted', 'any', 'all', 'sum', 'len', 'frozenset', 'next') \
                                and y.args and isinstance(y.args[0], ast.Name) and y.args[0].id == p:
                            sites.append((x, y))
                if x.kind == 'for' and isinstance(x.ast.iter, ast.Name) and x.ast.iter.id == p:
                    sites.append((x, x.ast))
            n += 1
            rebound = any(isinstance(s_, ast.Assign) and any(text(t) == p for t in s_.targets) and isinstance(s_.value, ast.Call) and text(s_.value.func) in ('list', 'tuple', 'set', 'frozenset')
                          for s_ in ast.walk(f.node))
            twice = None
            for a_, _ in sites:
                after = g.reachable([m for m, lab in g.succ[a_] if lab in 'nTF'], kinds='nTF')
                for b_, _ in sites:
                    if b_ is not a_ and b_ in after:
                        twice = (a_, b_)
                        break
                if twice:
                    break
            same_node = [x for x in {id(a_): a_ for a_, _ in sites}.values() if sum(1 for a2, _ in sites if a2 is x) > 1]
            ok = rebound or (twice is None and not same_node)
            if not ok and (f.qualname, p) in MULTI_PASS_OK:
                callerq, callee_txt = MULTI_PASS_OK[(f.qualname, p)]
                cf = ctx.idx.func(callerq)
                cs = [c for c in calls(cf.node) if text(c.func) == callee_txt and c.args and isinstance(c.args[0], ast.Name)]
                lists = bool(cs) and all(any(isinstance(s_, ast.Assign) and text(s_.targets[0]) == c.args[0].id and isinstance(s_.value, (ast.List, ast.ListComp, ast.Tuple))
                                             for s_ in ast.walk(cf.node)) for c in cs)
                ctx.ob(rule, f'{f.qualname.split(".", 2)[-1]}: `{p}` is iterated twice, its only caller passes a list', f.loc(), lists,
                       '' if lists else f'{callerq} no longer passes a list display/comprehension', key=f'{f.qualname}|single-pass|{p}', nontrivial=False)
                continue
            ctx.ob(rule, f'{f.qualname.split(".", 2)[-1]}: the iterable parameter `{p}` is iterated at most once on every path', f.loc(sites[0][0].ast) if sites else f.loc(), ok,
                   '' if ok else f'`{p}` is iterated at line {(twice[0] if twice else same_node[0]).lineno} and again at line {(twice[1] if twice else same_node[0]).lineno}: the caller '
                   'passes a generator, the first pass consumes it up to the first name it rejects and the second pass tests only the rest - a restriction whose base notQName has '
                   'exactly one name the derived wildcard does not exclude is accepted', key=f'{f.qualname}|single-pass|{p}')
    ctx.floor(rule, 'iterable parameters in the validators', n, 3)
    ctx.explain('C16.h: for every parameter annotated Iterable/Iterator in the validators package no iteration site is reachable from another one (unless the parameter is first '
                'materialised with list()/tuple()/set()).')


def rule_i(ctx: Ctx) -> None:
    """`##other` denotes "every namespace but the absent one and the target namespace of the schema that declares the wildcard".  In the
    in-place algebra (union, intersection) the two operands may come from schemas with different target namespaces, so wherever a branch
    uses a target namespace it must be the one of the operand that the path condition knows to be the ##other wildcard."""
    rule = 'C16.i'
    n = 0
    for meth in ('intersection', 'union'):
        f = ctx.idx.method(W, meth) if 'W' in globals() else ctx.idx.method('xmlschema.validators.wildcards.XsdWildcard', meth)
        ctx.analysed(f.qualname)
        g = cfg_of(ctx, f)
        for x in g.nodes:
            if x.kind not in ('stmt', 'if', 'return'):
                continue
            uses = [y for e in (x.exprs or [x.ast]) for y in ast.walk(e) if isinstance(y, ast.Attribute) and y.attr == 'target_namespace' and isinstance(y.value, ast.Name)
                    and y.value.id in ('self', 'other', 'w1', 'w2')]
            if not uses:
                continue
            from .common import guards
            gs = guards(ctx, f, x)
            known = set()
            for t, lab in gs:
                for who in ('self', 'other', 'w1', 'w2'):
                    if (t == f"'##other' in {who}.namespace" and lab == 'T') or (t == f"'##other' not in {who}.namespace" and lab == 'F'):
                        known.add(who)
            if not known:
                continue
            if known & {'self', 'other'} and (('self.namespace == other.namespace', 'T') in gs or ('self.namespace != other.namespace', 'F') in gs):
                known |= {'self', 'other'}      # equal token sets: both operands are ##other wildcards
            for y in uses:
                # a comparison of the two target namespaces with each other is not a use of one of them as the excluded namespace
                n += 1
                ok = y.value.id in known or len(known) > 1
                ctx.ob(rule, f'XsdWildcard.{meth}: `{text(y)}` (line {y.lineno}) is the target namespace of the operand known to be ##other ({", ".join(sorted(known))})', f.loc(x.ast), ok,
                       '' if ok else f'on this path `{sorted(known)[0]}` is the ##other wildcard, but the namespace removed/added is `{text(y)}`: for wildcards declared in schemas with '
                       'different target namespaces the result admits the namespace that ##other excludes and rejects one both operands admit',
                       key=f'XsdWildcard.{meth}|other-target|{text(y)}|{x.lineno - f.node.lineno}')
    ctx.floor(rule, 'uses of a target namespace under a known ##other operand', n, 3)
    ctx.explain('C16.i: in union() and intersection() every use of `<operand>.target_namespace` on a path whose condition establishes which operand is the ##other wildcard refers to '
                'that operand.')


def rule_j(ctx: Ctx) -> None:
    """Attribute groups combine by *intersection*: when a second referenced group brings a wildcard, the accumulated wildcard is intersected with it on every
    path.  The only sound reason to skip the work is that the accumulated set is already included in the new one (`accumulated.is_restriction(new)`); the
    opposite inclusion keeps the wider set."""
    rule = 'C16.j'
    f = ctx.idx.cls('xmlschema.validators.attributes.XsdAttributeGroup').methods['_parse']
    ctx.analysed(f.qualname)
    n = 0
    for owner in ast.walk(f.node):
        for fld in ('body', 'orelse'):
            blk = getattr(owner, fld, None)
            if not isinstance(blk, list):
                continue
            idxs = [i for i, st in enumerate(blk) if isinstance(st, ast.Expr) and any(isinstance(c.func, ast.Attribute) and c.func.attr == 'intersection' and c.args
                                                                                     and text(c.args[0]) == 'base_attr' for c in calls(st))]
            if not idxs:
                continue
            n += 1
            i = idxs[0]
            new = 'base_attr'
            skips = []
            for st in blk[:i]:
                for x in ast.walk(st):
                    if isinstance(x, ast.If) and any(isinstance(y, (ast.Continue, ast.Break, ast.Return)) for b in x.body for y in ast.walk(b)):
                        skips.append(x)
            bad = [x for x in skips if not (text(x.test).endswith(f'.is_restriction({new})') and not text(x.test).startswith(new))]
            ok = not bad
            ctx.ob(rule, 'XsdAttributeGroup._parse: the wildcard of a further attribute group is intersected with the accumulated one on every path', f.loc(bad[0]) if bad else f.loc(blk[i]), ok,
                   '' if ok else f'`if {text(bad[0].test)[:60]}: continue` skips the intersection: when the new wildcard is the narrower one the wider accumulated set is kept - '
                   'g1(##any) + g2(##targetNamespace) admits attributes that g2 forbids', key='_parse|group-wildcards-intersected')
    ctx.floor(rule, 'intersections with the wildcard of a referenced attribute group', n, 1)
    ctx.explain('C16.j: in the block of XsdAttributeGroup._parse that calls `<acc>.intersection(base_attr)` no earlier statement leaves the iteration, except under '
                '`<acc>.is_restriction(base_attr)`.')


def rule_k(ctx: Ctx) -> None:
    """Two `##other` constraints are equal as *sets* only when they exclude the same target namespace: the token set {'##other'} is the same for every schema
    document.  The three operations that shortcut on `self.namespace == other.namespace` therefore look at the target namespaces on that branch (is_restriction does:
    `'##other' not in self.namespace or self.target_namespace == other.target_namespace`) - sibling agreement."""
    rule = 'C16.k'
    c = ctx.idx.cls('xmlschema.validators.wildcards.XsdWildcard')
    n = 0
    for meth in ('is_restriction', 'union', 'intersection'):
        f = c.methods.get(meth)
        if f is None:
            raise AnalysisError(f'missing anchor XsdWildcard.{meth}')
        ctx.analysed(f.qualname)
        from .common import bool_atoms
        for x in ast.walk(f.node):
            if not isinstance(x, ast.If):
                continue
            if 'self.namespace == other.namespace' not in bool_atoms(x.test):
                continue
            n += 1
            seg = text(x.test) + ' ' + ' '.join(text(b) for b in x.body)
            ok = 'target_namespace' in seg
            ctx.ob(rule, f'XsdWildcard.{meth}: the shortcut on equal namespace tokens compares the target namespaces of two ##other constraints', f.loc(x), ok,
                   '' if ok else 'the branch treats {##other} of one schema document and {##other} of another as the same set: ' +
                   ('attribute groups t:h(##other) and b:g(##other) combined admit a urn:b attribute that b:g forbids' if meth == 'intersection' else
                    'an extension in urn:t of a urn:b type with ##other, adding its own ##other, refuses a urn:t attribute that the base admits'),
                   key=f'XsdWildcard.{meth}|other-vs-other-targets')
    ctx.floor(rule, 'shortcuts on equal namespace tokens', n, 3)
    ctx.explain('C16.k: in is_restriction / union / intersection the `if` whose test contains `self.namespace == other.namespace` mentions `target_namespace` in its test or body.')


def other_excludes_both(ctx: Ctx, rule: str) -> None:
    """`##other` excludes two namespaces: the target namespace of its schema *and* the absent one.  Where intersection() narrows a namespace list by a ##other
    operand (either way round) both are taken out of the list."""
    f = ctx.idx.method('xmlschema.validators.wildcards.XsdWildcard', 'intersection')
    ctx.analysed(f.qualname)
    n = 0
    chains = [x for x in ast.walk(f.node) if isinstance(x, ast.If)]
    for x in chains:
        t = text(x.test)
        branches = []
        if t == "'##other' in self.namespace":
            branches.append(('self', x.body))
        if t == "'##other' not in other.namespace" and x.orelse and not (len(x.orelse) == 1 and isinstance(x.orelse[0], ast.If)):
            branches.append(('other', x.orelse))
        for who, body in branches:
            seg = ' '.join(text(b_) for b_ in body)
            if 'not_namespace' in seg:
                continue        # the notNamespace form: handled as a set of exclusions (C16.e)
            n += 1
            ok = f'{who}.target_namespace' in seg and "''" in seg
            ctx.ob(rule, f'XsdWildcard.intersection: narrowing a list by the ##other operand `{who}` removes its target namespace and the absent namespace', f.loc(x), ok,
                   '' if ok else f'the branch `{seg[:70]}` does not remove both: attributeGroup(##other) combined with anyAttribute "##local urn:f urn:t" keeps the absent namespace - an '
                   'undeclared unqualified attribute is accepted', key=f'XsdWildcard.intersection|other-excludes-both|{who}')
    ctx.floor(rule, '##other-by-list branches of intersection', n, 2)
    ctx.explain(f'{rule}: the two branches of XsdWildcard.intersection that narrow a namespace list by a ##other operand mention that operand\'s target_namespace and the empty string.')


def rule_l(ctx: Ctx) -> None:
    other_excludes_both(ctx, 'C16.l')


RULES = [rule_a, rule_b, rule_c, rule_d, rule_e, rule_f, rule_g, rule_h, rule_i, rule_j, rule_k, rule_l]
