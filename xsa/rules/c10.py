"""C10 — no residue between calls (structural clauses).

C10.a effect inventory over the validation-time call graph must equal the reviewed table
C10.b the widening writes are monotone
C10.c the scratch context is reset before every use
C10.d a fresh context per call, never stored on self
"""
from __future__ import annotations

import ast

from ..astutil import calls, get_arg, text, walk_no_nested
from ..effects import Effects, Write
from ..index import AnalysisError
from ..report import Ctx
from ..typed import CallGraph
from .common import call_nodes, cfg_of, guards

V = 'xmlschema.validators'
SCHEMA = f'{V}.schemas.XMLSchemaBase'
MIXIN = f'{V}.validation.ValidationMixin'

# edges that leave validation time (reason each)
CUT = {
    f'{V}.builders.StagedMap._build_global': 'on-demand build of a staged global: infeasible after build()',
    f'{V}.xsd_globals.XsdGlobals.build': 'building the maps is not validation',
    'xmlschema.loaders.SchemaLoader.load_namespace': 'dynamic loading of an unknown namespace (documented as changing the schema)',
    f'{V}.elements.XsdElement.check_dynamic_context': 'dynamic schema loading from location hints (use_location_hints=True), documented as changing the schema',
    f'{V}.elements.Xsd11Element.check_dynamic_context': 'same, XSD 1.1 override',
}

# reviewed table of writes to persistent state at validation time: (function, owner attribute) -> (class, reason)
TABLE = {
    (f'{V}.elements.XsdElement.raw_decode', 'xsi_types'):
        ('monotone', 'records the xsi:type substitutions seen (set.add under `not in`), used to widen identity selectors'),
    (f'{V}.identities.XsdIdentity.update_elements', 'elements'):
        ('monotone', 'adds field selectors for a newly seen element/type pair (guarded `not in self.elements`)'),
    (f'{V}.identities.XsdIdentity.update_elements', 'ref'):
        ('monotone', 'same set.add reached through `e = e.ref`'),
    (f'{V}.elements.XsdElement.get_binding', 'binding'):
        ('memo', 'lazy creation of the data binding class: one class object, created under _binding_lock with a re-check (C18.i)'),
    (f'{V}.elements.XsdElement._set_type', '*'):
        ('fresh-receiver', 'only called on the fresh copy made by collect_key_fields (receiver checked at every call site)'),
    (f'{V}.builders.XsdBuilders.create_any_type', 'maps'):
        ('fresh-object', 'components of the xs:anyType object being created by the cached XsdGlobals.any_type property'),
    ('xmlschema.xpath.selectors.ElementSelector.cached_selector', '[]'):
        ('memo', 'module-level cache of compiled path selectors keyed by (path, namespaces); pure function of the key'),
    ('xmlschema.xpath.selectors.ElementSelector.cached_selector', ''):
        ('memo', 'bounded cache: cleared when it exceeds 100 entries'),
}
MEMO_DECORATORS = ('schema_cache', 'schema_lru_cache', 'cached_property', 'schema_cached_property', 'cache', 'lru_cache')


def graph(ctx: Ctx):
    if '_c10' in ctx.__dict__:
        return ctx.__dict__['_c10']
    idx = ctx.idx
    eff = Effects(idx, ctx.typed)
    cut = set(CUT)
    cut |= {q for q, f in idx.functions.items() if f.name == 'parse_error'}
    # object construction: __init__/__new__ of persistent classes initialise a fresh object
    ctor_cut = {q for q, f in idx.functions.items() if f.name in ('__init__', '__new__') and f.cls is not None and f.cls.qualname in eff.persistent}
    cg = CallGraph(idx, ctx.typed, cut=cut | ctor_cut)
    roots = [q for q, f in idx.functions.items() if f.cls is not None and f.name in ('raw_decode', 'raw_encode')]
    for c in (SCHEMA, MIXIN):
        for m in ('iter_errors', 'iter_decode', 'iter_encode', 'decode', 'encode', 'validate', 'is_valid', 'raw_decoder', 'to_objects', 'to_dict'):
            f = idx.cls(c).find_method(m)
            if f is not None:
                roots.append(f.qualname)
    prev = cg.reachable(roots)
    ctx.__dict__['_c10'] = (eff, cg, prev, roots, len(ctor_cut))
    return ctx.__dict__['_c10']


def inventory(ctx: Ctx) -> list[Write]:
    if '_c10w' in ctx.__dict__:
        return ctx.__dict__['_c10w']
    eff, cg, prev, roots, _ = graph(ctx)
    cache: dict = {}
    ws: list[Write] = []
    for q in prev:
        f = ctx.idx.functions[q]
        if isinstance(f.node, ast.Lambda):
            continue
        ws.extend(eff.writes(f, cache))
    ctx.__dict__['_c10w'] = ws
    return ws


def rule_a(ctx: Ctx) -> None:
    rule = 'C10.a'
    idx = ctx.idx
    eff, cg, prev, roots, n_ctor = graph(ctx)
    ws = inventory(ctx)
    ctx.counters[f'{rule}:validation-time functions analysed'] = len(prev)
    ctx.counters[f'{rule}:entry points'] = len(roots)
    ctx.counters[f'{rule}:constructor edges cut (fresh objects)'] = n_ctor
    ctx.counters[f'{rule}:call sites resolved / all'] = cg.stats['resolved'] * 100000 + cg.stats['calls']
    ctx.counters[f'{rule}:imprecise (class-hierarchy) resolutions'] = cg.stats['imprecise']
    ctx.counters[f'{rule}:persistent writes found'] = len(ws)
    ctx.floor(rule, 'functions in the validation-time call graph', len(prev), 300)
    for q in prev:
        ctx.analysed(q)
    seen_rows = set()
    for w in ws:
        f = w.func
        short = f.qualname.split('.', 1)[-1]
        # pure-memo mechanisms are accepted as a class
        if any(d.split('.')[-1] in MEMO_DECORATORS for d in f.decorators) or f.qualname.startswith('xmlschema.caching.'):
            ctx.ob(rule, f'{short}: `{w.target[:40]}` inside a memo mechanism', f.loc(w.node), True, 'memo', key=f'{w.key}|memo', nontrivial=False)
            continue
        row = TABLE.get((f.qualname, w.attr)) or TABLE.get((f.qualname, '*'))
        path = cg.path_to(prev, f.qualname)
        via = ' -> '.join(x.split('.')[-2] + '.' + x.split('.')[-1] for x in path[-4:])
        if row is None:
            ctx.ob(rule, f'{short}: write to persistent state `{w.target[:50]}` ({w.kind} on {w.owner_class.split(".")[-1]}.{w.attr}) is in the reviewed table',
                   f.loc(w.node), False, f'state that outlives the call is modified during validation (reached via {via}): a later call on the '
                   f'same schema object can observe it', key=f'{f.qualname}|{w.kind}|{w.attr}|{w.target[:40]}')
            continue
        seen_rows.add((f.qualname, w.attr if (f.qualname, w.attr) in TABLE else '*'))
        ctx.ob(rule, f'{short}: `{w.target[:40]}` — reviewed: {row[0]}', f.loc(w.node), True, row[1], key=f'{f.qualname}|{w.kind}|{w.attr}|{w.target[:40]}')
    for k, row in TABLE.items():
        if k not in seen_rows:
            ctx.note(f'{rule}: reviewed table row {k} matched no write on this tree')
    # fresh-receiver rows: every call site in the analysed set passes a fresh local
    for (q, attr), row in TABLE.items():
        if row[0] != 'fresh-receiver':
            continue
        name = q.split('.')[-1]
        n_sites = 0
        for caller_q in prev:
            caller = idx.functions[caller_q]
            if q not in cg.edges.get(caller_q, ()):
                continue
            g = cfg_of(ctx, caller)
            rd = g.reaching_defs()
            for n, c in call_nodes(g, lambda c, name=name: isinstance(c.func, ast.Attribute) and c.func.attr == name):
                n_sites += 1
                recv = c.func.value
                ok = False
                if isinstance(recv, ast.Name):
                    defs = rd[n].get(recv.id, set())
                    ok = bool(defs) and all(eff._fresh_def(caller, d, recv.id) for d in defs)
                ctx.ob(rule, f'{caller_q.split(".", 1)[-1]}: `{text(c)[:50]}` is applied to a freshly created object', caller.loc(c), ok,
                       '' if ok else 'the receiver may be a shared schema component: its type/content would be changed for every later call',
                       key=f'{caller_q}|fresh-receiver|{name}')
        ctx.floor(rule, f'call sites of {name}', n_sites, 1)
    ctx.trusted.append('mypy type map (L1) for receiver classes; class lists PERSISTENT_ROOTS / PERCALL_ROOTS in xsa/effects.py')
    ctx.explain('C10.a: over the validation-time call graph every attribute/subscript store, del, augmented assignment and '
                'mutating call whose receiver chain touches a persistent object (typed through mypy) must be a row of the reviewed '
                'table; writes on freshly created locals and per-call classes are excluded; cut edges are listed with reasons.')
    for q, why in CUT.items():
        ctx.note(f'{rule}: cut edge {q.split(".", 1)[-1]} — {why}')


def rule_b(ctx: Ctx) -> None:
    rule = 'C10.b'
    ws = inventory(ctx)
    n = 0
    for w in ws:
        row = TABLE.get((w.func.qualname, w.attr))
        if row is None or row[0] != 'monotone':
            continue
        n += 1
        f = w.func
        ok = False
        det = ''
        if w.kind == 'mutcall':
            ok = w.target.endswith('.add')
            det = '' if ok else f'`{w.target}` is not a pure addition'
        elif w.kind == 'setitem':
            g = cfg_of(ctx, f)
            ns = g.nodes_of(w.node)
            gs = guards(ctx, f, ns[0]) if ns else set()
            t = w.node.targets[0]
            keytxt = text(t.slice)
            cont = text(t.value)
            ok = any((x == f'{keytxt} not in {cont}' and lab == 'T') or (x == f'{keytxt} in {cont}' and lab == 'F') for x, lab in gs)
            det = '' if ok else f'`{text(t)} = …` is not guarded by `{keytxt} not in {cont}`: an existing entry could be overwritten'
        else:
            det = f'{w.kind} on a widening set'
        ctx.ob(rule, f'{f.qualname.split(".", 1)[-1]}: `{w.target[:40]}` only adds', f.loc(w.node), ok, det, key=f'{f.qualname}|monotone|{w.attr}|{w.kind}|{w.target[:30]}')
    ctx.floor(rule, 'monotone widening writes', n, 4)
    # nothing in the package removes from these sets outside build/parse code
    for attr in ('xsi_types', 'selected_by'):
        for f in ctx.idx.iter_functions('validators'):
            if isinstance(f.node, ast.Lambda) or f.name in ('__init__', '_parse', 'build', 'clear', '__copy__', '__setstate__'):
                continue
            for c in calls(f.node):
                if isinstance(c.func, ast.Attribute) and c.func.attr in ('clear', 'remove', 'discard', 'pop', 'difference_update') \
                        and text(c.func.value).endswith('.' + attr):
                    ctx.ob(rule, f'{f.qualname.split(".", 1)[-1]}: `{text(c)[:50]}` shrinks the widening set {attr}', f.loc(c), False, '',
                           key=f'{f.qualname}|shrink|{attr}')
    ctx.explain('C10.b: the table rows classified monotone only add (set.add, or a subscript store guarded by `key not in container`).')


def rule_c(ctx: Ctx) -> None:
    rule = 'C10.c'
    n = 0
    for f in ctx.idx.iter_functions('validators'):
        if isinstance(f.node, ast.Lambda):
            continue
        src = f.module.segment(f.node)
        if 'validation_context' not in src or f.name == 'validation_context':
            continue
        g = cfg_of(ctx, f)
        clears = [m for m, c in call_nodes(g, lambda c: text(c.func).endswith('.validation_context.clear'))]
        uses = []
        for m in g.stmt_nodes():
            for e in m.exprs:
                for x in ast.walk(e):
                    if isinstance(x, ast.Attribute) and x.attr == 'validation_context' and isinstance(x.ctx, ast.Load):
                        # as an argument (decode context) or a read of .errors
                        uses.append((m, x))
        use_nodes = []
        for m, x in uses:
            if m in clears:
                continue
            if m not in use_nodes:
                use_nodes.append(m)
        if not use_nodes:
            continue
        dom = g.dominators(kinds='nTF')
        for m in use_nodes:
            n += 1
            is_read = any('.validation_context.errors' in text(e) for e in m.exprs)
            cl = [c for c in clears if c in dom[m]]
            ok = bool(cl)
            if ok and not is_read:
                # no other use of the scratch context between the dominating clear and this use
                between = [u for u in use_nodes if u is not m and u in dom[m] and any(c in dom[u] for c in cl) and
                           not any('.validation_context.errors' in text(e) for e in u.exprs)]
                ok = not between
            ctx.ob(rule, f'{f.qualname.split(".", 2)[-1]}: the shared scratch context is cleared before `{text(m.ast).splitlines()[0][:50]}`',
                   f.loc(m.ast), ok, '' if ok else 'errors/ids left by a previous use of the scratch context would leak into this one',
                   key=f'{f.qualname}|scratch|{text(m.ast).splitlines()[0][:40]}')
    ctx.floor(rule, 'uses of the schema scratch context', n, 8)
    cl = ctx.idx.func(f'{V}.validation.ValidationContext.clear')
    body = text(cl.node)
    need = ('self.errors.clear()', 'self.id_map.clear()', 'self.identities.clear()', 'self.inherited.clear()', 'self.level = 0', 'self.elem = None',
            'self.attribute = None', 'self.id_list = None', 'self.patterns = None')
    missing = [x for x in need if x not in body]
    ctx.ob(rule, 'ValidationContext.clear() resets every piece of per-run status', cl.loc(), not missing, '' if not missing else f'not reset: {missing}',
           key='ValidationContext.clear|complete')
    # every status slot set in __init__ after the arguments is reset by clear()
    init = ctx.idx.func(f'{V}.validation.ValidationContext.__init__')
    status = []
    for s in walk_no_nested(init.node):
        if isinstance(s, (ast.Assign, ast.AnnAssign)):
            t = s.targets[0] if isinstance(s, ast.Assign) else s.target
            v = s.value
            if text(t).startswith('self.') and v is not None and not any(isinstance(x, ast.Name) and x.id in init.params for x in ast.walk(v)):
                status.append(text(t)[5:])
    status = [a for a in status if a not in ('validation_only',)]
    miss = [a for a in status if f'self.{a}' not in body]
    ctx.ob(rule, f'every status attribute initialised by ValidationContext.__init__ independently of its arguments ({len(status)}) is reset by clear()',
           cl.loc(), not miss and len(status) >= 6, '' if not miss else f'not reset: {miss}', key='ValidationContext.clear|status-slots')
    ctx.explain('C10.c: each use of <schema>.validation_context as a decode context or a read of its .errors is dominated by '
                '<schema>.validation_context.clear() in the same function; clear() resets every status slot.')


def rule_d(ctx: Ctx) -> None:
    rule = 'C10.d'
    idx = ctx.idx
    ctors = ('ValidationContext', 'DecodeContext', 'EncodeContext')
    n = 0
    for c in (SCHEMA, MIXIN):
        for m in ('iter_errors', 'iter_decode', 'iter_encode', 'decode', 'encode', 'raw_decoder'):
            f = idx.cls(c).methods.get(m)
            if f is None:
                continue
            made = [s for s in walk_no_nested(f.node) if isinstance(s, ast.Assign) and isinstance(s.value, ast.Call) and text(s.value.func) in ctors]
            if not made:
                continue
            n += 1
            ok = all(isinstance(s.targets[0], ast.Name) for s in made)
            ctx.ob(rule, f'{c.split(".")[-1]}.{m}: the context is a new local object', f.loc(made[0]), ok, '', key=f'{c}.{m}|fresh-context')
            stored = [s for s in walk_no_nested(f.node) if isinstance(s, ast.Assign) and text(s.targets[0]).startswith('self.') and
                      isinstance(s.value, ast.Name) and s.value.id in {text(x.targets[0]) for x in made}]
            ctx.ob(rule, f'{c.split(".")[-1]}.{m}: the context is never stored on the schema/component', f.loc(), not stored, '', key=f'{c}.{m}|not-stored')
            # collected errors do not survive on a shared list: `errors=` default is a new list per context
    ctx.floor(rule, 'entry points constructing a context', n, 6)
    init = idx.func(f'{V}.validation.ValidationContext.__init__')
    ok = 'self.errors = errors if errors is not None else []' in text(init.node)
    ctx.ob(rule, 'a context without an explicit collector gets a new error list', init.loc(), ok, '', key='ValidationContext|errors-default')
    a = init.node.args
    mutable_defaults = [text(d) for d in list(a.defaults) + [d for d in a.kw_defaults if d is not None] if isinstance(d, (ast.List, ast.Dict, ast.Set))]
    ctx.ob(rule, 'no mutable default argument on the context constructor', init.loc(), not mutable_defaults, '', key='ValidationContext|mutable-defaults')
    ctx.explain('C10.d: each public entry point constructs its validation context locally and never stores it on self.')


def rule_e(ctx: Ctx) -> None:
    """Soundness of persistent 'already seen' markers: work that is skipped on later calls because a marker was set must not have
    depended on per-call state when the marker was set (otherwise what the first call happened to have in scope decides what every
    later call gets)."""
    rule = 'C10.e'
    ws = inventory(ctx)
    writer_funcs = {w.func.qualname.split('.')[-1] for w in ws}
    n = 0
    for f in {w.func.qualname: w.func for w in ws}.values():
        g = cfg_of(ctx, f)
        for t in g.nodes:
            if t.kind != 'if':
                continue
            tt = t.ast.test
            if not (isinstance(tt, ast.Compare) and len(tt.ops) == 1 and isinstance(tt.ops[0], ast.NotIn) and text(tt.comparators[0]).startswith('self.')):
                continue
            marker = text(tt.comparators[0])
            keyv = text(tt.left)
            adds = [c for s_ in t.ast.body for c in calls(s_) if text(c.func) == f'{marker}.add' and c.args and text(c.args[0]) == keyv]
            if not adds:
                continue
            n += 1
            # per-call taint: locals bound from `context…` inside the branch
            tainted = {'context'}
            changed = True
            while changed:
                changed = False
                for s_ in t.ast.body:
                    for x in ast.walk(s_):
                        tgt = None
                        if isinstance(x, ast.For):
                            tgt, src = x.target, x.iter
                        elif isinstance(x, ast.Assign) and len(x.targets) == 1:
                            tgt, src = x.targets[0], x.value
                        if tgt is not None and ({y.id for y in ast.walk(src) if isinstance(y, ast.Name)} & tainted):
                            for y in ast.walk(tgt):
                                if isinstance(y, ast.Name) and y.id not in tainted:
                                    tainted.add(y.id)
                                    changed = True
            body_nodes = set()
            for s_ in t.ast.body:
                for sub in ast.walk(s_):
                    body_nodes.update(g.nodes_of(sub))
            bad = []
            for m, c in call_nodes(g, lambda c: isinstance(c.func, ast.Attribute) and c.func.attr in writer_funcs):
                if m not in body_nodes:
                    continue
                extra = guards(ctx, f, m) - guards(ctx, f, t) - {(text(tt), 'T')}
                dep = [(x, lab) for x, lab in extra if any(tn in x.replace('(', ' ').replace('.', ' ').split() for tn in tainted)]
                if dep:
                    bad.append((c, dep))
            ok = not bad
            ctx.ob(rule, f'{f.qualname.split(".", 1)[-1]}: the persistent marker `{marker}` is only set together with work that does not depend on per-call state',
                   f.loc(t.ast), ok, '' if ok else f'`{text(bad[0][0])[:60]}` runs only under {sorted(bad[0][1])} (per-call state), but `{marker}.add({keyv})` '
                   f'marks the key as done for every later call: what the first call had in scope decides what later calls get',
                   key=f'{f.qualname}|marker|{marker}')
    ctx.floor(rule, 'persistent seen-markers at validation time', n, 1)
    ctx.explain('C10.e: for each `k not in self.<set>` … `self.<set>.add(k)` marker on persistent state, the persistent writes in the '
                'guarded branch must not be control dependent on per-call state (taint from `context`).')


def rule_f(ctx: Ctx) -> None:
    """A validation run holds on to schema components (the declared type, the element being decoded).  Loading a namespace on
    demand in the middle of a run must therefore leave the components that are already built in place."""
    rule = 'C10.f'
    idx = ctx.idx
    eff, cg, prev, roots, _ = graph(ctx)
    sites = []
    for q in prev:
        f = idx.functions[q]
        if isinstance(f.node, ast.Lambda):
            continue
        for c in calls(f.node):
            if isinstance(c.func, ast.Attribute) and c.func.attr == 'load_namespace':
                b = get_arg(c, 1, 'build')
                if b is None or not (isinstance(b, ast.Constant) and b.value is False):
                    sites.append((f, c))
    ctx.floor(rule, 'validation-time call sites of load_namespace', len(sites), 2)
    ln = idx.func('xmlschema.loaders.SchemaLoader.load_namespace')
    builds = [c for c in calls(ln.node) if text(c.func) == 'self.maps.build']
    bd = idx.func(f'{V}.xsd_globals.XsdGlobals.build')
    g = cfg_of(ctx, bd)
    clears = [n for n, c in call_nodes(g, lambda c: text(c.func) in ('self.clear', 'self.global_maps.clear'))]
    # is the clear conditional on "nothing is built yet / nothing in use"?
    guarded = bool(clears) and all(any(lab == 'T' and ('not self.global_maps' in t or 'empty' in t or 'in_use' in t) for t, lab in guards(ctx, bd, n)) for n in clears)
    ok = not sites or not builds or not clears or guarded
    det = ''
    if not ok:
        where = ', '.join(sorted({f'{f.qualname.split(".")[-2]}.{f.name}' for f, c in sites}))
        det = (f'{where} call loader.load_namespace(namespace) for a namespace met in the instance; with build=True it ends in XsdGlobals.build(), which '
               'clear()s every global map and builds all components anew: the run in flight keeps comparing the old type objects (is_derived by identity) '
               'with the new ones - a valid document is reported invalid on the first call and valid on the next one')
    ctx.ob(rule, 'loading a namespace during validation leaves the components already in use in place', bd.loc(clears[0].ast) if clears else bd.loc(), ok, det,
           key='XsdGlobals.build|clear-while-in-use')
    ctx.explain('C10.f: call sites of load_namespace reachable at validation time (typed call graph) -> SchemaLoader.load_namespace -> '
                'XsdGlobals.build -> unconditional clear() of the global maps.')


def rule_g(ctx: Ctx) -> None:
    from .wild import load_then_lookup
    load_then_lookup(ctx, 'C10.g')


def rule_h(ctx: Ctx) -> None:
    """A failed or aborted validation leaves no residue: loading a schema on demand (xsi:schemaLocation hints, wildcards) runs inside
    XsdGlobals.protect_status(), whose handler puts the maps back.  The build of a hinted schema can fail with any error of the library - a
    parse error, but also a model error (UPA), a value or namespace error - so the restoring handler catches the root of the hierarchy."""
    rule = 'C10.h'
    idx = ctx.idx
    ps = idx.func(f'{V}.xsd_globals.XsdGlobals.protect_status')
    ctx.analysed(ps.qualname)
    root = idx.cls('xmlschema.exceptions.XMLSchemaException')
    tries = [t for t in ast.walk(ps.node) if isinstance(t, ast.Try) and any(isinstance(x, (ast.Yield, ast.YieldFrom)) for b in t.body for x in ast.walk(b))]
    ctx.floor(rule, 'try blocks around the yield of protect_status', len(tries), 1)
    for t in tries:
        restoring = [h for h in t.handlers if any(isinstance(c.func, ast.Attribute) and c.func.attr in ('update', 'clear') for c in calls(h))]
        ctx.floor(rule, 'restoring handlers of protect_status', len(restoring), 1)
        caught = []
        for h in restoring:
            types = h.type.elts if isinstance(h.type, ast.Tuple) else [h.type] if h.type is not None else []
            for ty in types:
                caught.append(text(ty))
        ok = not caught and bool(restoring)       # bare except
        for nm_ in caught:
            if nm_ in ('Exception', 'BaseException'):
                ok = True
                continue
            q = idx.resolve_name(ps.module, nm_)
            k = idx.classes.get(q) if q else None
            if k is not None and root.is_subclass_of(k):
                ok = True
        ctx.ob(rule, 'XsdGlobals.protect_status: the restoring handler catches every exception of the library hierarchy', ps.loc(restoring[0]) if restoring else ps.loc(), ok,
               f'catches {caught}' if ok else f'catches only {caught}: a hinted schema whose build fails with another library error (XMLSchemaModelError for a UPA violation, '
               'XMLSchemaValueError, XMLSchemaNamespaceError) escapes without the rollback - its namespace and globals stay registered in maps that are left unbuilt, '
               'and later documents are judged by them', key='protect_status|handler-type')
    ctx.explain('C10.h: the `except` clause of protect_status that restores the maps names XMLSchemaException, one of its ancestors, or nothing (class table of the index).')


RULES = [rule_a, rule_b, rule_c, rule_d, rule_e, rule_f, rule_g, rule_h]
