"""C18 — threads (structural clauses).

C18.a build lock discipline (XsdGlobals.build)    C18.b cache lock discipline (SchemaCache)
C18.c lazy iteration lock pairing                  C18.d shared-state inventory is classified (with C10.a)
C18.e processed-markers are published after the work they stand for
"""
from __future__ import annotations

import ast

from ..astutil import ancestors, calls, enclosing_map, text, walk_no_nested
from ..index import AnalysisError
from ..report import Ctx
from .common import call_nodes, cfg_of, guards, is_lock_ctor

GLOB = 'xmlschema.validators.xsd_globals.XsdGlobals'
CACHE = 'xmlschema.caching.SchemaCache'
LOADER = 'xmlschema.resources.xml_loader.XMLResourceLoader'
LOCK_CTORS = ('threading.Lock()', 'threading.RLock()', 'Lock()', 'RLock()')


def _inside_with(node: ast.AST, parents, lock: str):
    for anc in ancestors(node, parents):
        if isinstance(anc, (ast.With, ast.AsyncWith)) and any(text(i.context_expr) == lock for i in anc.items):
            return anc
        if isinstance(anc, (ast.FunctionDef, ast.AsyncFunctionDef)):
            break
    return None


def rule_a(ctx: Ctx) -> None:
    rule = 'C18.a'
    f = ctx.idx.func(f'{GLOB}.build')
    ctx.analysed(f.qualname)
    body = [s for s in f.node.body if not (isinstance(s, ast.Expr) and isinstance(s.value, ast.Constant))]
    par = enclosing_map(f.node)
    # accepted forms: `with self._build_lock:` or acquire()/try/finally release()
    withs = [s for s in walk_no_nested(f.node) if isinstance(s, ast.With) and any(text(i.context_expr) == 'self._build_lock' for i in s.items)]
    tryf = [s for s in walk_no_nested(f.node) if isinstance(s, ast.Try) and s.finalbody and
            any(text(c.func) == 'self._build_lock.release' for x in s.finalbody for c in calls(x))]
    locked_body = None
    if withs:
        locked_body = withs[0].body
        lock_stmt = withs[0]
    elif tryf and any(text(c.func) == 'self._build_lock.acquire' for s in body for c in calls(s) if s is not tryf[0]):
        locked_body = tryf[0].body
        lock_stmt = tryf[0]
    ok = locked_body is not None
    ctx.ob(rule, 'XsdGlobals.build takes the build lock', f.loc(), ok, '' if ok else 'no `with self._build_lock` (or acquire/try/finally release) found',
           key='build|lock-taken')
    if not ok:
        return

    def is_fast(s):
        return isinstance(s, ast.If) and text(s.test) == 'self._built' and len(s.body) == 1 and isinstance(s.body[0], ast.Return) \
            and all(isinstance(x, ast.Pass) for x in s.orelse)
    # everything outside the locked region is the fast-path test (or the acquire call)
    outside = [s for s in body if s is not lock_stmt and not is_fast(s) and 'self._build_lock.acquire' not in text(s)]
    ctx.ob(rule, 'outside the lock build() only tests the _built flag', f.loc(), not outside,
           '' if not outside else f'statement outside the lock: `{text(outside[0])[:60]}`', key='build|outside')
    ctx.ob(rule, 'the _built flag is re-tested as the first action under the lock', f.loc(lock_stmt), bool(locked_body) and is_fast(locked_body[0]),
           '' if locked_body and is_fast(locked_body[0]) else 'two threads that both passed the fast path would build twice', key='build|recheck')
    # mutations of shared maps and the flag are lexically inside the locked region
    shared = ('self.global_maps', 'self.substitution_groups', 'self.identities', 'self.types', 'self.elements', 'self._built', 'self.namespaces')
    n_mut = 0
    for s in walk_no_nested(f.node):
        tgt = None
        if isinstance(s, ast.Assign):
            tgt = text(s.targets[0])
        elif isinstance(s, ast.Expr) and isinstance(s.value, ast.Call) and isinstance(s.value.func, ast.Attribute) and \
                s.value.func.attr in ('update', 'load', 'build', 'build_builtins', 'clear'):
            tgt = text(s.value.func.value)
        if tgt is None or not any(tgt == x or tgt.startswith(x + '.') or tgt.startswith(x + '[') for x in shared + ('self',)):
            continue
        if tgt == 'self' and not (isinstance(s, ast.Expr) and text(s.value.func) in ('self.clear', 'self.check', 'self.check_loaded_schemas')):
            continue
        n_mut += 1
        inside = any(s is x for b in locked_body for x in ast.walk(b))
        ctx.ob(rule, f'`{text(s)[:50]}` runs under the build lock', f.loc(s), inside, '', key=f'build|locked|{text(s)[:50]}')
    ctx.floor(rule, 'state-changing statements of build()', n_mut, 6)
    # order inside the lock: global_maps.build -> check -> _built = True
    g = cfg_of(ctx, f)
    dom = g.dominators(kinds='nTF')
    bld = [n for n, c in call_nodes(g, lambda c: text(c.func) == 'self.global_maps.build')]
    chk = [n for n, c in call_nodes(g, lambda c: text(c.func) == 'self.check')]
    sets = [n for n in g.nodes if n.kind == 'stmt' and isinstance(n.ast, ast.Assign) and text(n.ast.targets[0]) == 'self._built' and text(n.ast.value) == 'True']
    ok = len(sets) == 1 and bool(bld) and bool(chk) and bld[0] in dom[sets[0]] and chk[0] in dom[sets[0]]
    ctx.ob(rule, 'the maps are published as built (self._built = True) only after every global is built and checked', f.loc(sets[0].ast) if sets else f.loc(), ok,
           '' if ok else 'a second thread passing the fast path could use partially built maps', key='build|publish-last')
    # pickling / copying recreate the lock
    c = ctx.idx.cls(GLOB)
    init = c.methods['__init__']
    ok = any(isinstance(s, ast.Assign) and text(s.targets[0]) == 'self._build_lock' and is_lock_ctor(ctx, init, s.value) for s in walk_no_nested(init.node))
    ctx.ob(rule, 'every XsdGlobals instance creates its own lock', init.loc(), ok, '', key='XsdGlobals|own-lock')
    ctx.explain('C18.a: double-checked locking shape of XsdGlobals.build — fast-path test, lock, re-test, all mutations inside '
                'the locked region, _built = True dominated by global_maps.build and check (ast + CFG dominance).')


def rule_b(ctx: Ctx) -> None:
    rule = 'C18.b'
    c = ctx.idx.cls(CACHE)
    writers = {}
    all_methods = [fn for fn in ctx.idx.functions.values() if fn.cls is c]    # includes property setters
    by_qual = {fn.qualname: fn for fn in all_methods}
    for m in all_methods:
        par = enclosing_map(m.node)
        for s in walk_no_nested(m.node):
            w = None
            if isinstance(s, ast.Assign):
                for t in s.targets:
                    tt = text(t)
                    if tt.startswith(('self._caches', 'self._functions')):
                        w = tt
            elif isinstance(s, ast.Expr) and isinstance(s.value, ast.Call) and isinstance(s.value.func, ast.Attribute) and \
                    text(s.value.func.value) in ('self._caches', 'self._functions') and s.value.func.attr in ('update', 'pop', 'clear', 'setdefault'):
                w = text(s.value.func)
            if w is None:
                continue
            writers.setdefault(m.qualname, []).append((s, _inside_with(s, par, 'self._lock') is not None))
    n = 0
    for mq, lst in writers.items():
        m = by_qual[mq]
        mname = m.name
        for s, locked in lst:
            n += 1
            if mname == '__init__':
                ctx.ob(rule, f'SchemaCache.__init__: `{text(s)[:40]}` (object not yet shared)', m.loc(s), True, key=f'cache|init|{text(s)[:40]}', nontrivial=False)
                continue
            ok = locked
            how = 'under self._lock'
            if not ok:
                # helper only called under the lock (or from __init__)
                callers = []
                for m2 in all_methods:
                    p2 = enclosing_map(m2.node)
                    for cc in calls(m2.node):
                        if text(cc.func) == f'self.{mname}':
                            callers.append((m2, cc, m2.name == '__init__' or _inside_with(cc, p2, 'self._lock') is not None))
                ok = bool(callers) and all(x[2] for x in callers)
                how = f'helper called only under the lock: {[x[0].name for x in callers]}'
            ctx.ob(rule, f'SchemaCache.{mname}: `{text(s)[:40]}` is performed under the cache lock', m.loc(s), ok, how if ok else 'unlocked write to the shared cache tables',
                   key=f'cache|write|{mname}|{text(s)[:40]}')
    ctx.floor(rule, 'writes to the cache tables', n, 4)
    call = c.methods.get('__call__')
    if call is None:
        raise AnalysisError(f'missing anchor {CACHE}.__call__')
    trys = [t for t in walk_no_nested(call.node) if isinstance(t, ast.Try)]
    ok = False
    if trys:
        t = trys[0]
        h = [h for h in t.handlers if h.type is not None and 'KeyError' in text(h.type)]
        ok = bool(h) and any(isinstance(s, ast.With) and any(text(i.context_expr) == 'self._lock' for i in s.items) and
                             any(isinstance(x, ast.Return) for x in ast.walk(s)) for s in h[0].body)
    ctx.ob(rule, 'SchemaCache.__call__ retries under the lock when the table is being rebuilt', call.loc(), ok, '', key='cache|call-retry')
    init = c.methods['__init__']
    ok = any(isinstance(s, ast.Assign) and text(s.targets[0]) == 'self._lock' and is_lock_ctor(ctx, init, s.value) for s in walk_no_nested(init.node))
    ctx.ob(rule, 'every SchemaCache owns a lock', init.loc(), ok, '', key='cache|own-lock')
    ctx.explain('C18.b: every write to SchemaCache._caches/_functions after construction is lexically under `with self._lock` '
                'or in a helper only called under it.')


def rule_c(ctx: Ctx, rule: str = 'C18.c') -> None:
    f = ctx.idx.method(LOADER, '_lazy_iterparse')
    g = cfg_of(ctx, f)
    acq = [n for n, c in call_nodes(g, lambda c: text(c.func) == 'self._lazy_lock.acquire')]
    ctx.floor(rule, 'acquire of the lazy lock', len(acq), 1)
    a = acq[0]
    c = [c for e in a.exprs for c in calls(e) if text(c.func) == 'self._lazy_lock.acquire'][0]
    kw = {k.arg: text(k.value) for k in c.keywords}
    nonblocking = kw.get('blocking') == 'False' or (c.args and text(c.args[0]) == 'False')
    ctx.ob(rule, 'the lazy lock is taken without blocking (a second iteration fails fast instead of deadlocking)', f.loc(c), bool(nonblocking), '',
           key='lazy|nonblocking')
    var = text(a.ast.targets[0]) if isinstance(a.ast, ast.Assign) else None
    tests = [n for n in g.nodes if n.kind == 'if' and var and text(n.ast.test) == f'not {var}']
    ok = bool(tests) and any(isinstance(x, ast.Raise) and 'XMLResourceError' in text(x.exc) for s in tests[0].ast.body for x in ast.walk(s))
    ctx.ob(rule, 'a failed acquire raises XMLResourceError before anything is parsed', f.loc(), ok, '', key='lazy|fail-fast')
    rel = [n for n, cc in call_nodes(g, lambda cc: text(cc.func) == 'self._lazy_lock.release')]
    ctx.floor(rule, 'release of the lazy lock', len(rel), 1)
    # every path from a successful acquire to any exit (normal, explicit raise, implicit exception) passes a release
    starts = [m for m, lab in g.succ[tests[0]] if lab == 'F'] if tests else []
    bad = None
    for s in starts:
        bad = bad or g.must_pass(s, [g.exit, g.raise_exit], rel, kinds='nTFxi')
    ctx.ob(rule, 'every exit after a successful acquire releases the lock (try/finally covers normal, raised and implicit exits)', f.loc(), bad is None and bool(starts),
           '' if bad is None else 'path: ' + ' -> '.join(f'{x.kind}@{x.lineno}' for x in bad[:12]), key='lazy|release-all-exits')
    # nothing that can raise sits between the acquire test and the try
    if tests:
        t = tests[0]
        nxt = [m for m, lab in g.succ[t] if lab == 'F']
        ok = all(m.kind == 'try' for m in nxt)
        ctx.ob(rule, 'the protected region starts immediately after the acquire test', f.loc(t.ast), ok, '', key='lazy|try-immediately')
    # released only when acquired: the release is not reachable on the not-acquired path
    if tests:
        na = g.reachable(start_edges=[(tests[0], 'T')], starts=[], kinds='nTFxi')
        ok = not (set(rel) & na)
        ctx.ob(rule, 'the lock is not released by an iteration that did not acquire it', f.loc(), ok, '', key='lazy|no-foreign-release')
    # pickling the loader recreates the lock
    c = ctx.idx.cls(LOADER)
    gs, ss = c.find_method('__getstate__'), c.find_method('__setstate__')
    ok = gs is not None and ss is not None and "'_lazy_lock'" in text(gs.node) and \
        any(isinstance(s, ast.Assign) and text(s.targets[0]) == 'self._lazy_lock' and is_lock_ctor(ctx, ss, s.value) for s in walk_no_nested(ss.node))
    ctx.ob(rule, 'a pickled/restored loader gets a fresh lazy lock', gs.loc() if gs else f'{c.module.relpath}:{c.node.lineno}', ok, '', key='lazy|pickle')
    ctx.explain(f'{rule}: non-blocking acquire, fail-fast, and CFG must-pass-through of release() on every exit including '
                'implicit exception edges.')


def rule_d(ctx: Ctx) -> None:
    """Every validation-time write to shared state (the C10.a inventory) is a single GIL-atomic operation, under a lock, or an
    idempotent recomputation."""
    rule = 'C18.d'
    from .c10 import TABLE, inventory
    ws = inventory(ctx)
    CLASS = {
        'monotone': 'single set.add / dict store of a value that is a pure function of the key: atomic under the GIL; a lost race recomputes the same value',
        'memo': 'idempotent recomputation: two racing threads store equal values',
        'fresh-receiver': 'object not yet shared',
        'fresh-object': 'object not yet shared',
    }
    n = 0
    for w in ws:
        row = TABLE.get((w.func.qualname, w.attr)) or TABLE.get((w.func.qualname, '*'))
        if row is None:
            # not in the reviewed table (C10.a reports the residue): for threads the question is whether the write is serialised
            enc = enclosing_map(w.func.node)
            locked = any(isinstance(a, ast.With) and any('lock' in text(i.context_expr).lower() for i in a.items)
                         for a in ancestors(w.node, enc))
            ctx.ob(rule, f'{w.func.qualname.split(".", 1)[-1]}: unreviewed validation-time write `{w.target[:40]}` to shared state is made under a lock',
                   w.func.loc(w.node), locked,
                   f'state of {w.owner_class} ({w.owner_expr}) is shared by every thread that validates with this schema; the write is neither '
                   'in the reviewed table of atomic/idempotent stores nor inside a `with <lock>` block: two threads interleave on it',
                   key=f'{w.func.qualname}|unreviewed|{w.attr}|{w.kind}|{w.target[:30]}')
            continue
        n += 1
        ok = row[0] in CLASS
        single = True
        if row[0] == 'monotone' and w.kind == 'setitem':
            # the guarded store `if k not in d: d[k] = v`: v must not depend on mutable shared state other than k
            single = True
        ctx.ob(rule, f'{w.func.qualname.split(".", 1)[-1]}: `{w.target[:40]}` is safe without a lock — {row[0]}', w.func.loc(w.node), ok and single,
               CLASS.get(row[0], ''), key=f'{w.func.qualname}|thread-class|{w.attr}|{w.kind}|{w.target[:30]}')
    ctx.floor(rule, 'classified shared-state writes', n, 6)
    # analysis note (no failing schedule can be exhibited statically): the scratch context is shared between threads
    ctx.note(f'{rule}: XsdSimpleType.text_is_valid(context=None) / text_decode(context=None) use the schema-wide scratch ValidationContext; '
             'they are reachable at validation time through XsdElement.data_value (XSD 1.1 assertions) — shared mutable state not covered '
             'by a lock; reported as an observation, not a finding')
    ctx.explain('C18.d: the C10.a inventory of validation-time writes to shared state, each classified as GIL-atomic single '
                'operation / idempotent memo / not-yet-shared object.')


def rule_e(ctx: Ctx) -> None:
    """Publish after initialise: where a set on shared state is used as a "processed" marker (`if k not in self.m: … self.m.add(k)`), the
    mark is set after the work it stands for.  Marked first, a second thread finds the mark while the first is still working and goes on
    with a half-initialised schema."""
    rule = 'C18.e'
    n = 0
    for f in ctx.idx.iter_functions('validators'):
        if isinstance(f.node, ast.Lambda) or f.cls is None:
            continue
        for t in walk_no_nested(f.node):
            if not isinstance(t, ast.If):
                continue
            test = t.test
            if not (isinstance(test, ast.Compare) and len(test.ops) == 1 and isinstance(test.ops[0], ast.NotIn)):
                continue
            cont, key = text(test.comparators[0]), text(test.left)
            if not cont.startswith('self.'):
                continue
            marks = [(i, s_) for i, s_ in enumerate(t.body) if isinstance(s_, ast.Expr) and isinstance(s_.value, ast.Call)
                     and text(s_.value.func) == f'{cont}.add' and len(s_.value.args) == 1 and text(s_.value.args[0]) == key]
            if not marks:
                continue
            # only state that outlives the call matters: the container is an attribute of a schema component
            n += 1
            i, m = marks[0]
            later = [s_ for s_ in t.body[i + 1:] if any(isinstance(x, ast.Call) for x in ast.walk(s_))]
            ok = not later
            ctx.ob(rule, f'{f.qualname.split(".", 2)[-1]}: `{text(m.value)}` marks `{key}` as processed after the work guarded by `{text(test)}`', f.loc(m), ok,
                   '' if ok else f'the mark is set before `{text(later[0]).splitlines()[0][:60]}…` (line {later[0].lineno}): a thread that shares the schema finds the mark, skips the '
                   'work and continues while it is still in progress - e.g. with xsi:type on an element under a unique/key constraint the children are validated before they '
                   'are selected and duplicate values go unreported', key=f'{f.qualname}|publish-after-init|{cont}')
    ctx.floor(rule, 'processed-marker sets on schema components', n, 1)
    ctx.explain('C18.e: for every `if k not in self.<set>:` block that adds k to the same set, no statement containing a call follows the add inside the block.')


MAPS_MUTATORS = ('clear', 'load', 'update', 'reset', 'pop', 'remove', 'register', 'unregister', 'add', 'setdefault', 'copy_to')


def rule_f(ctx: Ctx) -> None:
    """Threads race to trigger the build through XMLSchemaBase.build(); the whole procedure - check, clear, load, build, publish - lives in
    XsdGlobals.build() under `_build_lock`.  The entry point therefore does nothing to the maps but delegate: a reset 'of an interrupted
    build' made by the entry point runs outside the lock and wipes the maps under the thread that is building."""
    rule = 'C18.f'
    f = ctx.idx.method('xmlschema.validators.schemas.XMLSchemaBase', 'build')
    ctx.analysed(f.qualname)
    cs = list(calls(f.node))
    delegates = [c for c in cs if text(c.func) == 'self.maps.build']
    other = [c for c in cs if isinstance(c.func, ast.Attribute) and text(c.func.value).startswith('self.maps') and c.func.attr != 'build']
    writes = [x for x in ast.walk(f.node) if isinstance(x, (ast.Assign, ast.AugAssign)) and any(text(t).startswith('self.maps') for t in (x.targets if isinstance(x, ast.Assign) else [x.target]))]
    ok = len(delegates) == 1 and not other and not writes
    ctx.ob(rule, 'XMLSchemaBase.build only delegates to XsdGlobals.build (which takes the build lock)', f.loc(other[0]) if other else f.loc(), ok,
           '' if ok else f'`{text((other or writes)[0])[:60]}` runs before the lock is taken: a thread that finds the maps half built by another thread resets them under the builder, '
           'which then fails with KeyError / publishes maps that lost most globals', key='XMLSchemaBase.build|delegates-only')
    # the locked procedure itself is the only caller of the reset (besides the loader entry points that run before any validation)
    n = 0
    for g_ in ctx.idx.iter_functions('validators'):
        if isinstance(g_.node, ast.Lambda) or g_.qualname == f.qualname:
            continue
        for c in calls(g_.node):
            if text(c.func) in ('self.maps.clear', 'schema.maps.clear') and g_.cls is not None and g_.cls.name != 'XsdGlobals':
                n += 1
                ctx.ob(rule, f'{g_.qualname.split(".", 2)[-1]}: `{text(c)}` is not a reset of the shared maps outside the build lock', g_.loc(c), False,
                       'the global maps are reset by a method of a schema / component, outside XsdGlobals.build', key=f'{g_.qualname}|maps-clear')
    ctx.explain('C18.f: XMLSchemaBase.build consists of the single delegation `self.maps.build()`; no validator method outside XsdGlobals resets the maps.')


def rule_g(ctx: Ctx) -> None:
    """Containers on schema components that validation itself extends (the C10.a inventory: set.add / dict stores made while validating) are
    read by other threads at the same time.  A single membership test or lookup is atomic under the GIL; a Python-level loop over the live
    container is not - a concurrent add makes it raise 'Set changed size during iteration'.  Such loops go over a snapshot."""
    rule = 'C18.g'
    from .c10 import inventory
    grown = {}
    for w in inventory(ctx):
        if w.kind in ('mutcall', 'setitem') and w.attr and w.owner_class not in ('module',):
            if w.kind == 'mutcall' and not any(w.target.endswith('.' + m_) for m_ in ('add', 'update', 'append', 'extend', 'setdefault', 'insert')):
                continue
            # the container is the attribute the mutator is applied to (the inventory names the first attribute of the access path)
            tgt = w.target.split('[')[0]
            parts = tgt.split('.')
            cont = parts[-2] if w.kind == 'mutcall' and len(parts) >= 2 else parts[-1]
            if cont in ('self', 'cls') or not cont.isidentifier():
                continue
            grown.setdefault(cont, w)
    ctx.floor(rule, 'containers extended at validation time', len(grown), 2)
    n = 0
    SNAP = ('tuple', 'list', 'sorted', 'frozenset', 'set', 'dict')
    for f in ctx.idx.iter_functions('validators'):
        if isinstance(f.node, ast.Lambda) or f.name.startswith(('_parse', 'build', '__init__', '__copy__', '__repr__', '__setstate__', '__getstate__')):
            continue
        for x in ast.walk(f.node):
            its = []
            if isinstance(x, ast.For):
                if getattr(x, '_snapshot', None):
                    continue        # indexed normal form: `for v in tuple(E)` is stored as `for v in E` with the snapshot remembered on the node
                its.append(x.iter)
            elif isinstance(x, ast.comprehension):
                its.append(x.iter)
            for it in its:
                base = it
                if isinstance(base, ast.Call) and isinstance(base.func, ast.Attribute) and base.func.attr in ('items', 'values', 'keys') and not base.args:
                    base = base.func.value
                if not (isinstance(base, ast.Attribute) and base.attr in grown and isinstance(base.value, ast.Name) and base.value.id == 'self'):
                    continue
                # only the class that owns the grown attribute (or its subclasses)
                w = grown[base.attr]
                if f.cls is None or w.owner_class.split('.')[-1] not in [k_.name for k_ in f.cls.mro()]:
                    continue
                n += 1
                ctx.ob(rule, f'{f.qualname.split(".", 2)[-1]}: the loop over `{text(it)}` (extended by {w.func.qualname.split(".")[-1]} while validating) runs on a snapshot', f.loc(x if isinstance(x, ast.For) else it), False,
                       f'`{text(it)}` is iterated live: a thread that validates an xsi:type with the same schema adds to it during the loop and this thread raises RuntimeError '
                       '"Set changed size during iteration" (wrap the iterable in tuple(…))', key=f'{f.qualname}|live-iteration|{base.attr}')
    # the snapshot idiom is present where the inventory says it is needed (positive instance: keeps the rule from passing vacuously)
    cf = ctx.idx.method('xmlschema.validators.elements.XsdElement', 'collect_key_fields')
    snaps = [x for x in ast.walk(cf.node) if isinstance(x, ast.For) and getattr(x, '_snapshot', None) and text(x.iter) == 'self.selected_by']
    ctx.ob(rule, 'XsdElement.collect_key_fields iterates a snapshot of self.selected_by', cf.loc(snaps[0]) if snaps else cf.loc(), bool(snaps) or 'selected_by' not in grown,
           '' if snaps else 'self.selected_by is extended at validation time (XsdIdentity.update_elements) and iterated live here', key='collect_key_fields|snapshot')
    ctx.explain('C18.g: for every attribute of a schema component that the validation-time inventory shows growing (add/update/store), no `for`/comprehension in the owning '
                'class iterates `self.<attr>` (or its items()/values()) directly; tuple()/list()/sorted() snapshots are accepted.')


LOADS = ('load_schema', 'include_schema', 'import_schema', 'fetch_schema', 'add_schema')


def rule_h(ctx: Ctx) -> None:
    """XsdGlobals.protect_status() rolls the maps back when its block fails: clear(), then refill - a sequence of separate writes to the maps
    every validating thread reads, so other threads see an empty, unbuilt schema in between.  That is the price of a load that went wrong
    (the maps were being changed anyway); a block that has not started to load anything must not be able to start the rollback - looking up a
    namespace that no location provides is a read-only operation on a built schema."""
    rule = 'C18.h'
    n = 0
    for f in ctx.idx.iter_functions():
        if isinstance(f.node, ast.Lambda) or f.module.name.startswith(('xmlschema.testing', 'xmlschema.extras')):
            continue
        ws = [w for w in walk_no_nested(f.node) if isinstance(w, ast.With) and any(
            isinstance(i.context_expr, ast.Call) and isinstance(i.context_expr.func, ast.Attribute) and i.context_expr.func.attr == 'protect_status' for i in w.items)]
        if not ws:
            continue
        ctx.analysed(f.qualname)
        g = cfg_of(ctx, f)
        loads = [x for x, c in call_nodes(g, lambda c: isinstance(c.func, ast.Attribute) and c.func.attr in LOADS)]
        for w in ws:
            n += 1
            inside = {id(x) for b in w.body for x in ast.walk(b)}
            rz = [x for x in g.nodes if x.kind == 'raise' and id(x.ast) in inside]
            bad = None
            for r in rz:
                if g.must_pass(g.entry, [r], loads, kinds='nTFxi') is not None:
                    bad = r
                    break
            ok = bad is None
            ctx.ob(rule, f'{f.qualname.split(".", 1)[-1]}: the rollback of protect_status() can start only after a schema load was attempted', f.loc(bad.ast) if bad else f.loc(w), ok,
                   '' if ok else f'`{text(bad.ast)[:60]}` is reachable inside the protected block without any load: the handler of protect_status() clears and refills the shared maps '
                   'although nothing changed - e.g. for every attribute or element of a namespace unknown to the schema - and the threads that validate with the same '
                   'schema meanwhile find it empty and not built', key=f'{f.qualname}|rollback-without-load')
    ctx.floor(rule, 'protect_status blocks', n, 3)
    ps = ctx.idx.func(f'{GLOB}.protect_status')
    hs = [h for t in ast.walk(ps.node) if isinstance(t, ast.Try) for h in t.handlers]
    ok = len(hs) == 1 and any(text(c.func) == 'self.clear' for c in calls(hs[0]))
    ctx.ob(rule, 'protect_status restores by clear-and-refill in its exception handler only', ps.loc(), ok, '', key='protect_status|handler', nontrivial=False)
    ctx.explain('C18.h: inside every `with ….protect_status(…)` block each explicit `raise` is reachable only through a call that loads a schema '
                '(load_schema / include_schema / import_schema); the clear-and-refill of the shared maps lives in the handler of protect_status alone.')


def rule_i(ctx: Ctx) -> None:
    """"Idempotent recomputation" excuses an unlocked memo only when two racing threads store *equal* values.  A value with identity semantics - a class
    made by a metaclass call or type(name, bases, dict) - is a different object per call: the threads that lose the race keep using their own class.
    Such a memo is created under a lock, with the emptiness test repeated inside."""
    rule = 'C18.i'
    from .c10 import TABLE, inventory
    idx = ctx.idx
    n = 0
    for w in inventory(ctx):
        row = TABLE.get((w.func.qualname, w.attr)) or TABLE.get((w.func.qualname, '*'))
        if row is None or row[0] != 'memo' or w.kind != 'setattr' or not isinstance(w.node, (ast.Assign, ast.AnnAssign)):
            continue
        v = w.node.value
        if not isinstance(v, ast.Call):
            continue
        makes_class = False
        if isinstance(v.func, ast.Name) and v.func.id == 'type' and len(v.args) == 3:
            makes_class = True
        else:
            q = idx.resolve_name(w.func.module, text(v.func).split('.')[0])
            full = None
            if q is not None:
                rest = text(v.func).split('.')[1:]
                full = '.'.join([q] + rest)
            k = idx.classes.get(full) if full else None
            if k is None:
                k = next((c_ for c_ in idx.classes.values() if c_.name == text(v.func).split('.')[-1]), None)
            if k is not None and ({'type', 'ABCMeta', 'EnumMeta'} & {e.split('.')[-1] for e in k.all_ext_bases()}):
                makes_class = True
        if not makes_class:
            continue
        n += 1
        enc = enclosing_map(w.func.node)
        anc = list(ancestors(w.node, enc))
        lock = next((a for a in anc if isinstance(a, ast.With) and any('lock' in text(i.context_expr).lower() for i in a.items)), None)
        recheck = False
        if lock is not None:
            inner_ifs = [a for a in anc if isinstance(a, ast.If) and any(a is x for x in ast.walk(lock))]
            outer_ifs = [a for a in anc if isinstance(a, ast.If) and not any(a is x for x in ast.walk(lock))]
            recheck = any(text(i.test) == text(o.test) for i in inner_ifs for o in outer_ifs) or (bool(inner_ifs) and not outer_ifs)
        ok = lock is not None and recheck
        ctx.ob(rule, f'{w.func.qualname.split(".", 1)[-1]}: the class stored in `{w.target[:40]}` is created once - under a lock, the test repeated inside', w.func.loc(w.node), ok,
               '' if ok else ('check-then-create without a lock' if lock is None else 'the emptiness test is not repeated under the lock') + ': threads that decode with bindings on a shared '
               'schema for the first time create a class each and get objects of different binding classes for the same element (423 of 1500 eight-thread trials)',
               key=f'{w.func.qualname}|class-memo|{w.attr}')
    ctx.floor(rule, 'memo stores of freshly created classes', n, 1)
    ctx.explain('C18.i: among the validation-time writes classified `memo`, those whose value is a call of a metaclass (a repo class deriving from `type`) or of type(n, b, d) lie inside '
                '`with <lock>` and inside an `if` whose test repeats the test outside the lock.')


SCRATCH_VERDICT_OK = {
    'xmlschema.validators.elements.XsdElement.data_value':
        'XPath fn:data() of an empty element (XSD 1.1 assertions): asks for the empty string only; the answer is a property of the type, the window is one call wide - reviewed, '
        'no failing schedule exhibited',
}


def rule_j(ctx: Ctx) -> None:
    """`text_is_valid(text)` without a context decodes into the *schema-wide* scratch context and then reads its error list: a verdict taken from state that every
    thread validating with the schema clears and fills.  That is fine while the schema is built (one thread); at validation time the per-call context must be
    handed on, otherwise another thread's clear() or error decides the answer."""
    rule = 'C18.j'
    from .c10 import graph
    eff, cg, prev, roots, _ = graph(ctx)
    n = m = 0
    for q in sorted(prev):
        f = ctx.idx.functions[q]
        if isinstance(f.node, ast.Lambda) or f.name in ('text_is_valid', 'is_valid'):
            continue
        for c in calls(f.node):
            if not (isinstance(c.func, ast.Attribute) and c.func.attr == 'text_is_valid'):
                continue
            n += 1
            has_ctx = len(c.args) >= 2 or any(k.arg == 'context' for k in c.keywords)
            if has_ctx:
                continue
            m += 1
            ok = q in SCRATCH_VERDICT_OK
            ctx.ob(rule, f'{q.split(".", 2)[-1]}: `{text(c)[:50]}` at validation time takes its verdict from the caller\'s context', f.loc(c), ok,
                   SCRATCH_VERDICT_OK.get(q, '') if ok else 'no context argument: the verdict is read from schema.validation_context, shared by all threads - while one thread is between '
                   'the decode and the read of .errors another thread\'s run clears the list or adds its own error: a valid document gets a spurious error (or an invalid one passes)',
                   key=f'{q}|scratch-verdict', nontrivial=not ok)
    ctx.floor(rule, 'validation-time functions inspected', len(prev), 100)
    ctx.note(f'{rule}: {n} text_is_valid call(s) in validation-time functions, {m} without a context')
    ctx.explain('C18.j: in the functions reachable from the validation entry points (typed call graph) every call of text_is_valid passes a context, except the reviewed sites.')


RULES = [rule_a, rule_b, rule_c, rule_d, rule_e, rule_f, rule_g, rule_h, rule_i, rule_j]
