"""Rule bodies about the validators of wildcards (shared by C03, C04, C10, C16)."""
from __future__ import annotations

import ast

from ..astutil import calls, text, walk_no_nested
from ..index import AnalysisError
from ..report import Ctx
from .common import call_nodes, cfg_of, guards, reach_cut

WILD = 'xmlschema.validators.wildcards'
SITES = [(f'{WILD}.XsdAnyElement', 'raw_decode'), (f'{WILD}.XsdAnyElement', 'raw_encode'),
         (f'{WILD}.XsdAnyAttribute', 'raw_decode'), (f'{WILD}.XsdAnyAttribute', 'raw_encode')]


def constraint_first(ctx: Ctx, rule: str, which=('XsdAnyAttribute', 'XsdAnyElement')) -> None:
    """The namespace constraint of a wildcard is tested for every name handed to it, whatever processContents says: the
    `is_matching` test lies on every path from the entry to a return (a skip/lax shortcut must come after it)."""
    n = 0
    for cq, meth in SITES:
        if cq.rsplit('.', 1)[-1] not in which:
            continue
        c = ctx.idx.cls(cq)
        f = c.methods.get(meth)
        if f is None:
            continue
        ctx.analysed(f.qualname)
        g = cfg_of(ctx, f)
        tests = [x for x in g.nodes if x.kind == 'if' and any(isinstance(cl.func, ast.Attribute) and cl.func.attr in ('is_matching', 'is_namespace_allowed') and text(cl.func.value) == 'self'
                                                               for cl in calls(x.ast.test))]
        rets = [x for x in g.nodes if x.kind == 'return']
        n += 1
        w = g.must_pass(g.entry, rets, tests, kinds='nTF') if tests else [g.entry]
        ok = bool(tests) and w is None
        rep = ok and all(any(isinstance(cl.func, ast.Attribute) and cl.func.attr == 'validation_error' for st in t.ast.body for cl in calls(st)) or
                         any(isinstance(st, ast.Raise) for st in t.ast.body) for t in tests if isinstance(t.ast.test, ast.UnaryOp))
        ctx.ob(rule, f'{c.name}.{meth}: the namespace constraint is tested (and a mismatch reported) before any return, also for processContents="skip"',
               f.loc(tests[0].ast) if tests else f.loc(), ok and rep,
               '' if ok and rep else ('a return is reachable without the is_matching test' + (f' (line {w[-1].lineno})' if w else '') +
                                      ': a name outside the namespace/notNamespace/notQName constraint is admitted'),
               key=f'{c.name}.{meth}|constraint-first')
    ctx.floor(rule, 'wildcard validators', n, 2)
    ctx.explain(f'{rule}: CFG must-pass-through from the entry of the wildcard decoders/encoders to every return through the '
                '`self.is_matching(…)` test.')


def load_then_lookup(ctx: Ctx, rule: str) -> None:
    """The name matched by a wildcard is looked up in the global maps only after its namespace was loaded on demand: a lookup that
    comes first (with the load only on a miss and no second lookup) gives another answer on a fresh schema than on one that has
    already met the namespace."""
    n = 0
    for cq, meth in SITES:
        c = ctx.idx.cls(cq)
        f = c.methods.get(meth)
        if f is None:
            continue
        g = cfg_of(ctx, f)
        loads = [x for x, cl in call_nodes(g, lambda cl: isinstance(cl.func, ast.Attribute) and cl.func.attr == 'load_namespace')]
        looks = []
        for x in g.stmt_nodes():
            for e in x.exprs:
                for s in ast.walk(e):
                    if isinstance(s, ast.Subscript) and isinstance(s.ctx, ast.Load) and text(s.value) in ('self.maps.elements', 'self.maps.attributes'):
                        looks.append(x)
                    elif isinstance(s, ast.Call) and isinstance(s.func, ast.Attribute) and s.func.attr == 'get' and text(s.func.value) in ('self.maps.elements', 'self.maps.attributes'):
                        looks.append(x)
        if not looks:
            continue
        ctx.analysed(f.qualname)
        dom = g.dominators(kinds='nTF')
        for x in looks:
            n += 1
            ok = any(ld in dom[x] for ld in loads)
            ctx.ob(rule, f'{c.name}.{meth}: the global declaration of a wildcard-matched name is looked up after its namespace was loaded on demand', f.loc(x.ast), ok,
                   '' if ok else 'the lookup is not dominated by load_namespace(…): on a fresh schema the first document that uses the namespace is processed '
                   'without the declaration (lax: unvalidated, strict: "not found"), the next one with it', key=f'{c.name}.{meth}|load-then-lookup')
    ctx.floor(rule, 'global-map lookups in the wildcard validators', n, 3)
    ctx.explain(f'{rule}: dominance of the load_namespace call over the subscripts of self.maps.elements / self.maps.attributes in the '
                'wildcard decoders/encoders.')


def mode_blind_reports(ctx: Ctx, rule: str, floor: int = 60) -> None:
    """A report is made in the caller's mode, not *because of* it: no context.*_error call of the validators is reachable only under
    validation == 'strict' (lax would lose the error that strict raises) or only under 'lax'."""
    from .common import is_reporter_call
    n = 0
    for f in ctx.idx.iter_functions('validators'):
        if isinstance(f.node, ast.Lambda) or 'validation' not in f.params:
            continue
        src_has = any(is_reporter_call(cl) for cl in calls(f.node))
        if not src_has:
            continue
        g = cfg_of(ctx, f)
        for node, cl in call_nodes(g, is_reporter_call):
            if not (cl.args and text(cl.args[0]) == 'validation'):
                continue
            n += 1
            bad = []
            for t, lab in guards(ctx, f, node):
                try:
                    e = ast.parse(t, mode='eval').body
                except SyntaxError:
                    continue
                for mode in ('strict', 'lax'):
                    v = _mode_truth(e, mode)
                    if v is not None and v != (lab == 'T'):
                        bad.append((t, lab, mode))
            ctx.ob(rule, f'{f.qualname.split(".", 2)[-1]}: `{text(cl.func)}(validation, …)` is reached in strict and in lax mode alike', f.loc(cl), not bad,
                   '' if not bad else f'under `{bad[0][0][:60]}` = {bad[0][1]} the report is unreachable when validation == {bad[0][2]!r}: is_valid()/iter_errors() and '
                   'validate()/strict decoding give different verdicts for the same document', key=f'{f.qualname}|mode-blind|{text(cl)[:50]}', nontrivial=False)
    ctx.floor(rule, 'reports in the caller\'s mode', n, floor)
    ctx.explain(f'{rule}: for every context.*_error(validation, …) call of the validators the path condition is folded for '
                "validation == 'strict' and == 'lax'; neither may make the call unreachable.")


def _mode_truth(e: ast.AST, mode: str):
    """three-valued truth of a guard when the variable `validation` has the value ``mode``"""
    if isinstance(e, ast.BoolOp):
        vals = [_mode_truth(v, mode) for v in e.values]
        if isinstance(e.op, ast.And):
            return False if any(v is False for v in vals) else (True if all(v is True for v in vals) else None)
        return True if any(v is True for v in vals) else (False if all(v is False for v in vals) else None)
    if isinstance(e, ast.UnaryOp) and isinstance(e.op, ast.Not):
        v = _mode_truth(e.operand, mode)
        return None if v is None else not v
    if isinstance(e, ast.Compare) and len(e.ops) == 1:
        a, b = e.left, e.comparators[0]
        if isinstance(b, ast.Name) and b.id == 'validation':
            a, b = b, a
        if isinstance(a, ast.Name) and a.id == 'validation':
            if isinstance(b, ast.Constant) and isinstance(b.value, str):
                if isinstance(e.ops[0], ast.Eq):
                    return mode == b.value
                if isinstance(e.ops[0], ast.NotEq):
                    return mode != b.value
            if isinstance(b, (ast.Tuple, ast.Set, ast.List)) and all(isinstance(x, ast.Constant) for x in b.elts):
                vals = [x.value for x in b.elts]
                if isinstance(e.ops[0], ast.In):
                    return mode in vals
                if isinstance(e.ops[0], ast.NotIn):
                    return mode not in vals
    return None
