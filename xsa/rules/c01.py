"""C01 — child sequences vs content-model language (structural clauses only).

C01.a  no model error is dropped by the validating consumer (XsdGroup.raw_decode)
C01.b  occurrence predicates have the specified direction (ParticleMixin)
"""
from __future__ import annotations

import ast

from ..astutil import calls, find_relations, names_in, returns, text, walk_no_nested
from ..report import Ctx
from .common import cfg_of, flush_rule, reporter_calls, guards

GROUP_DECODE = 'xmlschema.validators.groups.XsdGroup.raw_decode'
PARTICLE = 'xmlschema.validators.particles.ParticleMixin'


def consumer_loops(ctx: Ctx, rule: str, qualname: str, listvar: str, floor: int, require_first=True) -> None:
    """(1) every loop over model.advance()/model.stop() appends what it yields to ``listvar``."""
    f = ctx.idx.func(qualname)
    loops = []
    for n in walk_no_nested(f.node):
        if isinstance(n, ast.For) and isinstance(n.iter, ast.Call) and isinstance(n.iter.func, ast.Attribute) \
                and n.iter.func.attr in ('advance', 'stop') and text(n.iter.func.value) == 'model':
            loops.append(n)
    ctx.floor(rule, f'model.advance/stop consumer loops in {qualname}', len(loops), floor)
    for lp in loops:
        tnames = names_in(lp.target)
        first = lp.body[0]
        app = [c for c in calls(first, attr='append', recv=listvar)] if isinstance(first, ast.Expr) else []
        ok = bool(app) and bool(app[0].args) and tnames <= names_in(app[0].args[0])
        if not ok and not require_first:
            app = [c for s in lp.body for c in calls(s, attr='append', recv=listvar)]
            ok = bool(app) and tnames <= names_in(app[0].args[0])
        ctx.ob(rule, f'consumer loop `for {text(lp.target)} in {text(lp.iter)}` records every yielded error',
               f.loc(lp), ok,
               '' if ok else f'first statement of the loop body is `{text(first)[:60]}`, not {listvar}.append(<yielded tuple>)',
               key=f'{qualname}|consumer|{text(lp.iter)}|{lp.body and text(first)}')


def rule_a(ctx: Ctx) -> None:
    rule = 'C01.a'
    f = ctx.idx.func(GROUP_DECODE)
    g = cfg_of(ctx, f)
    consumer_loops(ctx, rule, GROUP_DECODE, 'errors', 3)

    # (2) the model-exhausted branch: `while model.element is not None: ... else: <here>`
    whiles = [n for n in walk_no_nested(f.node) if isinstance(n, ast.While)
              and 'model.element' in text(n.test) and n.orelse]
    ctx.floor(rule, 'model-exhausted (while/else) branches', len(whiles), 1)
    for w in whiles:
        wn = g.nodes_of(w)[0]
        # nodes of the else block
        else_nodes = set()
        for s in w.orelse:
            for sub in ast.walk(s):
                for cn in g.nodes_of(sub):
                    else_nodes.add(cn)
        appends = {n for n in else_nodes if n.kind == 'stmt' and any(True for _ in calls(n.ast, attr='append', recv='errors'))}
        # edges on which the flag `broken_model` is known true: an earlier error exists
        allowed = set()
        for n in else_nodes:
            if n.kind == 'if' and 'broken_model' in names_in(n.ast.test):
                t = n.ast.test
                neg = False
                while isinstance(t, ast.UnaryOp) and isinstance(t.op, ast.Not):
                    neg = not neg
                    t = t.operand
                if isinstance(t, ast.Name) and t.id == 'broken_model':
                    allowed.add((n, 'F' if neg else 'T'))
        # search: from the F edge of the while into the else block, avoiding appends, not using `allowed` edges,
        # can we leave the else block?
        start = [m for m, lab in g.succ[wn] if lab == 'F']
        seen = set()
        stack = list(start)
        escaped = None
        while stack:
            n = stack.pop()
            if n in seen or n in appends:
                continue
            seen.add(n)
            if n not in else_nodes:
                escaped = n
                break
            for m, lab in g.succ[n]:
                if lab in 'nTF' and (n, lab) not in allowed:
                    stack.append(m)
        ok = escaped is None
        ctx.ob(rule, 'a child that the exhausted model cannot take yields an error (or one was already recorded)',
               f.loc(w.orelse[0]), ok,
               '' if ok else f'path through the else-branch without errors.append reaches line {escaped.lineno}',
               key=f'{GROUP_DECODE}|exhausted-branch')
        # every `broken_model = True` sits next to an append in the same block
        for blk in _blocks(f.node):
            for s in blk:
                if isinstance(s, ast.Assign) and text(s.targets[0]) == 'broken_model' and text(s.value) == 'True':
                    ok = any(isinstance(x, ast.Expr) and any(True for _ in calls(x, attr='append', recv='errors')) for x in blk)
                    ctx.ob(rule, '`broken_model = True` is only set together with a recorded error', f.loc(s), ok,
                           '' if ok else 'flag set without errors.append in the same block',
                           key=f'{GROUP_DECODE}|broken-flag|{len(blk)}')
    # (3) flush rule
    flush_rule(ctx, rule, f, 'errors', 'obj', min_appends=5)
    # the early return before any append reports through context directly
    first_ret = None
    for n in g.nodes:
        if n.kind == 'return':
            first_ret = n if first_ret is None or n.lineno < first_ret.lineno else first_ret
    ctx.explain('C01.a: in XsdGroup.raw_decode every error yielded by the model visitor is appended to the local '
                'errors list, every path from an append to the normal exit passes the reporting loop, and the loop '
                'attaches the error to the parent element (CFG must-pass-through).')


def _blocks(fnode: ast.AST):
    for n in ast.walk(fnode):
        for fld in ('body', 'orelse', 'finalbody'):
            b = getattr(n, fld, None)
            if isinstance(b, list) and b and isinstance(b[0], ast.stmt):
                yield b
        if isinstance(n, ast.Try):
            for h in n.handlers:
                yield h.body


def _pred_direction(ctx: Ctx, rule: str, meth: str, bound: str, expect_true_when: str, none_false: bool) -> None:
    """The predicate returns True exactly when  bound <rel> occurs[self]  with rel = expect."""
    f = ctx.idx.method(PARTICLE, meth)
    ctx.analysed(f.qualname)
    is_a = lambda s: s == f'self.{bound}'
    is_b = lambda s: s == 'occurs[self]'
    rets = returns(f.node)
    rel_rets = []
    const_rets = []
    for r in rets:
        rs = find_relations(r.value, is_a, is_b) if r.value is not None else []
        if rs and rs[0][0] is r.value:
            rel_rets.append((r, rs[0][1]))
        elif isinstance(r.value, ast.Constant):
            const_rets.append(r)
        else:
            ctx.unrecognised(rule, f.loc(r), f'return form `{text(r)}` in {meth}')
    ok = len(rel_rets) == 1 and rel_rets[0][1] == expect_true_when
    ctx.ob(rule, f'{meth}: true exactly when {bound} {expect_true_when} count', f.loc(),
           ok, '' if ok else f'found relation(s) {[r for _, r in rel_rets]} between self.{bound} and occurs[self]',
           key=f'{PARTICLE}.{meth}|direction')
    if none_false:
        # the only constant return is `False`, guarded by `self.max_occurs is None`
        g = cfg_of(ctx, f)
        good = False
        for r in const_rets:
            if r.value.value is False:
                # find enclosing if
                for n in ast.walk(f.node):
                    if isinstance(n, ast.If) and r in n.body and text(n.test) == f'self.{bound} is None':
                        good = True
        # the comparison must not be reachable when max is None: the None test dominates it
        dom = g.dominators(kinds='nTF')
        cmp_node = g.nodes_of(rel_rets[0][0])[0] if rel_rets else None
        none_tests = [n for n in g.nodes if n.kind == 'if' and text(n.ast.test) == f'self.{bound} is None']
        dominated = bool(cmp_node and none_tests and none_tests[0] in dom.get(cmp_node, set()))
        ok2 = good and dominated and all(r.value.value is False for r in const_rets)
        ctx.ob(rule, f'{meth}: an unbounded particle (max None) is never reported', f.loc(), ok2,
               '' if ok2 else 'the `is None` guard returning False does not dominate the comparison',
               key=f'{PARTICLE}.{meth}|unbounded')
    else:
        ok2 = not const_rets
        ctx.ob(rule, f'{meth}: no constant verdict', f.loc(), ok2, '', key=f'{PARTICLE}.{meth}|const')


def rule_b(ctx: Ctx) -> None:
    rule = 'C01.b'
    # is_missing: count < min   <=>  min > count
    _pred_direction(ctx, rule, 'is_missing', 'min_occurs', '>', none_false=False)
    # is_over: count >= max  <=> max <= count
    _pred_direction(ctx, rule, 'is_over', 'max_occurs', '<=', none_false=True)
    # is_exceeded: count > max <=> max < count
    _pred_direction(ctx, rule, 'is_exceeded', 'max_occurs', '<', none_false=True)
    occurs_restriction(ctx, rule)
    ctx.explain('C01.b: the return expressions of is_missing/is_over/is_exceeded are normalised to '
                '(bound, relation, count) and compared with the specification table; has_occurs_restriction is '
                'evaluated symbolically over the abstract domain {None, ordered ints} by case analysis of its if-chain.')


def occurs_restriction(ctx: Ctx, rule: str) -> None:
    """has_occurs_restriction(self, other): partial evaluation of the if/elif chain.

    Specification: result is True  iff  self.min >= other.min  and  self.max ⊑ other.max
    where None = +inf  (plus the schema-legal shortcut self.max == 0 ⇒ True once min is fine).
    The chain is read as an ordered list of (condition, returned-constant-or-comparison)."""
    f = ctx.idx.method(PARTICLE, 'has_occurs_restriction')
    ctx.analysed(f.qualname)
    chain = []  # (cond_text or None, return value node)
    body = [s for s in f.node.body if not (isinstance(s, ast.Expr) and isinstance(s.value, ast.Constant))]

    def read(stmts):
        for s in stmts:
            if isinstance(s, ast.If):
                if len(s.body) == 1 and isinstance(s.body[0], ast.Return):
                    chain.append((s.test, s.body[0].value))
                    read(s.orelse)
                else:
                    ctx.unrecognised(rule, f.loc(s), 'has_occurs_restriction: branch body is not a single return')
            elif isinstance(s, ast.Return):
                chain.append((None, s.value))
            else:
                ctx.unrecognised(rule, f.loc(s), f'has_occurs_restriction: statement `{text(s)[:50]}`')
    read(body)
    smin = lambda s: s == 'self.min_occurs'
    omin = lambda s: s == 'other.min_occurs'
    smax = lambda s: s == 'self.max_occurs'
    omax = lambda s: s == 'other.max_occurs'

    # Evaluate the chain on abstract cases; compare with the specification.
    # cases: (rel_min in {<,==,>}) x (self.max kind) x (other.max kind) x rel_max
    INF = float('inf')
    cases = []
    for smn, omn in ((0, 1), (1, 1), (2, 1)):
        for smx in (0, 1, 2, 3, None):
            for omx in (0, 1, 2, 3, None):
                if smx is not None and smx < smn:
                    continue
                if omx is not None and omx < omn:
                    continue
                cases.append({'self.min_occurs': smn, 'other.min_occurs': omn, 'self.max_occurs': smx, 'other.max_occurs': omx})

    def ev(e, env):
        if isinstance(e, ast.Constant):
            return e.value
        if isinstance(e, ast.Attribute):
            return env[text(e)]
        if isinstance(e, ast.UnaryOp) and isinstance(e.op, ast.Not):
            return not ev(e.operand, env)
        if isinstance(e, ast.BoolOp):
            vals = [ev(v, env) for v in e.values]
            return all(vals) if isinstance(e.op, ast.And) else any(vals)
        if isinstance(e, ast.Compare) and len(e.ops) == 1:
            a, b = ev(e.left, env), ev(e.comparators[0], env)
            op = e.ops[0]
            if isinstance(op, ast.Is):
                return a is b
            if isinstance(op, ast.IsNot):
                return a is not b
            if isinstance(op, ast.Eq):
                return a == b
            if isinstance(op, ast.NotEq):
                return a != b
            if a is None or b is None:
                raise TypeError('ordering comparison with None')
            return {ast.Lt: a < b, ast.LtE: a <= b, ast.Gt: a > b, ast.GtE: a >= b}[type(op)]
        raise ValueError(text(e))

    bad = []
    for env in cases:
        try:
            res = None
            for cond, val in chain:
                if cond is None or ev(cond, env):
                    res = ev(val, env)
                    break
        except TypeError as e:
            bad.append((env, f'raises {e}'))
            continue
        except ValueError as e:
            ctx.unrecognised(rule, f.loc(), f'has_occurs_restriction: expression `{e}` outside the folded fragment')
        a = INF if env['self.max_occurs'] is None else env['self.max_occurs']
        b = INF if env['other.max_occurs'] is None else env['other.max_occurs']
        spec = env['self.min_occurs'] >= env['other.min_occurs'] and (a <= b or env['self.max_occurs'] == 0)
        if bool(res) != spec:
            bad.append((env, f'returns {res}, specification {spec}'))
    ok = not bad
    ctx.count(f'{rule}:occurs-restriction abstract cases', len(cases))
    ctx.ob(rule, f'has_occurs_restriction agrees with min>=min ∧ max⊑max (None=∞) on {len(cases)} abstract cases '
                 f'of its {len(chain)}-branch decision chain', f.loc(), ok,
           '' if ok else f'{len(bad)} case(s) differ, e.g. {bad[0]}', key=f'{PARTICLE}.has_occurs_restriction|table')


def thorough_a(ctx: Ctx) -> None:
    """Thorough: encode-side consumers and the encode helpers that intentionally drop model errors."""
    rule = 'C01.a+'
    q = 'xmlschema.validators.groups.XsdGroup.raw_encode'
    consumer_loops(ctx, rule, q, 'errors', 3)
    # exemption table: content re-ordering helpers discard model errors on purpose (they only sort data)
    exempt = {'xmlschema.validators.models.iter_unordered_content': 'reorders content, validation happens afterwards in raw_encode',
              'xmlschema.validators.models.iter_collapsed_content': 'reorders content, validation happens afterwards in raw_encode',
              'xmlschema.validators.models.sort_content': 'reorders content, validation happens afterwards in raw_encode'}
    # every other consumer of ModelVisitor.advance in validators/ must use the yielded errors
    for f in ctx.idx.iter_functions('validators'):
        for n in walk_no_nested(f.node):
            if isinstance(n, ast.For) and isinstance(n.iter, ast.Call) and isinstance(n.iter.func, ast.Attribute) \
                    and n.iter.func.attr in ('advance', 'stop') and 'model' in text(n.iter.func.value):
                if f.qualname in (GROUP_DECODE, q):
                    continue
                used = names_in(n.target) & {x for s in n.body for x in names_in(s)}
                # accepted idioms: the yielded error is used (re-yielded, stored), or the *occurrence* of an
                # error decides control flow (`return False` in ModelVisitor.stoppable); a body that is only
                # `pass` silently drops errors and must be in the exemption table
                decides = any(isinstance(x, (ast.Return, ast.Break, ast.Raise, ast.Assign)) for s in n.body for x in ast.walk(s))
                ok = bool(used) or decides or f.qualname in exempt
                ctx.ob(rule, f'consumer of {text(n.iter)} in {f.qualname} uses the yielded errors or is exempt',
                       f.loc(n), ok, exempt.get(f.qualname, ''), key=f'{f.qualname}|consumer-other|{text(n.iter)}')
    ctx.floor(rule, 'other consumers of the model visitor', sum(1 for o in ctx.obligations if o.rule == rule and 'consumer of' in o.instance), 6)


def rule_c(ctx: Ctx) -> None:
    """The matching context (model group and occurrence counters) that the model visitor supplies reaches the XSD 1.1 wildcard
    precedence test: parameter forwarding along  ModelVisitor.match_element -> <particle>.match -> is_matching."""
    rule = 'C01.c'
    idx = ctx.idx
    mv = idx.func('xmlschema.validators.models.ModelVisitor.match_element')
    ctx.analysed(mv.qualname)
    cs = [c for c in calls(mv.node) if text(c.func) == 'self.element.match']
    ok = len(cs) == 1 and {k.arg: text(k.value) for k in cs[0].keywords} == {'group': 'self.root', 'occurs': 'self.occurs'} and text(cs[0].args[0]) == mv.params[1]
    ctx.ob(rule, 'ModelVisitor.match_element hands the root group and the occurrence counters to the particle', mv.loc(), ok, '', key='ModelVisitor.match_element|context')
    # receivers: every is_matching that consumes `occurs`/`group`
    consumers = [f for f in idx.functions.values() if f.name == 'is_matching' and f.cls is not None and
                 {'group', 'occurs'} <= set(f.params) and f.module.name.startswith('xmlschema.validators')]
    ctx.floor(rule, 'is_matching implementations that use the occurrence context', len(consumers), 1)
    # forwarding wrappers: every `match` (and `is_matching`) in validators/ that delegates to self.is_matching / super().is_matching
    n = 0
    for f in idx.iter_functions('validators'):
        if f.name not in ('match', 'is_matching') or f.cls is None or isinstance(f.node, ast.Lambda):
            continue
        for c in calls(f.node):
            tgt = text(c.func)
            if tgt not in ('self.is_matching', 'super().is_matching'):
                continue
            if f.node.args.kwarg is None and not {'group', 'occurs'} & set(f.params):
                continue     # this method does not receive the context at all
            n += 1
            star = [text(k.value) for k in c.keywords if k.arg is None]
            named = {k.arg: text(k.value) for k in c.keywords if k.arg}
            ok = True
            for p in ('group', 'occurs'):
                if p in f.params:
                    ok = ok and (named.get(p) == p or (len(c.args) > 2 and p in [text(a) for a in c.args]))
                elif f.node.args.kwarg is not None:
                    ok = ok and f.node.args.kwarg.arg in star     # arrives in **kwargs: must be passed on
            ctx.ob(rule, f'{f.qualname.split(".", 2)[-1]}: the matching context is forwarded to {tgt}(…)', f.loc(c), ok,
                   '' if ok else 'the occurrence counters / model group given by the model visitor are dropped here: the XSD 1.1 wildcard '
                   'always takes its "no occurrence information" branch and lets an overlapping sibling element block it',
                   key=f'{f.qualname}|forward|{tgt}')
    ctx.floor(rule, 'forwarding sites of the matching context', n, 2)
    ctx.explain('C01.c: keyword forwarding of group/occurs from the model visitor through every match()/is_matching() wrapper to '
                'the wildcard implementations that consume them.')


def rule_d(ctx: Ctx) -> None:
    """Interleaved open content: a child is handed to the open-content wildcard only after *every* declaration of the current
    group that matches its name was found saturated (a universal check: exhaustion of a loop over the group's declarations)."""
    rule = 'C01.d'
    from ..index import AnalysisError
    from .common import reach_cut
    f = ctx.idx.method('xmlschema.validators.models.InterleavedModelVisitor', 'match_element')
    ctx.analysed(f.qualname)
    g = cfg_of(ctx, f)
    gives = [n for n in g.nodes if isinstance(n.ast, ast.Return) and n.kind not in ('entry', 'exit', 'raise_exit')
             and n.ast.value is not None and text(n.ast.value) == 'self.wildcard']
    ctx.floor(rule, 'hand-overs to the open-content wildcard', len(gives), 1)
    loops = []
    for n in g.nodes:
        if n.kind != 'for' or text(n.ast.iter) not in ('self.group.elements', 'self.group.iter_elements()', 'iter(self.group.elements)'):
            continue
        v = text(n.ast.target)
        # the body refuses (returns None / the declaration) when a matching declaration can still take the child
        refus = [r for r in ast.walk(n.ast) if isinstance(r, ast.Return) and any(r is x for b in n.ast.body for x in ast.walk(b))]
        tests = [text(t.test) for b in n.ast.body for t in ast.walk(b) if isinstance(t, ast.If)]
        if refus and any(f'{v}.is_matching(' in t for t in tests) and any(f'{v}.is_over(' in t for t in tests):
            loops.append(n)
    for r in gives:
        ok = bool(loops) and r not in reach_cut(g, [g.entry], {(lp, 'F') for lp in loops})
        ctx.ob(rule, 'InterleavedModelVisitor.match_element: the wildcard takes a child only after the loop over all declarations of the group '
               'found every matching one saturated', f.loc(r.ast), ok,
               '' if ok else 'a path reaches `return self.wildcard` without the exhaustion of a loop over self.group.elements that refuses on a matching, '
               'unsaturated declaration: with a name declared twice in the group (a, b?, a) the second occurrence is swallowed by the open content',
               key='interleave|wildcard-after-all-declarations')
    ctx.explain('C01.d: every `return self.wildcard` of InterleavedModelVisitor.match_element is reachable only through the exhaustion '
                'edge of a for-loop over the group declarations whose body refuses on a matching declaration that is not over.')


def rule_e(ctx: Ctx) -> None:
    """The names a head element accepts in a content model (`substitutes`, filled from iter_substitutes at build time and trusted by
    match()/is_matching()) include the concrete members below an abstract intermediate member (C07.c closure body)."""
    from .c07 import substitutes_closure
    substitutes_closure(ctx, 'C01.e')
    ctx.explain('C01.e: the recursion of iter_substitutes is not control dependent on the abstractness of the member.')


def rule_f(ctx: Ctx) -> None:
    """A group matches the empty child sequence when it may occur zero times, has no particles, or - choice: one branch is emptiable,
    sequence/all: every particle is.  The model visitor and is_missing() rely on exactly this reading (it is not "effective minimum
    occurrences are zero": a branch that can only be empty, like <xs:sequence/>, contributes no occurrences but makes the choice
    emptiable)."""
    rule = 'C01.f'
    f = ctx.idx.method('xmlschema.validators.groups.XsdGroup', 'is_emptiable')
    ctx.analysed(f.qualname)
    from .c16 import fold
    body = [s_ for s_ in f.node.body if not (isinstance(s_, ast.Expr) and isinstance(s_.value, ast.Constant))]
    for choice in (True, False):
        env = {"self.model == 'choice'": choice, "self.model != 'choice'": not choice}
        und: list = []
        rets = fold(body, env, und)
        ok = len(rets) == 1 and not und
        det = ''
        if ok:
            r = rets[0]
            parts = [text(v) for v in (r.values if isinstance(r, ast.BoolOp) and isinstance(r.op, ast.Or) else [r])]
            want_q = 'any' if choice else 'all'
            quant = [p for p in parts if p.startswith(f'{want_q}(') and '.is_emptiable()' in p and p.rstrip(')').endswith('in self')]
            wrong = [p for p in parts if p.startswith(('all(', 'any(')) and p not in quant]
            ok = 'self.min_occurs == 0' in parts and ('not self' in parts or 'not self._group' in parts or 'len(self) == 0' in parts) and bool(quant) and not wrong \
                and len(parts) == 3
            det = '' if ok else f'returns `{text(r)[:90]}`'
        else:
            det = f'{len(rets)} result(s), undecided tests {und[:2]}'
        ctx.ob(rule, f'XsdGroup.is_emptiable ({"choice" if choice else "sequence/all"}): minOccurs = 0, or no particles, or '
               f'{"some" if choice else "every"} particle emptiable', f.loc(), ok, det, key=f'is_emptiable|{"choice" if choice else "other"}')
    ctx.explain('C01.f: XsdGroup.is_emptiable folded for model == choice and for the other models; the returned disjunction must consist '
                'of the three specified disjuncts with any() for a choice and all() otherwise.')


def rule_g(ctx: Ctx) -> None:
    """The visitor walks a sequence/choice group over *all* its particles, in order: the end-of-group bookkeeping of advance() recognises
    the end of one occurrence of the group by `item is self.group.content[-1]` and sums `self.group.content[k:]`, i.e. it assumes that the
    iterator of the group yields exactly `self.group.content`.  A filtered or reordered walk (e.g. skipping maxOccurs=0 particles) and
    that test disagree: the last particle is never reached, the occurrence of the group is never counted and the group restarts."""
    rule = 'C01.g'
    c = ctx.idx.cls('xmlschema.validators.models.ModelVisitor')
    ig = c.methods.get('iter_group')
    adv = c.methods.get('advance')
    if ig is None or adv is None:
        raise AnalysisError('missing anchor ModelVisitor.iter_group / advance')
    ctx.analysed(ig.qualname)
    ctx.analysed(adv.qualname)
    # what the bookkeeping assumes
    last = [x for x in ast.walk(adv.node) if isinstance(x, ast.Compare) and len(x.ops) == 1 and isinstance(x.ops[0], ast.Is)
            and text(x.comparators[0]) == 'self.group.content[-1]']
    ctx.floor(rule, 'end-of-occurrence tests `item is self.group.content[-1]` in advance()', len(last), 1)
    # what the walk yields for sequence / choice groups
    ys = [y for y in ast.walk(ig.node) if isinstance(y, (ast.YieldFrom, ast.Yield))]
    g = cfg_of(ctx, ig)
    n = 0
    for y in ys:
        own = g.owners(y)
        if not own:
            continue
        gs = guards(ctx, ig, own[0])
        if any(t.replace('"', "'") == "self.group.model == 'all'" and lab == 'T' for t, lab in gs):
            continue       # the all-group walk has its own bookkeeping (C01.b)
        n += 1
        ok = isinstance(y, ast.YieldFrom) and text(y.value) in ('self.group.content', 'iter(self.group.content)', 'self.group', 'iter(self.group)', 'self.group._group')
        ctx.ob(rule, 'ModelVisitor.iter_group walks every particle of a sequence/choice group, in order', ig.loc(y), ok,
               '' if ok else f'`{text(y)[:70]}` is not the content list that advance() indexes with [-1] and [k:]: when the last particle of a sequence is skipped (e.g. '
               'maxOccurs="0") the end of an occurrence is never recognised - (a, b{0,0}) rejects <a/> and (a?, b{0,0}) accepts a a a', key='ModelVisitor.iter_group|walk')
    ctx.floor(rule, 'walks of sequence/choice groups', n, 1)
    ctx.explain('C01.g: agreement of two cooperating sites - the iterable that iter_group yields for sequence/choice groups is `self.group.content` itself, the list whose last '
                'element and tail slices advance() uses to close an occurrence of the group.')


def rule_h(ctx: Ctx, rule: str = 'C01.h') -> None:
    """A model group has two occurrence counters, `occurs[g]` and `occurs[g.oid]`, and XsdGroup.is_missing() reads `occurs[self.oid] or
    occurs[self]`: the second one wins whenever it is not zero.  Entering a nested group for a new round therefore resets both; a reset of
    `occurs[g]` alone leaves the count of the previous round in `occurs[g.oid]` and the re-entered group is taken as already satisfied - a
    required child missing in the second repetition of (entry, (file | link))+ is not reported."""
    reader = ctx.idx.method('xmlschema.validators.groups.XsdGroup', 'is_missing')
    premise = 'occurs[self.oid] or occurs[self]' in text(reader.node)
    ctx.ob(rule, 'XsdGroup.is_missing reads occurs[self.oid] before occurs[self] (premise)', reader.loc(), premise, '', key='XsdGroup.is_missing|oid-first', nontrivial=False)
    n = 0
    for f in ctx.idx.iter_functions('validators.models'):
        if isinstance(f.node, ast.Lambda):
            continue
        g = None
        for x in walk_no_nested(f.node):
            if not (isinstance(x, ast.Assign) and isinstance(x.value, ast.Constant) and x.value.value == 0):
                continue
            tg = [text(t) for t in x.targets]
            plain = [t for t in tg if t.startswith('occurs[') and not t.endswith('.oid]')]
            if not plain:
                continue
            var = plain[0][len('occurs['):-1]
            if g is None:
                g = cfg_of(ctx, f)
            own = g.nodes_of(x)
            if not own:
                continue
            gs = guards(ctx, f, own[0])
            is_group = any(t in (f'isinstance({var}, groups.XsdGroup)', f'isinstance({var}, XsdGroup)') and lab == 'T' for t, lab in gs)
            if not is_group:
                continue
            n += 1
            ok = f'occurs[{var}.oid]' in tg
            ctx.ob(rule, f'{f.qualname.split(".", 2)[-1]}: entering the nested group `{var}` resets both of its occurrence counters', f.loc(x), ok,
                   '' if ok else f'`{text(x)}` leaves `occurs[{var}.oid]` at the count of the previous round: is_missing() then sees the re-entered group as satisfied and a missing '
                   'required child in a later repetition of the enclosing group goes unreported (the document is valid)', key=f'{f.qualname}|group-reset|{var}')
    ctx.floor(rule, 'resets of a nested group on entry', n, 1)
    ctx.explain(f'{rule}: every `occurs[g] = 0` under the guard isinstance(g, XsdGroup) also assigns `occurs[g.oid]` (chained targets), because the reader prefers the oid counter.')


def rule_i(ctx: Ctx) -> None:
    """XSD 1.1: an element particle that competes with a wildcard is given precedence (check_model registers it when is_overlap says so) and
    the wildcard then leaves the name - and the names of the members of the element's substitution group - to it.  The overlap test of
    element particles against wildcards and against each other is therefore part of the content-model language - C15.i body."""
    from .c15 import rule_i as overlap_siblings
    overlap_siblings(ctx, 'C01.i')


def rule_j(ctx: Ctx) -> None:
    """XSD 1.1: in an xs:all (or choice) group a wildcard and a sibling element that it also matches are both legal; the child belongs to the *element*.  That
    precedence is registered by check_model at schema build (add_precedence) on the branch that handles overlapping siblings - if the registration is skipped the
    wildcard swallows the element and a word of the model (`a b` for all(any, a)) is rejected.  C15.d body."""
    from .c15 import rule_d as precedence_registered
    precedence_registered(ctx, 'C01.j')


RULES = [rule_a, rule_b, rule_c, rule_d, rule_e, rule_f, rule_g, rule_h, rule_i, rule_j]
THOROUGH = [thorough_a]
