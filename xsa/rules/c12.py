"""C12 — resource access control (structural clauses).

C12.a who may open            C12.b access control precedes the first open
C12.c per-mode decision table  C12.d sandbox containment is segment-aware
C12.e settings reach every sub-resource
"""
from __future__ import annotations

import ast

from ..astutil import calls, get_arg, text, walk_no_nested
from ..index import AnalysisError, dotted
from ..modes import Evaluator, Unrecognised
from ..report import Ctx
from ..tables import literal_value
from .common import call_nodes, cfg_of, guards

RES = 'xmlschema.resources.xml_resource.XMLResource'

OPENERS = {'urllib.request.urlopen', 'urllib.request.urlretrieve', 'urllib.request.build_opener', 'io.open', 'os.open', 'os.fdopen',
           'codecs.open', 'open', 'builtins.open', 'socket.create_connection', 'http.client.HTTPConnection',
           'http.client.HTTPSConnection', 'ftplib.FTP', 'shutil.copyfile', 'shutil.copyfileobj'}
NET_MODULES = ('urllib.request', 'http.client', 'socket', 'ftplib', 'requests', 'httpx', 'urllib3', 'aiohttp')

# reviewed sites: (function qualname, callee text) -> reason
OPEN_SITES = {
    (f'{RES}.open.<locals>.open_url', 'urlopen'): 'the owner: every resource read goes through XMLResource.open',
    (f'{RES}.open.<locals>.open_url', 'self._opener.open'): 'the owner, with the user-supplied OpenerDirector',
    ('xmlschema.resources.fetchers.fetch_resource', 'urlopen'): 'stand-alone public helper (probes that a location is accessible); '
                                                                  'not called from anywhere in the package',
    ('xmlschema.cli.xml2json', 'open'): 'write mode: JSON output file named on the command line',
    ('xmlschema.cli.json2xml', 'open'): 'reads the JSON input file / writes the XML output file named on the command line (not an XML resource)',
    ('xmlschema.exports.save_sources', 'filepath.open'): 'write mode: export of already loaded sources',
    ('xmlschema.exports.save_sources', "target_path.joinpath('__init__.py').open"): 'write mode: export of already loaded sources',
    ('xmlschema.extras.codegen.AbstractGenerator.render_to_files', 'open'): 'write mode: generated code',
    ('xmlschema.documents.XmlDocument.write', 'open'): 'write mode: serialisation of a loaded document',
}


def rule_a(ctx: Ctx) -> None:
    rule = 'C12.a'
    idx = ctx.idx
    seen = 0
    for f in idx.iter_functions():
        if f.module.name.startswith('xmlschema.testing') or isinstance(f.node, ast.Lambda):
            continue
        for c in calls(f.node):
            callee = text(c.func)
            d = dotted(c.func)
            full = None
            if d is not None:
                full = idx.resolve_name(f.module, d)
                if full is None and d == 'open':
                    full = 'open'
            is_opener = full in OPENERS
            if isinstance(c.func, ast.Attribute) and c.func.attr in ('open', 'read_text', 'read_bytes', 'urlopen', 'urlretrieve') and not is_opener:
                # method-style open on any receiver (Path.open, OpenerDirector.open, resource.open is the owner API itself)
                recv = text(c.func.value)
                if c.func.attr == 'open' and (recv in ('self.resource', 'resource', 'self') or recv.endswith('resource')) and not c.args:
                    continue   # XMLResource.open(): the owner's own entry point
                is_opener = True
            if not is_opener:
                continue
            seen += 1
            key = (f.qualname, callee)
            ok = key in OPEN_SITES
            ctx.ob(rule, f'{f.qualname.split(".", 1)[-1]}: `{callee}(…)` is a reviewed open site', f.loc(c), ok,
                   OPEN_SITES.get(key, 'a file/URL is opened outside XMLResource.open and outside the reviewed write-mode sites: '
                                       'this read bypasses access_control'), key=f'{f.qualname}|open|{callee}')
            if ok and 'write mode' in OPEN_SITES[key] and callee == 'open' and f.qualname != 'xmlschema.cli.json2xml':
                mode = get_arg(c, 1, 'mode')
                okm = mode is not None and isinstance(mode, ast.Constant) and 'w' in str(mode.value)
                ctx.ob(rule, f'{f.qualname.split(".", 1)[-1]}: `{text(c)[:50]}` opens for writing', f.loc(c), okm, '', key=f'{f.qualname}|open-mode|{text(mode)}')
    ctx.floor(rule, 'open call sites in the package', seen, 8)
    # modules importing network machinery
    for m in idx.modules.values():
        if m.name.startswith('xmlschema.testing'):
            continue
        for local, target in m.imports.items():
            if any(target == n or target.startswith(n + '.') for n in NET_MODULES):
                name = target.split('.')[-1]
                allowed = (m.name in ('xmlschema.resources.xml_resource', 'xmlschema.resources.fetchers') and name in ('urlopen', 'OpenerDirector')) \
                    or name in ('OpenerDirector', 'pathname2url', 'url2pathname')
                if m.name == 'xmlschema.cli' and name == 'URLError':
                    allowed = True
                if name.endswith(('Error', 'Exception')) or name in ('InvalidURL', 'IncompleteRead'):
                    allowed = True      # an exception class opens nothing (needed to convert what the opener raises, C11.m)
                ctx.ob(rule, f'{m.name} imports {target}', f'{m.relpath}:1', allowed,
                       '' if allowed else 'network machinery imported outside the resource owner', key=f'{m.name}|import|{target}')
    # fetch_resource is not called from inside the package
    users = []
    for f in idx.iter_functions():
        for c in calls(f.node):
            d = dotted(c.func)
            if d and idx.resolve_name(f.module, d) == 'xmlschema.resources.fetchers.fetch_resource':
                users.append(f.qualname)
    ctx.ob(rule, 'fetch_resource (raw urlopen probe) is not called by the package itself', 'xmlschema/resources/fetchers.py:22', not users,
           '' if not users else f'called from {users}', key='fetch_resource|callers')
    ctx.explain('C12.a: who-may-open — every call that opens a file or URL (names resolved through the import tables) is '
                'either inside XMLResource.open or in the reviewed table of write-mode / command-line sites.')


def rule_b(ctx: Ctx) -> None:
    rule = 'C12.b'
    f = ctx.idx.func(f'{RES}.__init__')
    g = cfg_of(ctx, f)
    opens = [n for n, c in call_nodes(g, lambda c: text(c.func) in ('XMLResourceManager', 'self.open', 'self.load'))]
    opens += [n for n in g.nodes if n.kind == 'with' and 'XMLResourceManager(self)' in text(n.ast.items[0].context_expr)]
    ctx.floor(rule, 'open points in XMLResource.__init__', len(opens), 1)
    url_sets = [n for n in g.nodes if n.kind == 'stmt' and isinstance(n.ast, ast.Assign) and text(n.ast.targets[0]) == 'self.url']
    fp_sets = [n for n in g.nodes if n.kind == 'stmt' and isinstance(n.ast, ast.Assign) and text(n.ast.targets[0]) == 'self.fp']
    ac_url = [n for n, c in call_nodes(g, lambda c: text(c.func) == 'self.access_control' and c.args and text(c.args[0]) == 'self.url')]
    ac_fp = [n for n, c in call_nodes(g, lambda c: text(c.func) == 'self.access_control' and c.args and 'getattr(source' in text(c.args[0]))]
    ctx.floor(rule, 'self.url bindings', len(url_sets), 1)
    for u in url_sets:
        for o in opens:
            w = g.must_pass(u, [o], ac_url, kinds='nTF')
            ctx.ob(rule, 'from `self.url = …` every path to the first open passes access_control(self.url)', f.loc(u.ast), w is None and bool(ac_url),
                   '' if w is None else 'path: ' + ' -> '.join(f'{x.kind}@{x.lineno}' for x in w[:10]), key=f'{RES}.__init__|url|{o.kind}')
        ok = 'self.get_url(source)' in text(u.ast.value)
        ctx.ob(rule, 'the URL that is checked and later opened is the mapped, normalised one', f.loc(u.ast), ok, '', key=f'{RES}.__init__|url-normalised')
    for p in fp_sets:
        for o in opens:
            w = g.must_pass(p, [o], ac_fp, kinds='nTF')
            ctx.ob(rule, 'a file-like source with a url attribute passes access_control before it is read', f.loc(p.ast), w is None and bool(ac_fp), '',
                   key=f'{RES}.__init__|fp|{o.kind}')
    # the allow option is set before the check
    allow_sets = [n for n in g.nodes if n.kind == 'stmt' and isinstance(n.ast, ast.Assign) and text(n.ast.targets[0]) == 'self.allow']
    dom = g.dominators(kinds='nTF')
    ok = bool(allow_sets) and all(allow_sets[0] in dom[a] for a in ac_url + ac_fp)
    okv = bool(allow_sets) and text(allow_sets[0].ast.value) == 'allow'
    ctx.ob(rule, 'self.allow is assigned from the argument before any access check', f.loc(), ok and okv, '', key=f'{RES}.__init__|allow-first')
    # open() reads self.url (the checked one), not the raw source
    op = ctx.idx.func(f'{RES}.open')
    ou = [c for c in calls(op.node, name='open_url')]
    ok = bool(ou) and all(text(c.args[0]) == 'self.url' for c in ou)
    ctx.ob(rule, 'XMLResource.open opens self.url (the URL that passed access_control)', op.loc(), ok, '', key=f'{RES}.open|url')
    # url is not rebound elsewhere without a check
    for fn in ctx.idx.cls(RES).methods.values():
        if fn.name in ('__init__',):
            continue
        for s in walk_no_nested(fn.node):
            if isinstance(s, ast.Assign) and any(text(t) == 'self.url' for t in s.targets):
                ctx.ob(rule, f'XMLResource.{fn.name} rebinds self.url', fn.loc(s), False, 'url changed after the access check', key=f'{RES}.{fn.name}|url-rebind')
    ctx.explain('C12.b: in XMLResource.__init__ every path from the binding of self.url (or of a file object) to the first '
                'open passes access_control on that URL.')


def _atoms():
    return [
        ('url_none', lambda e: text(e) == 'url is None'),
        ('is_local', lambda e: text(e) in ('is_local_url(url)', 'is_local_scheme(urlsplit(url).scheme)')),
        ('is_remote', lambda e: text(e) == 'is_remote_url(url)'),
        # a locality predicate applied to something else than the URL being checked (cached scheme, self.url, base_url …) is an
        # atom of its own: the decision is then not a function of the checked location
        ('locality_of_something_else', lambda e: isinstance(e, ast.Call) and text(e.func) in ('is_local_url', 'is_remote_url', 'is_local_scheme')
         and not any(isinstance(x, ast.Name) and x.id == 'url' for a in e.args for x in ast.walk(a))),
        ('has_base', lambda e: text(e) in ('self._base_url is not None', 'self._base_url')),
        ('contained', lambda e: isinstance(e, ast.Call) and isinstance(e.func, ast.Attribute) and
         ((e.func.attr == 'startswith' and text(e.func.value) == 'url') or e.func.attr in ('is_relative_to',))),
    ]


SPEC = {
    'all': lambda a: False,
    'none': lambda a: not a['url_none'],
    'remote': lambda a: not a['url_none'] and a['is_local'],
    'local': lambda a: not a['url_none'] and a['is_remote'],
    'sandbox': lambda a: not a['url_none'] and (a['is_remote'] or (a['has_base'] and not a['contained'])),
}


def rule_c(ctx: Ctx) -> None:
    rule = 'C12.c'
    args = ctx.idx.module('arguments')
    modes = sorted(literal_value_frozenset(args, 'SECURITY_MODES'))
    f = ctx.idx.func(f'{RES}.access_control')
    ctx.analysed(f.qualname)
    ev = Evaluator('self._allow', _atoms())
    try:
        table = ev.table(f.node.body, modes)
    except Unrecognised as e:
        raise AnalysisError(f'{rule}: {e}')
    names = [n for n, _ in ev.atoms]
    for m in modes:
        if m not in SPEC:
            ctx.ob(rule, f"mode '{m}' of SECURITY_MODES has a specified decision", f.loc(), False,
                   'mode accepted by the option validator but unknown to the access-control specification table', key=f'mode|{m}|unspecified')
            continue
        bad = []
        for vals, (kind, val) in table[m].items():
            env = dict(zip(names, vals))
            raised = kind == 'raise'
            if raised and val != 'XMLResourceBlocked':
                bad.append((env, f'raises {val}'))
            elif raised != SPEC[m](env):
                bad.append((env, f'{"blocks" if raised else "admits"}, specification {"blocks" if SPEC[m](env) else "admits"}'))
        ctx.ob(rule, f"allow='{m}': access_control blocks exactly the specified class of locations ({len(table[m])} atom assignments)",
               f.loc(), not bad, '' if not bad else f'{len(bad)} assignment(s) differ, e.g. {_fmt(bad[0])}', key=f'mode|{m}|table')
    ctx.count(f'{rule}:decision table rows', sum(len(t) for t in table.values()))
    # is_local_url / is_remote_url are complementary on the same predicate
    u = ctx.idx.module('utils.urls')
    rl = u.functions.get('is_remote_url')
    lc = u.functions.get('is_local_url')
    if rl is None or lc is None:
        raise AnalysisError('missing anchor utils.urls.is_remote_url / is_local_url')
    r_ret = [text(r.value) for r in ast.walk(rl.node) if isinstance(r, ast.Return) and 'is_local_scheme' in text(r.value)]
    l_ret = [text(r.value) for r in ast.walk(lc.node) if isinstance(r, ast.Return) and 'is_local_scheme' in text(r.value)]
    ok = r_ret == ['not is_local_scheme(urlsplit(url).scheme)'] and l_ret == ['is_local_scheme(urlsplit(url).scheme)']
    ctx.ob(rule, 'is_remote_url and is_local_url decide on the same predicate is_local_scheme, one negated', rl.loc(), ok,
           '' if ok else f'{r_ret} / {l_ret}', key='urls|complement')
    ls = u.functions.get('is_local_scheme')
    ok = ls is not None and text([r for r in ast.walk(ls.node) if isinstance(r, ast.Return)][0].value) == \
        "not scheme or scheme == 'file' or (scheme in ascii_letters and len(scheme) == 1)"
    ctx.ob(rule, "is_local_scheme: empty, 'file' or a single drive letter", ls.loc() if ls else 'xmlschema/utils/urls.py:1', ok, '', key='urls|local-scheme')
    ctx.explain('C12.c: the if/elif chain of access_control is partially evaluated for every value of SECURITY_MODES over the '
                'atoms {url is None, is_local_url, is_remote_url, base set, contained}; the resulting blocking condition must '
                'equal the specification table.')


def _fmt(b):
    env, what = b
    return '{' + ', '.join(f'{k}={v}' for k, v in env.items()) + '} ' + what


def literal_value_frozenset(m, name):
    node = m.assigns.get(name)
    if node is None:
        raise AnalysisError(f'missing anchor {m.name}.{name}')
    if isinstance(node, ast.Call) and text(node.func) in ('frozenset', 'set', 'tuple') and node.args:
        node = node.args[0]
    try:
        return set(ast.literal_eval(node))
    except Exception:
        raise AnalysisError(f'{m.name}.{name} is not a literal')


def ends_with_separator(ctx: Ctx, f, g, node, e: ast.AST, depth=0) -> bool:
    """Is expression ``e`` (evaluated at cfg node ``node``) provably a string ending in '/'?"""
    if isinstance(e, ast.Constant) and isinstance(e.value, str):
        return e.value.endswith('/')
    if isinstance(e, ast.BinOp) and isinstance(e.op, ast.Add):
        return ends_with_separator(ctx, f, g, node, e.right, depth)
    if isinstance(e, ast.JoinedStr) and e.values:
        return ends_with_separator(ctx, f, g, node, e.values[-1], depth)
    if isinstance(e, ast.Call) and isinstance(e.func, ast.Attribute) and e.func.attr == 'join' and e.args:
        return False
    if isinstance(e, ast.Name) and depth < 3:
        rd = g.reaching_defs(kinds='nTF')
        defs = rd[node].get(e.id, set())
        if not defs:
            return False
        for d in defs:
            if d.ast is None or d is g.entry:
                return False
            if isinstance(d.ast, ast.AugAssign) and isinstance(d.ast.op, ast.Add):
                if not ends_with_separator(ctx, f, g, d, d.ast.value, depth + 1):
                    return False
                continue
            if isinstance(d.ast, ast.Assign):
                if ends_with_separator(ctx, f, g, d, d.ast.value, depth + 1):
                    continue
                # plain definition: fine if every path d -> node (without another def) crosses the edge on which
                # `<name>.endswith('/')` is known true
                others = {x for x in g.nodes if x is not d and e.id in __import__('xsa.cfg', fromlist=['defined_names']).defined_names(x)}
                seen = set()
                stack = [m for m, lab in g.succ[d] if lab in 'nTF']
                bad = False
                while stack:
                    x = stack.pop()
                    if x in seen or x in others:
                        continue
                    seen.add(x)
                    if x is node:
                        bad = True
                        break
                    for y, lab in g.succ[x]:
                        if lab not in 'nTF':
                            continue
                        if x.kind == 'if':
                            t = text(x.ast.test)
                            if (t == f"{e.id}.endswith('/')" and lab == 'T') or (t == f"not {e.id}.endswith('/')" and lab == 'F'):
                                continue
                        stack.append(y)
                if bad:
                    return False
                continue
            return False
        return True
    return False


def rule_d(ctx: Ctx) -> None:
    rule = 'C12.d'
    f = ctx.idx.func(f'{RES}.access_control')
    g = cfg_of(ctx, f)
    sites = call_nodes(g, lambda c: isinstance(c.func, ast.Attribute) and c.func.attr in ('startswith', 'is_relative_to') and
                       text(c.func.value) in ('url', 'path'))
    ctx.floor(rule, 'containment tests in access_control', len(sites), 1)
    for n, c in sites:
        if c.func.attr == 'is_relative_to':
            ok = True
            det = 'path ancestry'
        else:
            ok = bool(c.args) and ends_with_separator(ctx, f, g, n, c.args[0])
            det = '' if ok else f'`{text(c)}`: the prefix does not provably end with a path separator, so a sandbox at /base/sand also ' \
                                f'admits /base/sand_evil/… (sibling directory sharing the name prefix)'
        ctx.ob(rule, 'the sandbox containment test is segment-aware', f.loc(c), ok, det, key=f'{RES}.access_control|containment')
        gs = guards(ctx, f, n)
        ok2 = any("self._allow == 'sandbox'" in t and lab == 'T' for t, lab in gs)
        ctx.ob(rule, "the containment test belongs to the 'sandbox' mode", f.loc(c), ok2, '', key=f'{RES}.access_control|containment-mode')
        ok3 = 'normalize_url(self._base_url)' in text(f.node)
        ctx.ob(rule, 'the sandbox base is compared in normalised form', f.loc(c), ok3, '', key=f'{RES}.access_control|base-normalised')
    # sandbox without base_url: the base is the directory of the source
    init = ctx.idx.func(f'{RES}.__init__')
    src = text(init.node)
    from .common import bool_atoms as _atoms
    ok = any({"allow == 'sandbox'", 'base_url is None'} <= set(_atoms(t.test)) for t in ast.walk(init.node) if isinstance(t, ast.If)) \
        and 'base_url = os.path.dirname(normalize_url(source))' in src
    ctx.ob(rule, 'sandbox without base_url uses the directory of a local source, and refuses anything else', init.loc(), ok, '',
           key=f'{RES}.__init__|sandbox-default-base')
    ctx.explain('C12.d: the prefix operand of the sandbox startswith test must provably end with "/" (reaching definitions + the '
                '`if not base.endswith("/")` idiom) or the test must use path ancestry.')


# construction sites of XMLResource: how allow/defuse arrive
CONSTRUCTION = {
    'xmlschema.settings.ResourceSettings.get_xml_resource': 'forward',
    'xmlschema.settings.SchemaSettings.get_xml_resource': 'forward',
    'xmlschema.settings.SchemaSettings.get_schema_resource': 'forward',
    f'{RES}.subresource': 'forward-positional',
    f'{RES}.parse': 'rebuild from get_arguments()',
    'xmlschema.resources.fetchers.fetch_schema_locations': 'mixed',
    'xmlschema.resources.fetchers.fetch_namespaces': 'forward-positional',
    'xmlschema.dataobjects.DataElement.iter_errors': 'forward',
    'xmlschema.documents.get_context': 'kwargs filtered by RESOURCE_KWARGS',
}
CONSTRUCTION_EXEMPT = {
    'xmlschema.validators.schemas.XMLSchemaBase.encode': 'in-memory Element produced by the encoder itself: nothing is opened',
    'xmlschema.validators.schemas.XMLSchemaBase.iter_encode': 'in-memory Element produced by the encoder itself: nothing is opened',
    'xmlschema.exports.download_schemas': 'explicit download tool: the caller asks for remote fetches; defuse is forwarded',
}


def rule_e(ctx: Ctx) -> None:
    rule = 'C12.e'
    idx = ctx.idx
    n = 0
    for f in idx.iter_functions():
        if f.module.name.startswith('xmlschema.testing') or isinstance(f.node, ast.Lambda):
            continue
        for c in calls(f.node):
            d = dotted(c.func)
            if d is None:
                continue
            full = idx.resolve_name(f.module, d)
            if full != RES and d != 'self.__class__':
                continue
            if d == 'self.__class__' and (f.cls is None or f.cls.qualname != RES):
                continue
            n += 1
            q = f.qualname
            short = q.split('.', 1)[-1]
            kw = {k.arg: text(k.value) for k in c.keywords if k.arg}
            star = [text(k.value) for k in c.keywords if k.arg is None]
            pos = [text(a) for a in c.args]
            if q in CONSTRUCTION_EXEMPT:
                ctx.ob(rule, f'{short}: XMLResource construction is a reviewed exemption', f.loc(c), True, CONSTRUCTION_EXEMPT[q],
                       key=f'{q}|construct|exempt|{pos[:1]}', nontrivial=False)
                continue
            allow = kw.get('allow') or (pos[2] if len(pos) > 2 else None)
            defuse = kw.get('defuse') or (pos[3] if len(pos) > 3 else None)
            if star:
                # rebuilt from the arguments of an existing resource, or kwargs filtered from the caller's options
                src = text(f.node)
                ok = ('self.get_arguments()' in src and d == 'self.__class__') or 'RESOURCE_KWARGS' in src
                ctx.ob(rule, f'{short}: resource options are forwarded through **{star[0]}', f.loc(c), ok, '', key=f'{q}|construct|star')
                continue
            if q == 'xmlschema.resources.fetchers.fetch_schema_locations' and allow is None and pos[:1] == ['source']:
                # main source of fetch_schema_locations: documented "allow is applied to location hints only"
                ok = defuse in ('defuse',)
                ctx.ob(rule, f'{short}: the main source keeps defuse (allow applies to location hints only, as documented)', f.loc(c), ok, '',
                       key=f'{q}|construct|main-source')
                continue
            ok = allow is not None and allow.split('.')[-1].lstrip('_') == 'allow' and defuse is not None and defuse.split('.')[-1].lstrip('_') == 'defuse'
            ctx.ob(rule, f'{short}: XMLResource(…) receives allow and defuse from the settings / parent resource', f.loc(c), ok,
                   '' if ok else f'allow={allow}, defuse={defuse}: the new resource falls back to allow=\'all\', defuse=\'remote\'',
                   key=f'{q}|construct|{pos[:1] or kw.get("source")}')
    ctx.floor(rule, 'XMLResource construction sites', n, 10)
    # parse() rebuilds `self.__class__(**self.get_arguments())`: for a subclass (XmlDocument) the options are descriptors of the
    # *base* classes, so get_arguments has to look through the whole MRO
    ga = idx.cls(RES).find_method('get_arguments')
    if ga is None:
        raise AnalysisError(f'missing anchor {RES}.get_arguments')
    src = text(ga.node)
    subs = [c.name for c in idx.subclasses(idx.cls(RES), strict=True)]
    whole = '__mro__' in src or '.mro()' in src or 'dir(' in src or 'getmembers' in src
    own_only = ('__class__.__dict__' in src or 'type(self).__dict__' in src or 'vars(type(self))' in src or 'vars(self.__class__)' in src) and not whole
    ok = whole or not subs or not own_only
    if not (whole or own_only):
        raise AnalysisError(f'UNRECOGNISED-IDIOM {rule} at {ga.loc()}: how get_arguments enumerates the option descriptors')
    ctx.ob(rule, 'XMLResource.get_arguments collects the option descriptors of the whole class hierarchy (parse() rebuilds subclasses from them)', ga.loc(), ok,
           '' if ok else f'only the descriptors in the __dict__ of the instance\'s own class are collected: for {subs[0]} that excludes allow, defuse, base_url … - '
           f'{subs[0]}(…, allow=\'none\', defuse=\'always\').parse(other) loads the new source with allow=\'all\', defuse=\'remote\'', key='get_arguments|mro')
    # RESOURCE_KWARGS names allow and defuse
    doc = idx.module('documents')
    rk = doc.assigns.get('RESOURCE_KWARGS')
    s = text(rk) if rk is not None else ''
    if rk is None:
        rk_src = [text(v) for k, v in doc.assigns.items() if k == 'RESOURCE_KWARGS']
    ok = rk is not None
    if ok and not ("'allow'" in s and "'defuse'" in s):
        # derived from the fields of the ResourceSettings dataclass
        ok = 'ResourceSettings' in s
        if ok:
            rs = idx.cls('xmlschema.settings.ResourceSettings')
            ok = rs.find_attr('allow') is not None and rs.find_attr('defuse') is not None
    ctx.ob(rule, 'documents.RESOURCE_KWARGS covers allow and defuse', f'{doc.relpath}:{getattr(rk, "lineno", 0)}', ok, s[:80], key='RESOURCE_KWARGS')
    # included / imported schemas share the maps, hence the settings
    ld = idx.func('xmlschema.loaders.SchemaLoader.load_schema')
    cs = [c for c in calls(ld.node) if text(c.func) == 'self.schema_class']
    ok = bool(cs) and all({k.arg: text(k.value) for k in c.keywords}.get('global_maps') == 'self.maps' for c in cs)
    ctx.ob(rule, 'SchemaLoader.load_schema builds included/imported schemas on the same global maps', ld.loc(), ok, '', key='load_schema|maps')
    init = idx.func('xmlschema.validators.schemas.XMLSchemaBase.__init__')
    src = text(init.node)
    ok = 'settings = global_maps.settings' in src and 'settings.get_schema_resource(source, base_url)' in src
    ctx.ob(rule, 'a schema built on existing maps takes its settings (allow, defuse, …) from them and loads its source through them', init.loc(), ok, '',
           key='XMLSchemaBase.__init__|settings')
    ctx.explain('C12.e: every construction site of XMLResource forwards allow/defuse from the settings or the parent resource, '
                'or is a reviewed exemption; included/imported schemas share the global maps and their settings.')


def rule_f(ctx: Ctx, rule: str = 'C12.f') -> None:
    """The URL that access_control prefix-tests has no dot segments: every local-path exit of normalize_url
    serialises a *normalised* path (`….normalize().as_uri()` / `.as_posix()`)."""
    f = ctx.idx.func('xmlschema.utils.urls.normalize_url')
    ctx.analysed(f.qualname)
    n = 0
    for e in ast.walk(f.node):
        if isinstance(e, ast.Call) and isinstance(e.func, ast.Attribute) and e.func.attr in ('as_uri', 'as_posix'):
            n += 1
            recv = e.func.value
            ok = isinstance(recv, ast.Call) and isinstance(recv.func, ast.Attribute) and recv.func.attr == 'normalize'
            ctx.ob(rule, f'normalize_url: `{text(e)[:60]}` serialises a path whose dot segments were removed', f.loc(e), ok,
                   '' if ok else 'the path is serialised without .normalize(): `<sandbox>/../outside/x.xsd` keeps its `..` and still '
                   'starts with the sandbox prefix; and `dir/sub/../t.xsd` and `dir/t.xsd` are two URLs for one file, so the already-loaded test '
                   '(a comparison of normalised URLs) loads the document twice and its globals collide', key=f'normalize_url|normalized|{text(e)[:60]}')
    ctx.floor(rule, 'path serialisations in normalize_url', n, 8)
    # LocationPath.normalize collapses '..' (os.path.normpath semantics)
    lp = ctx.idx.cls('xmlschema.utils.paths.LocationPath')
    m = lp.find_method('normalize')
    ok = m is not None and 'normpath' in text(m.node)
    ctx.ob(rule, 'LocationPath.normalize removes dot segments (normpath)', m.loc() if m else f'{lp.module.relpath}:{lp.node.lineno}', ok, '', key='LocationPath.normalize')
    # get_url (what __init__ checks and open() opens) goes through normalize_url
    gu = ctx.idx.func(f'{RES}.get_url')
    rets = [text(r.value) for r in ast.walk(gu.node) if isinstance(r, ast.Return)]
    ok = rets == ['normalize_url(uri, self._base_url)']
    ctx.ob(rule, 'XMLResource.get_url returns the normalised URL', gu.loc(), ok, f'{rets}', key='get_url|normalize')
    ctx.explain(f'{rule}: every local-path return of normalize_url serialises `.normalize()`d paths, so the URL that the sandbox '
                'prefix test sees has no `..` segments.')


def rule_g(ctx: Ctx, rule: str = 'C12.g') -> None:
    """The base URL of the referencing schema travels with every location down to the constructor of the child schema: a
    function on the fetch chain that owns a base URL (its own `base_url` parameter, or the referencing schema as a parameter)
    hands it to the next function of the chain.  Without it the child resource falls back to the settings' base URL or, under
    'sandbox', to the directory of the location itself - every location is then inside "its" sandbox."""
    idx = ctx.idx
    loader = idx.cls('xmlschema.loaders.SchemaLoader')
    schema = idx.cls('xmlschema.validators.schemas.XMLSchemaBase')
    # fetch chain: functions with a base_url parameter that reach `self.schema_class(…base_url…)`
    chain: dict[str, list] = {}
    ls = loader.find_method('load_schema')
    if ls is None or 'base_url' not in ls.params:
        raise AnalysisError('missing anchor SchemaLoader.load_schema(…, base_url, …)')
    sc = [c for c in calls(ls.node) if text(c.func) == 'self.schema_class']
    kw = [get_arg(c, None, 'base_url') for c in sc]

    def own_first(k):
        # `base_url`, or `base_url or <fallback>`: the base of the referencing document wins over any configured default
        if isinstance(k, ast.Name):
            return k.id == 'base_url'
        if isinstance(k, ast.BoolOp) and isinstance(k.op, ast.Or):
            return isinstance(k.values[0], ast.Name) and k.values[0].id == 'base_url'
        if isinstance(k, ast.IfExp):
            return isinstance(k.body, ast.Name) and k.body.id == 'base_url' and 'base_url' in text(k.test)
        return False
    ok = bool(sc) and all(k is not None and own_first(k) for k in kw)
    ctx.ob(rule, 'SchemaLoader.load_schema builds the child schema with the base URL it was given', ls.loc(sc[0]) if sc else ls.loc(), ok,
           '' if ok else f'schema_class(…) gets base_url={text(kw[0]) if kw and kw[0] is not None else None}: the base of the referencing document must come '
           'first - otherwise a configured base_url (or none) decides where relative schemaLocations of nested includes resolve and what the sandbox is',
           key='load_schema|schema_class|base_url')
    chain['load_schema'] = [ls]
    changed = True
    while changed:
        changed = False
        for c in list(idx.subclasses(loader)) + list(idx.subclasses(schema)):
            for name, m in c.methods.items():
                if isinstance(m.node, ast.Lambda) or 'base_url' not in m.params or m in chain.get(name, []):
                    continue
                if any(isinstance(k.func, ast.Attribute) and k.func.attr in chain for k in calls(m.node)):
                    chain.setdefault(name, []).append(m)
                    changed = True
    ctx.floor(rule, 'functions on the schema fetch chain', sum(len(v) for v in chain.values()), 6)

    def callee_for(f, c):
        recv = text(c.func.value)
        cands = chain[c.func.attr]
        if recv == 'self' and f.cls is not None:
            m = f.cls.find_method(c.func.attr)
            return m if m in cands else None
        if recv == 'super()' and f.cls is not None:
            for k in f.cls.mro()[1:]:
                if c.func.attr in k.methods:
                    return k.methods[c.func.attr] if k.methods[c.func.attr] in cands else None
            return None
        if recv.endswith('loader'):
            return next((m for m in cands if m.cls is loader), None) or next((m for m in cands if m.cls is not None and loader in m.cls.mro()), None)
        return next((m for m in cands if m.cls is not None and schema in m.cls.mro()), None)

    n = 0
    for f in idx.iter_functions():
        if isinstance(f.node, ast.Lambda) or f.module.name.startswith('xmlschema.testing'):
            continue
        own = 'base_url' in f.params
        sparams = [p for p in f.params if p in ('schema', 'target_schema')]
        if not own and not sparams:
            continue
        # locals bound to the base URL of the referencing schema
        derived = {'base_url'} if own else set()
        for st in walk_no_nested(f.node):
            if isinstance(st, ast.Assign) and len(st.targets) == 1 and isinstance(st.targets[0], ast.Name) \
                    and text(st.value) in [f'{p}.base_url' for p in sparams]:
                derived.add(st.targets[0].id)
        for c in calls(f.node):
            if not (isinstance(c.func, ast.Attribute) and c.func.attr in chain):
                continue
            m = callee_for(f, c)
            if m is None:
                continue
            ctx.analysed(f.qualname)
            ps = [p for p in m.params if p not in ('self', 'cls')]
            a = get_arg(c, ps.index('base_url'), 'base_url')
            n += 1
            good = a is not None and (any(isinstance(x, ast.Name) and x.id in derived for x in ast.walk(a))
                                      or any(text(x) in [f'{p}.base_url' for p in sparams] for x in ast.walk(a)))
            ctx.ob(rule, f'{f.qualname.split(".", 1)[-1]}: `{text(c.func)}(…)` is given the base URL of the referencing schema', f.loc(c), good,
                   '' if good else f'base_url argument: {text(a) if a is not None else "not passed"} - the location is loaded with the fallback base '
                   '(settings.base_url, else the directory of the location itself): with allow=\'sandbox\' an import of any local path is "inside" '
                   'its own sandbox', key=f'{f.qualname}|forward|{c.func.attr}')
    ctx.floor(rule, 'base_url forwarding call sites on the fetch chain', n, 7)
    ctx.explain(f'{rule}: fixed point of the methods of SchemaLoader/XMLSchemaBase that take base_url and reach '
                'schema_class(base_url=…); every call of a chain member from a function owning a base URL must forward it.')


def rule_h(ctx: Ctx, rule: str = 'C12.h') -> None:
    """The module-level API builds the instance resource and fetches the schema named by its location hints from the *same*
    options: the function that splits the keyword arguments must leave them in place for the second consumer."""
    idx = ctx.idx
    doc = idx.module('documents')
    f = doc.functions.get('get_context')
    if f is None:
        raise AnalysisError('missing anchor xmlschema.documents.get_context')
    ctx.analysed(f.qualname)
    muts = [c for c in calls(f.node) if isinstance(c.func, ast.Attribute) and text(c.func.value) == 'kwargs' and c.func.attr in ('pop', 'popitem', 'clear', 'update', 'setdefault')]
    dels = [s for s in ast.walk(f.node) if isinstance(s, ast.Delete) and any(text(t).startswith('kwargs[') for t in s.targets)]
    ok = not muts and not dels
    ctx.ob(rule, 'get_context: the keyword arguments are filtered twice (resource options, schema options) and never consumed', f.loc(muts[0]) if muts else f.loc(), ok,
           '' if ok else f'`{text(muts[0])[:50] if muts else text(dels[0])[:50]}` removes options before the schema-option filter runs: the schema named by the instance\'s '
           'xsi:schemaLocation is fetched with allow=\'all\' although the caller passed allow=\'none\'/\'sandbox\', and parsed with defuse=\'remote\' although the '
           'caller passed defuse=\'always\'', key='get_context|kwargs-not-consumed')
    # both filters exist and the schema filter covers the access options
    filt = sorted({x.id for n in ast.walk(f.node) if isinstance(n, ast.DictComp) for g in n.generators for part in [g.iter, *g.ifs]
                   for x in ast.walk(part) if isinstance(x, ast.Name) and x.id.endswith('_KWARGS')})
    ok = 'RESOURCE_KWARGS' in filt and 'SCHEMA_KWARGS' in filt
    ctx.ob(rule, 'get_context: one filter for the instance resource, one for the schema', f.loc(), ok, f'{filt}', key='get_context|two-filters', nontrivial=False)
    ss = idx.cls('xmlschema.settings.SchemaSettings')
    need = ('allow', 'defuse', 'base_url', 'timeout')
    ok = all(ss.find_attr(a) is not None for a in need)
    ctx.ob(rule, 'SchemaSettings (source of SCHEMA_KWARGS) carries allow, defuse, base_url and timeout', f'{ss.module.relpath}:{ss.node.lineno}', ok, '',
           key='SchemaSettings|access-options')
    ctx.explain(f'{rule}: documents.get_context never mutates **kwargs between its two option filters; the schema-side filter covers the access options.')


QUOTERS = ('quote', 'quote_plus', 'quote_from_bytes', 'query_quote')


def _const_strings(f, e: ast.AST, depth: int = 0):
    """the constant strings an expression can evaluate to (constants, conditional expressions, single-assignment locals); None when unknown."""
    if isinstance(e, ast.Constant) and isinstance(e.value, str):
        return [e.value]
    if isinstance(e, ast.IfExp):
        a, b = _const_strings(f, e.body, depth), _const_strings(f, e.orelse, depth)
        return None if a is None or b is None else a + b
    if isinstance(e, ast.Name) and depth < 3:
        defs = [x.value for x in ast.walk(f.node) if isinstance(x, ast.Assign) and len(x.targets) == 1 and text(x.targets[0]) == e.id]
        out = []
        for d in defs:
            r = _const_strings(f, d, depth + 1)
            if r is None:
                return None
            out += r
        return out or None
    return None


def rule_i(ctx: Ctx) -> None:
    """The location that is checked is the location that is opened: the sandbox/allow test compares the *text* of the normalised URL,
    the opener percent-decodes it once more.  A quoting step that declares '%' safe lets an already encoded sequence through, so
    `%252e%252e` survives normalisation as `%2e%2e` and reaches the file system as `..`."""
    rule = 'C12.i'
    n = 0
    for mod in ('utils.paths', 'utils.urls'):
        for f in ctx.idx.iter_functions(mod):
            if isinstance(f.node, ast.Lambda):
                continue
            for c in calls(f.node):
                d = text(c.func).split('.')[-1]
                if d not in QUOTERS:
                    continue
                n += 1
                safe = next((k.value for k in c.keywords if k.arg == 'safe'), c.args[1] if len(c.args) > 1 else None)
                vals = [] if safe is None else _const_strings(f, safe)
                ok = vals is not None and all('%' not in v for v in vals)
                ctx.ob(rule, f'{f.qualname.split(".", 2)[-1]}: `{text(c)[:60]}` escapes the percent sign', f.loc(c), ok,
                       '' if ok else (f'safe={vals!r} keeps "%": a double-encoded `..` (%252e%252e) in an include/redefine location is normalised to the literal segment %2e%2e, '
                                      'passes the textual sandbox test and is decoded to `..` by the opener - a file outside the sandbox is loaded' if vals is not None
                                      else f'the safe set `{text(safe)}` is not a constant'), key=f'{f.qualname}|quote|{d}|{text(c.args[0])[:30] if c.args else ""}')
    ctx.floor(rule, 'percent-encoding calls in the URL/path utilities', n, 8)
    # LocationPath: decoded once on the way in, encoded once on the way out
    c = ctx.idx.cls('xmlschema.utils.paths.LocationPath')
    f = c.methods['from_uri']
    rets = [r for r in ast.walk(f.node) if isinstance(r, ast.Return) and r.value is not None]
    bad = []
    for r in rets:
        un = [x for x in ast.walk(r.value) if isinstance(x, ast.Call) and text(x.func) in ('unquote', 'unquote_plus')]
        direct = len(un) == 1 and not any(isinstance(y, ast.Call) and text(y.func) in ('unquote', 'unquote_plus') for a in un[0].args for y in ast.walk(a))
        via = isinstance(r.value, ast.Name)      # a path object built (and decoded) just before, checked where it is built
        if not (direct or via):
            bad.append(r)
    locs = [x for x in ast.walk(f.node) if isinstance(x, ast.Assign) and isinstance(x.value, ast.Call) and 'Path' in text(x.value.func)]
    for x in locs:
        un = [y for y in ast.walk(x.value) if isinstance(y, ast.Call) and text(y.func) in ('unquote', 'unquote_plus')]
        if len(un) != 1:
            bad.append(x)
    ctx.ob(rule, 'LocationPath.from_uri: every path it builds is percent-decoded exactly once', f.loc(bad[0]) if bad else f.loc(), bool(rets) and not bad,
           '' if not bad else f'`{text(bad[0])[:70]}`', key='LocationPath.from_uri|unquote-once')
    f = c.methods['as_uri']
    rets = [r for r in ast.walk(f.node) if isinstance(r, ast.Return) and r.value is not None]
    ok = bool(rets) and all(any(isinstance(x, ast.Call) and text(x.func).split('.')[-1] in QUOTERS for x in ast.walk(r.value)) for r in rets)
    ctx.ob(rule, 'LocationPath.as_uri: every URI it returns is percent-encoded', f.loc(), ok, '', key='LocationPath.as_uri|quote')
    ctx.explain('C12.i: no percent-encoding call of xmlschema/utils/paths.py and urls.py has "%" in its safe set (constants followed through conditional expressions and '
                'single-assignment locals); LocationPath decodes once in from_uri and encodes in as_uri.')


LOADS = {'load_schema': 2, 'include_schema': None, 'import_schema': None}   # position of base_url resolved from the callee's own signature
SANDBOX_EXEMPT = {
    'xmlschema.validators.schemas.XMLSchemaBase.create_meta_schema': 'meta-schema: absolute locations inside the package, built with its own settings',
}


def rule_j(ctx: Ctx) -> None:
    """One sandbox per schema set.  XMLResource(allow='sandbox') without a base URL takes the directory of the file it is about to open
    as the sandbox base, so a sub-resource loaded without a base URL - or with the base URL of the XML instance - is its own sandbox.
    Every call that loads a further schema into existing maps passes a base URL from the schema side."""
    rule = 'C12.j'
    idx = ctx.idx
    # premise: the fallback exists (otherwise a missing base URL would be harmless)
    init = idx.func(f'{RES}.__init__')
    src = text(init.node)
    from .common import bool_atoms as _atoms
    premise = any({"allow == 'sandbox'", 'base_url is None'} <= set(_atoms(t.test)) for t in ast.walk(init.node) if isinstance(t, ast.If)) \
        and 'os.path.dirname(normalize_url(source))' in src
    ctx.ob(rule, 'XMLResource.__init__: sandbox without base_url falls back to the directory of the source (premise of this rule)', init.loc(), premise, '',
           key='XMLResource.__init__|sandbox-fallback', nontrivial=False)
    n = 0
    for f in idx.iter_functions():
        if isinstance(f.node, ast.Lambda) or f.module.name.startswith(('xmlschema.testing', 'xmlschema.extras')):
            continue
        for c in calls(f.node):
            if not (isinstance(c.func, ast.Attribute) and c.func.attr in LOADS):
                continue
            recv = text(c.func.value)
            # resolve the callee to read the position of base_url from its signature
            cands = [m for cls_ in idx.classes.values() for nm_, m in cls_.methods.items() if nm_ == c.func.attr]
            if 'loader' in recv or (f.cls is not None and 'Loader' in f.cls.name and recv == 'self'):
                cands = [m for m in cands if 'Loader' in m.cls.name] or cands
            else:
                cands = [m for m in cands if 'Loader' not in m.cls.name] or cands
            if not cands:
                continue
            params = [p for p in cands[0].params if p != 'self']
            if 'base_url' not in params:
                continue
            n += 1
            pos = params.index('base_url')
            arg = next((k.value for k in c.keywords if k.arg == 'base_url'), c.args[pos] if len(c.args) > pos else None)
            q = f.qualname
            short = q.split('.', 2)[-1]
            if q in SANDBOX_EXEMPT:
                ctx.ob(rule, f'{short}: `{text(c)[:50]}` is a reviewed exemption', f.loc(c), True, SANDBOX_EXEMPT[q], key=f'{q}|load|exempt|{c.func.attr}', nontrivial=False)
                continue
            if arg is None:
                ok, det = False, 'no base URL: with allow=\'sandbox\' the fetched file becomes its own sandbox base, e.g. a `locations` entry outside the sandbox, blocked at ' \
                                 'build time, is loaded when a lax wildcard meets its namespace during validation'
            else:
                t = text(arg)
                instance_side = 'context.source' in t or t.split('.')[0] in ('resource', 'xml_resource', 'source', 'obj', 'elem')
                passthrough = t == 'base_url' and 'base_url' in f.params
                schema_side = t.endswith('base_url') and not instance_side
                ok = (passthrough or schema_side) and not instance_side
                det = '' if ok else (f'`{t}` is the base URL of the XML instance: a location hint in an instance outside the sandbox loads a schema next to that instance'
                                     if instance_side else f'`{t}` is not a schema-side base URL')
            ctx.ob(rule, f'{short}: `{recv}.{c.func.attr}(…)` fetches inside the sandbox of the schema set', f.loc(c), ok, det, key=f'{q}|load|{c.func.attr}|{recv}')
    ctx.floor(rule, 'calls loading a further schema into existing maps', n, 10)
    # the package-level API: a schema named by a location hint of the document is probed and built with the base URL of the document when the
    # caller gives none (otherwise, again, the hinted file is its own sandbox)
    for q, callee, arg in (('xmlschema.resources.fetchers.fetch_schema_locations', 'XMLResource', 'location'), ('xmlschema.documents.get_resource_schema', 'cls', 'schema_location')):
        f = idx.func(q)
        ctx.analysed(q)
        g = cfg_of(ctx, f)
        sites = [(nd, c) for nd, c in call_nodes(g, lambda c: text(c.func) == callee and c.args and text(c.args[0]) == arg)]
        dom = g.dominators(kinds='nTF')
        for nd, c in sites:
            n += 1
            fills = [x for x in g.nodes if x.kind == 'if' and 'base_url' in text(x.ast.test) and 'is None' in text(x.ast.test)
                     and any(isinstance(y, ast.Assign) and 'base_url' in text(y.targets[0]) and text(y.value).endswith('.base_url') for s_ in x.ast.body for y in ast.walk(s_))
                     and x in dom[nd]]
            ok = bool(fills)
            ctx.ob(rule, f'{q.split(".")[-1]}: `{callee}({arg}, …)` gets the base URL of the XML document when the caller gave none', f.loc(c), ok,
                   '' if ok else 'with allow=\'sandbox\' and no base_url the hinted schema is opened with base None and becomes its own sandbox base: '
                   'xmlschema.is_valid(\'/sandbox/doc.xml\', allow=\'sandbox\') with xsi:noNamespaceSchemaLocation="/outside/evil.xsd" loads that file', key=f'{q}|hint-base')
    # a blocked on-demand location is skipped, like a blocked import
    ln = idx.func('xmlschema.loaders.SchemaLoader.load_namespace')
    hs = [h for t in ast.walk(ln.node) if isinstance(t, ast.Try) for h in t.handlers]
    ok = bool(hs) and all({'XMLResourceBlocked', 'OSError'} <= {text(e).split('.')[-1] for e in (h.type.elts if isinstance(h.type, ast.Tuple) else [h.type])} for h in hs if h.type is not None)
    ctx.ob(rule, 'SchemaLoader.load_namespace records a blocked location as missing', ln.loc(), ok, '', key='load_namespace|blocked-is-missing')
    ctx.explain('C12.j: who-passes-what at every load_schema / include_schema / import_schema call (base_url position read from the callee signature): a function parameter passed '
                'through, or an expression ending in .base_url rooted in a schema / the maps - never absent, never rooted in the validation context or an XML resource.')


def rule_k(ctx: Ctx) -> None:
    """Location hints extend the maps of the validating schema only: `self.maps.namespaces` also lists the schemas of the meta-schema
    (shared by every schema of the process, built with their own settings: allow='all'); such a schema must never be the receiver of
    include_schema()."""
    rule = 'C12.k'
    from .common import iteration_requires
    n = 0
    for cq in ('xmlschema.validators.elements.XsdElement', 'xmlschema.validators.elements.Xsd11Element'):
        c = ctx.idx.cls(cq)
        f = c.methods.get('check_dynamic_context')
        if f is None:
            raise AnalysisError(f'missing anchor {cq}.check_dynamic_context')
        ctx.analysed(f.qualname)
        g = cfg_of(ctx, f)
        loops = [x for x in g.nodes if x.kind == 'for' and 'iter_schema_location_hints' in text(x.ast.iter)]
        if len(loops) != 1:
            raise AnalysisError(f'{rule}: expected one loop over the location hints in {f.qualname}')
        lp = loops[0]
        own = set()
        for x in g.nodes:
            if x.kind != 'if':
                continue
            e, neg = x.ast.test, False
            while isinstance(e, ast.UnaryOp) and isinstance(e.op, ast.Not):
                e, neg = e.operand, not neg
            t = text(e)
            if 'maps is not self.maps' in t and t.startswith('any('):
                own.add((x, 'T' if neg else 'F'))
            elif 'maps is self.maps' in t and t.startswith('all('):
                own.add((x, 'F' if neg else 'T'))
        for nd, cl in call_nodes(g, lambda cl: isinstance(cl.func, ast.Attribute) and cl.func.attr in ('include_schema', 'import_schema')):
            n += 1
            ok = bool(own) and iteration_requires(g, lp, nd, own)
            ctx.ob(rule, f'{c.name}.check_dynamic_context: `{text(cl)[:60]}` is reached only for a namespace whose schemas all belong to self.maps', f.loc(cl), ok,
                   '' if ok else 'the receiver may be a schema of the meta-schema: a hint `http://www.w3.org/XML/1998/namespace /any/file.xsd` is fetched with the meta-schema\'s '
                   'settings (allow=\'all\' even if the user\'s schema says \'none\') and registered in the maps shared by every schema of the process',
                   key=f'{c.name}.check_dynamic_context|own-maps|{cl.func.attr}')
    ctx.floor(rule, 'loads triggered by location hints', n, 4)
    ctx.explain('C12.k: within one iteration over the hints, include_schema/import_schema lie behind the edge on which every schema registered for the namespace has '
                '`maps is self.maps` (edge-cut reachability).')


def rule_l(ctx: Ctx) -> None:
    """A sandbox always has a base.  access_control() applies the containment test only when `self._base_url is not None`, so the sandbox
    mode is effective only because XMLResource.__init__ never lets allow='sandbox' through without a base URL: whatever the kind of the
    source, a missing base URL is either derived from the (local) source or refused."""
    rule = 'C12.l'
    from .common import atom_forces, bool_atoms
    f = ctx.idx.func(f'{RES}.__init__')
    ctx.analysed(f.qualname)
    g = cfg_of(ctx, f)
    SB, NB = "allow == 'sandbox'", 'base_url is None'
    tests = [x for x in g.nodes if x.kind == 'if' and {SB, NB} <= set(bool_atoms(x.ast.test))]
    ctx.floor(rule, 'sandbox-without-base tests in XMLResource.__init__', len(tests), 1)
    for x in tests:
        atoms = bool_atoms(x.ast.test)
        import itertools
        from .common import bool_eval
        free = [a for a in atoms if a not in (SB, NB)]
        hole = None
        for bits in itertools.product((False, True), repeat=len(free)):
            env = {SB: True, NB: True}
            env.update(zip(free, bits))
            if not bool_eval(x.ast.test, env):
                hole = [f'`{a}` is {b}' for a, b in zip(free, bits)]
                break
        ok = hole is None
        ctx.ob(rule, 'XMLResource.__init__: allow=\'sandbox\' without a base URL is handled for every kind of source', f.loc(x.ast), ok,
               '' if ok else f'the guard is skipped when {"; ".join(hole)}: the resource is created with _base_url=None, access_control() then applies no containment test and every '
               'included / imported location becomes its own sandbox - a main schema given as open file, StringIO or parsed tree loads /outside/evil.xsd', key='XMLResource.__init__|sandbox-needs-base|guard')
        # under the guard: raise, or give base_url a value
        starts = [m for m, lab in g.succ[x] if lab == 'T']
        sets = [n_ for n_ in g.nodes if n_.kind == 'stmt' and isinstance(n_.ast, ast.Assign) and any(text(t) == 'base_url' for t in n_.ast.targets)]
        join = [m for m, lab in g.succ[x] if lab == 'F']
        from .common import reach_cut
        seen = reach_cut(g, starts, set(), avoid=sets, kinds='nTF')
        leak = any(j in seen for j in join)
        ctx.ob(rule, 'XMLResource.__init__: under that guard the constructor raises or derives a base URL', f.loc(x.ast), bool(sets) and not leak, '',
               key='XMLResource.__init__|sandbox-needs-base|derive-or-raise')
    # the reader of the invariant
    ac = ctx.idx.func(f'{RES}.access_control')
    relies = any("self._allow == 'sandbox'" in text(t.test) and 'self._base_url is not None' in text(t.test) for t in ast.walk(ac.node) if isinstance(t, ast.If))
    ctx.ob(rule, 'access_control applies the containment test only with a base URL (the reader of the invariant)', ac.loc(), relies, '', key='access_control|needs-base', nontrivial=False)
    ctx.explain('C12.l: truth table of the sandbox-without-base guard of XMLResource.__init__ (with allow == \'sandbox\' and base_url is None fixed true the test holds for every '
                'value of its other atoms); its true branch raises or assigns base_url on every path.')


def rule_m(ctx: Ctx) -> None:
    """A location hint found in an instance is *resolved* against the instance (that is where a relative hint points) but the schema it names is *admitted*
    against the base of the schema set: the sandbox is the schema's, not the directory of whatever document is being validated.  In both implementations of
    check_dynamic_context the base handed to include_schema / import_schema is the validator's, never one derived from the instance resource."""
    rule = 'C12.m'
    n = 0
    for cq in ('xmlschema.validators.elements.XsdElement', 'xmlschema.validators.elements.Xsd11Element'):
        c = ctx.idx.cls(cq)
        f = c.methods.get('check_dynamic_context')
        if f is None:
            raise AnalysisError(f'missing anchor {cq}.check_dynamic_context')
        ctx.analysed(f.qualname)
        for cl in calls(f.node):
            if not (isinstance(cl.func, ast.Attribute) and cl.func.attr in ('include_schema', 'import_schema')):
                continue
            n += 1
            pos = 1 if cl.func.attr == 'include_schema' else 2
            arg = cl.args[pos] if len(cl.args) > pos else next((k.value for k in cl.keywords if k.arg == 'base_url'), None)
            src = text(arg) if arg is not None else ''
            if isinstance(arg, ast.Name):
                defs = [text(s_.value) for s_ in ast.walk(f.node) if isinstance(s_, ast.Assign) and len(s_.targets) == 1 and text(s_.targets[0]) == arg.id]
                src = ' | '.join(defs) or src
            ok = arg is not None and 'context.source' not in src and 'elem' not in src and ('validator.base_url' in src or 'self.schema.base_url' in src or 'settings.base_url' in src)
            ctx.ob(rule, f'{c.name}.check_dynamic_context: `{text(cl)[:60]}` admits the hinted schema against the base of the schema set', f.loc(cl), ok,
                   '' if ok else f'the base is `{src or "missing"}`: with allow=\'sandbox\' a hint on an element of an instance that lies outside the schema\'s directory is checked against the '
                   'instance\'s own directory - the schema it names is loaded from outside the sandbox', key=f'{f.qualname}|hint-base|{cl.func.attr}')
    ctx.floor(rule, 'include_schema / import_schema calls for location hints', n, 4)
    ctx.explain('C12.m: the base_url argument of the include_schema / import_schema calls in XsdElement.check_dynamic_context and Xsd11Element.check_dynamic_context is the validator\'s '
                'base URL (directly or through a single-assignment local), not an expression over context.source.')


RULES = [rule_a, rule_b, rule_c, rule_d, rule_e, rule_f, rule_g, rule_h, rule_i, rule_j, rule_k, rule_l, rule_m]
