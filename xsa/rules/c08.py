"""C08 — identity constraints (structural clauses).

C08.a only complete tuples enter a key reference / uniqueness table
C08.b ID/IDREF table: writer and reader agree
C08.c the end-of-document and end-of-scope checks run
C08.d counters report on the second occurrence; dangling references are all yielded
"""
from __future__ import annotations

import ast

from ..astutil import calls, find_relations, text, walk_no_nested
from ..index import AnalysisError
from ..report import Ctx
from .c04 import reference_check
from .common import call_nodes, cfg_of, guards, is_reporter_call, reporter_calls

ELEM = 'xmlschema.validators.elements.XsdElement'
IDN = 'xmlschema.validators.identities'

def _gen_test(e: ast.AST, fn: str, var: str, is_none: bool) -> bool:
    """``fn(x is [not] None for x in var)``"""
    if not (isinstance(e, ast.Call) and text(e.func) == fn and len(e.args) == 1 and isinstance(e.args[0], (ast.GeneratorExp, ast.ListComp))):
        return False
    ge = e.args[0]
    if len(ge.generators) != 1 or text(ge.generators[0].iter) != var or ge.generators[0].ifs:
        return False
    c = ge.elt
    return isinstance(c, ast.Compare) and len(c.ops) == 1 and isinstance(c.comparators[0], ast.Constant) \
        and c.comparators[0].value is None and text(c.left) == text(ge.generators[0].target) \
        and isinstance(c.ops[0], ast.Is if is_none else ast.IsNot)


def _has_none(e: ast.AST, var: str):
    """True: e ⇔ 'var contains None'; False: e ⇔ 'var contains no None'; None: neither."""
    neg = False
    while isinstance(e, ast.UnaryOp) and isinstance(e.op, ast.Not):
        neg = not neg
        e = e.operand
    r = None
    if isinstance(e, ast.Compare) and len(e.ops) == 1 and isinstance(e.left, ast.Constant) and e.left.value is None \
            and text(e.comparators[0]) == var:
        r = True if isinstance(e.ops[0], ast.In) else False if isinstance(e.ops[0], ast.NotIn) else None
    elif _gen_test(e, 'any', var, True):
        r = True
    elif _gen_test(e, 'all', var, False):
        r = False
    if r is None:
        return None
    return (not r) if neg else r


def complete_tuple_guard(test: ast.AST, lab: str, var: str, scope: str = '') -> bool:
    """Does taking branch ``lab`` of ``test`` imply that ``var`` holds no None (for identities matching ``scope``)?

    Accepted idioms: all(x is not None for x in T) / None not in T / not any(x is None for x in T) on the true
    branch (possibly as a conjunct); their negations on the false branch (possibly conjoined with the scope test
    ``isinstance(identity, XsdKeyref)``: "if keyref and None in T: continue")."""
    e = test
    if lab == 'T':
        conj = e.values if isinstance(e, ast.BoolOp) and isinstance(e.op, ast.And) else [e]
        return any(_has_none(c, var) is False for c in conj)
    # false branch of a conjunction: some conjunct is false; sound only if every other conjunct is the scope test
    conj = e.values if isinstance(e, ast.BoolOp) and isinstance(e.op, ast.And) else [e]
    none_c = [c for c in conj if _has_none(c, var) is True]
    others = [c for c in conj if _has_none(c, var) is not True]
    if len(none_c) != 1:
        return False
    return all(text(o) == scope for o in others)


def rule_a(ctx: Ctx) -> None:
    rule = 'C08.a'
    f = ctx.idx.func(f'{ELEM}.collect_key_fields')
    g = cfg_of(ctx, f)
    incs = call_nodes(g, lambda c: text(c.func) == 'counter.increase')
    ctx.floor(rule, 'counter.increase call in collect_key_fields', len(incs), 1)
    cd = g.control_dependence(kinds='nTFx')
    for n, c in incs:
        var = text(c.args[0]) if c.args else '?'
        ok = False
        for b, lab in cd[n]:
            if b.kind == 'if' and complete_tuple_guard(b.ast.test, lab, var, 'isinstance(identity, XsdKeyref)'):
                ok = True
        gs = guards(ctx, f, n)
        ctx.ob(rule, f'a key-reference tuple with a missing (None) field never enters the reference table: path condition of '
                     f'counter.increase({var})', f.loc(c), ok,
               '' if ok else f'no None-exclusion test on `{var}` among {sorted(t for t, l in gs if var in t)}: a tuple like (\'1\', None) '
               f'is recorded and then reported as dangling although not all of its fields are present',
               key=f'{ELEM}.collect_key_fields|none-guard')
        # the tuple is built from every field selector of the identity
        rd = g.reaching_defs()
        defs = rd[n].get(var, set())
        ok2 = bool(defs) and all(d.ast is not None and 'get_value(' in text(d.ast) and 'for s in selectors' in text(d.ast) for d in defs)
        ctx.ob(rule, 'the tuple holds one value per field selector', f.loc(c), ok2, '', key=f'{ELEM}.collect_key_fields|tuple')
    # scope clause: only nodes selected by the constraint's selector within the scope element are counted
    loops = [x for x in g.nodes if x.kind == 'for' and text(x.ast.iter) == 'self.selected_by']
    tests = [x for x in g.nodes if x.kind == 'if' and text(x.ast.test).replace(' ', '') in ('objnotincounter.elements', 'not(objincounter.elements)')]
    for n, c in incs:
        ok = bool(loops) and bool(tests)
        if ok:
            body = [m for m, lab in g.succ[loops[0]] if lab == 'T']
            for b in body:
                ok = ok and g.must_pass(b, [n], tests, kinds='nTFi') is None
            ok = ok and any((text(t.ast.test), 'F') in guards(ctx, f, n) for t in tests)
            cont = [s_ for t in tests for s_ in t.ast.body]
            ok = ok and all(isinstance(s_, ast.Continue) for s_ in cont)
        ctx.ob(rule, 'only elements selected by the identity selector within the scope element take part: every path of an iteration '
                     'to counter.increase passes the membership test `obj not in counter.elements`', f.loc(c), ok,
               '' if ok else 'a path reaches counter.increase without the selector membership test: elements that share the declaration '
               'but are not selected (e.g. nested deeper) enter the key table', key=f'{ELEM}.collect_key_fields|selector-membership')
    sel = [x for x in g.nodes if x.kind == 'stmt' and isinstance(x.ast, ast.Assign) and text(x.ast.targets[0]) == 'counter.elements']
    ok = bool(sel) and all('identity.selector.token.select_results(xpath_context)' in text(x.ast.value) for x in sel) and \
        any('context.source.get_xpath_node(counter.elem)' in text(s_) for s_ in walk_no_nested(f.node) if isinstance(s_, ast.Assign))
    ctx.ob(rule, 'the selected set is computed by the selector from the scope element (counter.elem)', f.loc(), ok, '', key=f'{ELEM}.collect_key_fields|selector-root')
    ctx.explain('C08.a: the path condition (transitive control dependence) of counter.increase(fields) must contain a '
                'None-exclusion test on the whole tuple, at least for key references.')


def rule_b(ctx: Ctx) -> None:
    rule = 'C08.b'
    f = ctx.idx.func('xmlschema.validators.simple_types.XsdAtomicBuiltin.raw_decode')
    g = cfg_of(ctx, f)
    writes = [n for n in g.nodes if n.kind == 'stmt' and isinstance(n.ast, ast.Assign)
              and text(n.ast.targets[0]).startswith('context.id_map[')]
    ctx.floor(rule, 'writes to context.id_map in XsdAtomicBuiltin.raw_decode', len(writes), 2)
    for n in g.nodes:
        if n.kind == 'stmt' and isinstance(n.ast, (ast.AugAssign, ast.Delete)) and 'context.id_map' in text(n.ast):
            ctx.ob(rule, 'only the constants 0 and 1 are stored in the ID table', f.loc(n.ast), False, f'`{text(n.ast)}`', key=f'id_map|write|{text(n.ast)}')
    for w in writes:
        v = text(w.ast.value)
        gs = guards(ctx, f, w)
        if v == '0':
            ok = ('self.name == nm.XSD_IDREF', 'T') in gs and ('obj not in context.id_map', 'T') in gs
            ctx.ob(rule, 'a reference marks its value 0 (referenced, not yet defined) only when the value is unseen', f.loc(w.ast), ok,
                   '' if ok else f'guards {sorted(gs)}', key='id_map|write0')
        elif v == '1':
            ok = ('not context.id_map[obj]', 'T') in gs and ('self.name == nm.XSD_IDREF', 'F') in gs
            ctx.ob(rule, 'a definition marks its value 1 only if it was not defined before', f.loc(w.ast), ok,
                   '' if ok else f'guards {sorted(gs)}', key=f'id_map|write1|{("context.id_list is None", "T") in gs}')
        else:
            ctx.ob(rule, 'only the constants 0 and 1 are stored in the ID table', f.loc(w.ast), False, f'stores `{v}`', key=f'id_map|write|{v}')
    # a second definition is reported: for each test `not context.id_map[obj]`, the false continuation reports a duplicate
    tests = [n for n in g.nodes if n.kind == 'if' and text(n.ast.test) == 'not context.id_map[obj]']
    ctx.floor(rule, 'tests `not context.id_map[obj]`', len(tests), 2)
    for t in tests:
        fnodes = g.reachable(start_edges=[(t, 'F')], starts=[], kinds='nTF')
        orelse_nodes = set()
        for s in t.ast.orelse:
            for sub in ast.walk(s):
                orelse_nodes.update(g.nodes_of(sub))
        reps = [c for n in orelse_nodes for e in n.exprs for c in reporter_calls(e)]
        ok = bool(reps)
        # the report must not be further restricted except by the XSD 1.1 same-element rule
        det = ''
        if ok:
            rn = [n for n, c in call_nodes(g, is_reporter_call) if n in orelse_nodes]
            for r in rn:
                extra = {(x, l) for x, l in guards(ctx, f, r) if (x, l) not in guards(ctx, f, t) and x != text(t.ast.test)}
                allowed = {("obj not in context.id_list or self.xsd_version == '1.0'", 'T')}
                if not extra <= allowed:
                    ok = False
                    det = f'duplicate report additionally guarded by {sorted(extra - allowed)}'
        ctx.ob(rule, 'a second definition of the same ID is reported', f.loc(t.ast), ok, det or ('' if ok else 'no report on the already-defined branch'),
               key=f'id_map|duplicate|{("context.id_list is None", "T") in guards(ctx, f, t)}')
    # reader: exactly the 0 entries are dangling
    r = ctx.idx.func('xmlschema.validators.schemas.XMLSchemaBase._validate_references')
    gr = cfg_of(ctx, r)
    loops = [n for n in gr.nodes if n.kind == 'for' and text(n.ast.iter) == 'context.id_map.items()']
    ok = False
    if loops:
        k, v = [text(e) for e in loops[0].ast.target.elts]
        rels = find_relations(loops[0].ast, lambda s: s == v, lambda s: s == '0')
        ok = len(rels) == 1 and rels[0][1] == '=='
    ctx.ob(rule, 'the end-of-document check reports exactly the entries whose value is 0', r.loc(), ok, '', key='id_map|reader')
    # the table is per context and reset by clear()
    cl = ctx.idx.func('xmlschema.validators.validation.ValidationContext.clear')
    ok = any(text(c.func) == 'self.id_map.clear' for c in calls(cl.node))
    ctx.ob(rule, 'ValidationContext.clear() resets the ID table', cl.loc(), ok, '', key='id_map|clear')
    ctx.explain('C08.b: writer (XsdAtomicBuiltin.raw_decode) stores only 0/1 under the stated guards and reports a second '
                'definition; reader (_validate_references) reports exactly the 0 entries.')


def rule_c(ctx: Ctx) -> None:
    rule = 'C08.c'
    reference_check(ctx, rule)
    f = ctx.idx.func(f'{ELEM}.raw_decode')
    g = cfg_of(ctx, f)
    loops = [n for n in g.nodes if n.kind == 'for' and 'iter_errors(context.identities)' in text(n.ast.iter)]
    ctx.ob(rule, 'XsdElement.raw_decode checks its key references at scope exit', f.loc(), bool(loops),
           '' if loops else 'no loop over counter.iter_errors(context.identities)', key=f'{ELEM}.raw_decode|keyref-exit-present')
    for lp in loops:
        reps = [c for s in lp.ast.body for c in reporter_calls(s)]
        gs = guards(ctx, f, lp)
        ok = bool(reps) and all(text(c.args[0]) == 'validation' and text(c.args[2]) == text(lp.ast.target) for c in reps) \
            and ('isinstance(identity, XsdKeyref)', 'T') in gs and ('for identity in self.identities', 'T') in gs
        ctx.ob(rule, 'at scope exit every dangling key reference of every keyref of the element is reported', f.loc(lp.ast), ok,
               '' if ok else f'guards {sorted(gs)}', key=f'{ELEM}.raw_decode|keyref-exit')
    # identities get a fresh/reset counter at scope entry
    ent = [n for n in g.nodes if n.kind == 'for' and text(n.ast.iter) == 'self.identities']
    ok = any(any(text(c.func).endswith('.reset') for s in n.ast.body for c in calls(s)) and
             any('get_counter(obj)' in text(s) for s in n.ast.body) for n in ent)
    ctx.ob(rule, 'at scope entry every identity of the element gets a reset or new counter bound to the scope element', f.loc(), ok, '',
           key=f'{ELEM}.raw_decode|scope-entry')
    ctx.explain('C08.c: same must-pass-through rule as C04.d plus presence and guards of the scope-exit keyref check.')


def rule_d(ctx: Ctx) -> None:
    rule = 'C08.d'
    f = ctx.idx.func(f'{IDN}.IdentityCounter.increase')
    g = cfg_of(ctx, f)
    p = [x for x in f.params if x != 'self'][0]
    incs = [n for n in g.nodes if n.kind == 'stmt' and isinstance(n.ast, ast.AugAssign) and text(n.ast.target) == f'self.counter[{p}]'
            and isinstance(n.ast.op, ast.Add) and text(n.ast.value) == '1']
    rz = [n for n in g.nodes if n.kind == 'raise']
    ok = len(incs) == 1 and len(rz) == 1
    det = ''
    if ok:
        rels = find_relations(f.node, lambda s: s == f'self.counter[{p}]', lambda s: s in ('1', '2'))
        ok = len(rels) == 1
        if ok:
            node, rel = rels[0]
            k = text(node).rsplit(' ', 1)[-1].strip(')')
            ok = (rel, k) in (('==', '2'), ('>', '1'), ('>=', '2'))
            det = '' if ok else f'raises when count {rel} {k}'
            dom = g.dominators(kinds='nTF')
            ok = ok and incs[0] in dom[rz[0]]
    ctx.ob(rule, 'IdentityCounter.increase counts the tuple and raises on its second occurrence', f.loc(), ok, det, key='IdentityCounter.increase')
    ok = bool(rz) and 'XMLSchemaValueError' in text(rz[0].ast.exc) if rz else False
    ctx.ob(rule, 'a duplicate is signalled with XMLSchemaValueError (caught and reported by collect_key_fields)', f.loc(), ok, '', key='IdentityCounter.increase|exc')
    # the caller reports it
    ck = ctx.idx.func(f'{ELEM}.collect_key_fields')
    gk = cfg_of(ctx, ck)
    for n, c in call_nodes(gk, lambda c: text(c.func) == 'counter.increase'):
        hs = [m for m, lab in gk.succ[n] if lab == 'i' and m.kind == 'handler']
        ok = bool(hs) and any('ValueError' in text(h.ast.type) for h in hs) and \
            all(any(True for s in h.ast.body for _ in reporter_calls(s)) for h in hs)
        ctx.ob(rule, 'collect_key_fields reports the duplicate raised by increase()', ck.loc(c), ok, '', key='collect_key_fields|dup-report')
    for n, c in call_nodes(gk, lambda c: isinstance(c.func, ast.Attribute) and c.func.attr == 'get_value'):
        hs = [m for m, lab in gk.succ[n] if lab == 'i' and m.kind == 'handler']
        names = {x for h in hs for x in text(h.ast.type).strip('()').replace(' ', '').split(',')}
        ok = bool(hs) and 'XMLSchemaValueError' in names and all(any(True for s in h.ast.body for _ in reporter_calls(s)) for h in hs)
        ctx.ob(rule, 'collect_key_fields reports a missing key field raised by get_value()', ck.loc(c), ok, '', key='collect_key_fields|missing-report')
    # get_value raises for a key field without value
    gv = ctx.idx.func(f'{IDN}.FieldValueSelector.get_value')
    gg = cfg_of(ctx, gv)
    hit = False
    for r in gg.nodes:
        if r.kind == 'raise' and 'missing key field' in text(r.ast) or (r.kind == 'raise' and any(s.kind == 'stmt' and 'missing key field' in text(s.ast) for s, _ in gg.pred[r])):
            gs = guards(ctx, gv, r)
            if any(t == 'case None' and lab == 'T' for t, lab in gs) and any('isinstance(self.field.parent, XsdKey)' in t for t, lab in gs):
                hit = True
    ctx.ob(rule, 'FieldValueSelector.get_value raises for a key whose field selects nothing', gv.loc(), hit, '', key='get_value|missing-key')
    # keyref errors: everything not in the referenced table is yielded
    ke = ctx.idx.func(f'{IDN}.KeyrefCounter.iter_errors')
    gke = cfg_of(ctx, ke)
    loops = [n for n in gke.nodes if n.kind == 'for' and 'self.counter' in text(n.ast.iter)]
    ok = len(loops) == 1 and 'not in refer_values' in text(loops[0].ast.iter)
    det = ''
    if ok:
        lp = loops[0]
        conts = [n for n in gke.nodes if n.kind == 'continue']
        for cn in conts:
            gs = {t for t, lab in guards(ctx, ke, cn) if lab == 'T' and not t.startswith('for ')}
            if gs != {'len(v) == 1 and v[0] in refer_values'}:
                ok = False
                det = f'a dangling tuple is skipped under {sorted(gs)}'
        ys = [n for n in gke.stmt_nodes() if n.kind == 'stmt' and any(isinstance(x, ast.Yield) for x in ast.walk(n.ast))]
        # every path through the loop body yields or takes the single-value alias exit
        body_entry = [m for m, lab in gke.succ[lp] if lab == 'T']
        for b in body_entry:
            w = gke.must_pass(b, [lp], set(ys) | set(conts), kinds='nTF')
            if w is not None:
                ok = False
                det = 'a path through the loop body yields nothing'
    ctx.ob(rule, 'KeyrefCounter.iter_errors yields an error for every recorded tuple absent from the referenced table', ke.loc(), ok, det,
           key='KeyrefCounter.iter_errors')
    rv = [s for s in walk_no_nested(ke.node) if isinstance(s, ast.Assign) and text(s.targets[0]) == 'refer_values']
    ok = len(rv) == 1 and text(rv[0].value) == 'identities[self.refer].counter'
    ctx.ob(rule, 'the referenced table is the counter of the referred key in the current scope map', ke.loc(), ok, '', key='KeyrefCounter.iter_errors|refer')
    ctx.explain('C08.d: increase() raises exactly on the second occurrence and the caller reports it; a missing key field is '
                'raised and reported; iter_errors yields every tuple absent from the referenced key table.')


def rule_e(ctx: Ctx) -> None:
    from .common import context_copy_shares
    context_copy_shares(ctx, 'C08.e', ('id_map', 'identities'))
    ctx.explain('C08.e: the ID table and the identity counters are document-wide: a copied context shares them.')


def rule_f(ctx: Ctx, rule: str = 'C08.f') -> None:
    """QName field values are expanded with the in-scope namespaces of the selected element: typestate {own, descendant} of the
    converter's xmlns scope over XsdElement.raw_decode — 'descendant' after any decode that may walk children, 'own' after
    set_xmlns_context(obj, level); collect_key_fields (and the converter hand-off) must run in state 'own' on every path."""
    f = ctx.idx.func(f'{ELEM}.raw_decode')
    g = cfg_of(ctx, f)

    def descends(n) -> bool:
        for e in n.exprs:
            for c in calls(e):
                if isinstance(c.func, ast.Attribute) and c.func.attr == 'raw_decode' and text(c.func.value) not in ('attribute_group', 'xsd_attribute'):
                    return True
        return False

    def owns(n) -> bool:
        for e in n.exprs:
            for c in calls(e):
                if text(c.func) == 'context.converter.set_xmlns_context' and [text(a) for a in c.args] == ['obj', 'context.level']:
                    return True
        return False
    stale = {n: False for n in g.nodes}
    stale[g.entry] = True      # the scope of the previously processed sibling may still be active
    work = list(g.nodes)
    while work:
        n = work.pop()
        out = stale[n]
        if owns(n):
            out = False
        if descends(n):
            out = True
        for m, lab in g.succ[n]:
            if lab in 'nTFxi' and out and not stale[m]:
                stale[m] = True
                work.append(m)
    users = call_nodes(g, lambda c: text(c.func) in ('self.collect_key_fields', 'context.converter.element_decode', 'self.maps.get_instance_type'))
    ctx.floor(rule, 'namespace-sensitive steps in XsdElement.raw_decode', len(users), 3)
    for n, c in users:
        ok = not stale[n]
        ctx.ob(rule, f'XsdElement.raw_decode: `{text(c.func)}(…)` runs with the element\'s own namespace scope (descendant scopes purged)', f.loc(c), ok,
               '' if ok else 'on some path the xmlns scope of a descendant (or of the previous sibling) is still active: a QName field value or '
               'xsi:type prefix is expanded with the wrong binding', key=f'{ELEM}.raw_decode|xmlns-scope|{text(c.func)}')
    ckf = ctx.idx.func(f'{ELEM}.collect_key_fields')
    ok = 'context.namespaces' in text(ckf.node)
    ctx.ob(rule, 'collect_key_fields expands field values with the context namespaces', ckf.loc(), ok, '', key=f'{ELEM}.collect_key_fields|namespaces', nontrivial=False)
    ctx.explain(f'{rule}: typestate of the converter xmlns scope over the CFG of XsdElement.raw_decode.')


def rule_g(ctx: Ctx) -> None:
    """A field that is present has its own value, the empty string included; the declared default/fixed value stands in only for a
    field that is absent (so '' is a key value like any other and is not taken for a missing field)."""
    rule = 'C08.g'
    f = ctx.idx.method('xmlschema.validators.identities.FieldValueSelector', 'get_value')
    ctx.analysed(f.qualname)
    g = cfg_of(ctx, f)
    fb = [n for n in g.nodes if n.kind == 'stmt' and isinstance(n.ast, ast.Assign) and text(n.ast.targets[0]) == 'value'
          and 'self.value_constraints.get(' in text(n.ast.value)]
    ctx.floor(rule, 'fallbacks to the declared value constraint in FieldValueSelector.get_value', len(fb), 2)
    for n in fb:
        gs = guards(ctx, f, n)
        direct = [t for t, lab in gs if lab == 'T' and ('value' in t.split() or t.startswith('value ') or t == 'empty' or 'value is None' in t)]
        ok = any(t in ('value is None', 'empty') for t in direct) and not any((' or ' in t or '==' in t or t.startswith('not value')) for t in direct)
        ctx.ob(rule, f'FieldValueSelector.get_value: `{text(n.ast)[:50]}` stands in for an absent field only', f.loc(n.ast), ok,
               '' if ok else f'fallback under {direct[:2]}: a field that is present with an empty (or otherwise falsy) value is replaced by the constraint - without a '
               'constraint it becomes None, a "missing key field" error for a valid document, and empty-string duplicates or dangling references pass',
               key=f'get_value|fallback|{text(n.ast)[:40]}')
    ctx.explain('C08.g: the path condition of the fallback `value = self.value_constraints.get(…)` is exactly the absence test '
                '(`value is None` / `empty`).')


def rule_h(ctx: Ctx) -> None:
    """Field values are compared in the value space of the declared type.  The selector asks the type predicates of XsdType which
    value space that is; each of them decides by derivation from the built-in (a complex type with simple content and attributes has
    xs:anyType as root type, so a test on the root type misses it)."""
    rule = 'C08.h'
    c = ctx.idx.cls('xmlschema.validators.xsdbase.XsdType')
    want = {'is_key': 'nm.XSD_ID', 'is_qname': 'nm.XSD_QNAME', 'is_notation': 'nm.XSD_NOTATION_TYPE', 'is_decimal': 'nm.XSD_DECIMAL', 'is_boolean': 'nm.XSD_BOOLEAN'}
    n = 0
    for name, const in want.items():
        f = c.methods.get(name)
        if f is None:
            raise AnalysisError(f'missing anchor XsdType.{name}')
        ctx.analysed(f.qualname)
        rets = [text(r.value) for r in ast.walk(f.node) if isinstance(r, ast.Return) and r.value is not None]
        n += 1
        ok = rets == [f'self.is_derived(self.maps.types[{const}])']
        ctx.ob(rule, f'XsdType.{name} decides by derivation from {const.split("_", 1)[-1].lower()}', f.loc(), ok,
               '' if ok else f'returns {rets}: for a complex type with simple content derived from the built-in *and* attributes the answer is no longer true - key fields '
               'of such a type are compared through XPath typed values (every non-empty boolean lexical is True: false == true)', key=f'XsdType.{name}|by-derivation')
    gv = ctx.idx.method('xmlschema.validators.identities.FieldValueSelector', 'get_value')
    ok = any(isinstance(cl.func, ast.Attribute) and cl.func.attr == 'is_boolean' for cl in calls(gv.node)) and \
        any(isinstance(cl.func, ast.Attribute) and cl.func.attr == 'is_qname' for cl in calls(gv.node))
    ctx.ob(rule, 'FieldValueSelector.get_value consults is_qname() and is_boolean() before it falls back to the XPath typed value', gv.loc(), ok, '', key='get_value|predicates',
           nontrivial=False)
    ctx.floor(rule, 'type predicates by derivation', n, 5)
    ctx.explain('C08.h: sibling agreement of the five XsdType predicates on `self.is_derived(self.maps.types[<builtin>])`.')


def rule_i(ctx: Ctx) -> None:
    """Save/restore pairs on the validation context hit the same object.  `saved = context.A; context.A = new … context.A = saved`
    restores the caller's state only while the name `context` still denotes the caller's object: if `context` is rebound to a copy in
    between, the restore lands on the copy and the caller keeps the callee's value (for A = id_list: the xs:ID list of a child)."""
    rule = 'C08.i'
    n = 0
    for f in ctx.idx.iter_functions('validators'):
        if isinstance(f.node, ast.Lambda) or 'context' not in f.params:
            continue
        saves = {}
        for x in walk_no_nested(f.node):
            if isinstance(x, ast.Assign) and len(x.targets) == 1 and isinstance(x.targets[0], ast.Name) and isinstance(x.value, ast.Attribute) \
                    and text(x.value.value) == 'context':
                saves.setdefault((x.targets[0].id, x.value.attr), []).append(x)
        if not saves:
            continue
        g = None
        for (var, attr), ss in saves.items():
            restores = [x for x in walk_no_nested(f.node) if isinstance(x, ast.Assign) and len(x.targets) == 1 and text(x.targets[0]) == f'context.{attr}'
                        and isinstance(x.value, ast.Name) and x.value.id == var]
            swaps = [x for x in walk_no_nested(f.node) if isinstance(x, ast.Assign) and len(x.targets) == 1 and text(x.targets[0]) == f'context.{attr}'
                     and not (isinstance(x.value, ast.Name) and x.value.id == var)]
            if not restores or not swaps:
                continue
            if g is None:
                g = cfg_of(ctx, f)
                rd = g.reaching_defs(kinds='nTF')
            ctx.analysed(f.qualname)
            for r in restores:
                n += 1
                rn = g.nodes_of(r)[0]
                sn = g.nodes_of(ss[0])[0]
                before, after = rd[sn].get('context', set()), rd[rn].get('context', set())
                extra = [d for d in after - before if d.ast is not None]
                ok = True
                det = ''
                for d in extra:
                    # the rebinding is fine when the old object is restored through another name bound to it just before
                    olds = [x for x in walk_no_nested(f.node) if isinstance(x, ast.Assign) and len(x.targets) == 1 and isinstance(x.targets[0], ast.Name)
                            and isinstance(x.value, ast.Name) and x.value.id == 'context' and x.lineno < d.lineno]
                    fixed = any(isinstance(y, ast.Assign) and len(y.targets) == 1 and text(y.targets[0]) == f'{o.targets[0].id}.{attr}' and isinstance(y.value, ast.Name)
                                and y.value.id == var for o in olds for y in walk_no_nested(f.node))
                    if not fixed:
                        ok = False
                        det = (f'`context` is rebound at line {d.lineno} (`{text(d.ast)[:40]}`) between `{var} = context.{attr}` (line {ss[0].lineno}) and the restore: the saved value is '
                               f'written to the copy and the caller keeps the callee\'s {attr} - XSD 1.1: <e id="a" inh="x"/> with an inheritable attribute followed by a sibling '
                               '<g>a</g> of type xs:ID: the duplicate is not reported')
                ctx.ob(rule, f'{f.qualname.split(".", 2)[-1]}: `context.{attr} = {var}` (line {r.lineno}) restores the object that was saved from', f.loc(r), ok, det,
                       key=f'{f.qualname}|save-restore|{attr}|{var}')
    ctx.floor(rule, 'save/restore pairs on the validation context', n, 2)
    ctx.explain('C08.i: reaching definitions of the name `context` at the save and at the restore of every `v = context.A … context.A = v` pair; a rebinding in between must '
                'be compensated by a restore through an alias of the old object.')


def rule_j(ctx: Ctx) -> None:
    """The elements a constraint selects are found in two passes - the selector walked over the content model of the declaring element,
    then the leaf names of the selector looked up among the global elements (that is how members of a substitution group and globals
    admitted by a wildcard are bound).  The second pass is not an alternative to the first: with a union selector `product|special` the
    first pass binds `product` and only the second binds the substitute `special`.  Both passes lie on every normal path."""
    rule = 'C08.j'
    f = ctx.idx.method('xmlschema.validators.identities.XsdIdentity', 'update_elements')
    ctx.analysed(f.qualname)
    g = cfg_of(ctx, f)
    p1 = [x for x in g.nodes if x.kind == 'for' and 'select_results' in text(x.ast.iter)]
    p2 = [x for x in g.nodes if x.kind == 'for' and 'iter_leaf_elements' in text(x.ast.iter)]
    if len(p1) != 1 or len(p2) != 1:
        raise AnalysisError(f'UNRECOGNISED-IDIOM {rule}: the two passes of {f.qualname}')
    w = g.must_pass(p1[0], [g.exit], p2, kinds='nTF')
    ok = w is None
    ctx.ob(rule, 'XsdIdentity.update_elements: after the walk over the content model the lookup of the selector\'s leaf names among the global elements always follows',
           f.loc(p2[0].ast), ok,
           '' if ok else f'the function can return at line {w[-2].lineno if len(w) > 1 else w[-1].lineno} between the two passes: for a selector `product|special` where `special` is a '
           'substitute reachable only globally, the instances of `special` are not bound to the constraint - duplicate keys among them are accepted, a keyref to them is '
           'reported dangling', key='XsdIdentity.update_elements|both-passes')
    # both passes register an element the same way (sibling blocks): the table entry and the back reference
    regs = []
    for lp in (p1[0], p2[0]):
        body = ' ## '.join(text(s_) for s_ in ast.walk(lp.ast) if isinstance(s_, (ast.Assign, ast.Expr)))
        regs.append(('self.elements[e] =' in body, 'e.selected_by.add(self)' in body))
    ctx.ob(rule, 'XsdIdentity.update_elements: both passes register the element in self.elements and in e.selected_by', f.loc(p1[0].ast), regs[0] == regs[1] == (True, True), f'{regs}',
           key='XsdIdentity.update_elements|register-alike')
    ctx.explain('C08.j: must-pass-through from the first pass (loop over select_results) to the exit through the second pass (loop over iter_leaf_elements); the two registration '
                'blocks agree.')


def rule_k(ctx: Ctx) -> None:
    """An absent attribute with a default or fixed value has that value, an absent *element* has no value at all (a default fills an
    empty element, never a missing one).  The `None` slot of FieldValueSelector.value_constraints is what get_value() returns for a
    field that selects nothing, so only an attribute declaration may fill it."""
    rule = 'C08.k'
    f = ctx.idx.method('xmlschema.validators.identities.FieldValueSelector', '__init__')
    ctx.analysed(f.qualname)
    g = cfg_of(ctx, f)
    ws = []
    for n in g.nodes:
        if n.kind != 'stmt':
            continue
        tg = []
        if isinstance(n.ast, ast.Assign):
            tg = n.ast.targets
        elif isinstance(n.ast, (ast.AugAssign, ast.AnnAssign)):
            tg = [n.ast.target]
        flat = []
        for t in tg:
            flat += list(t.elts) if isinstance(t, (ast.Tuple, ast.List)) else [t]
        if any(isinstance(t, ast.Subscript) and text(t.value) == 'self.value_constraints' and isinstance(t.slice, ast.Constant)
               and t.slice.value is None for t in flat):
            ws.append(n)
        for c in calls(n.ast):
            if isinstance(c.func, ast.Attribute) and text(c.func.value) == 'self.value_constraints' and c.func.attr in ('setdefault', 'update', '__setitem__') \
                    and any(isinstance(a, ast.Constant) and a.value is None for a in c.args):
                ws.append(n)
    ctx.floor(rule, 'writes of the absent-field slot value_constraints[None]', len(ws), 1)
    for n in ws:
        gs = guards(ctx, f, n)
        ok = any(lab == 'T' and t.replace(' ', '') in ('isinstance(comp,XsdAttribute)', 'isinstance(node,AttributeNode)') for t, lab in gs)
        ctx.ob(rule, f'FieldValueSelector.__init__: `{text(n.ast)[:60]}` runs for an attribute declaration only', f.loc(n.ast), ok,
               '' if ok else 'the value constraint of an element declaration becomes the value of an absent field: a key-selected node that lacks the element is accepted '
               'and a unique constraint counts the absent element as a duplicate of its default/fixed value', key='FieldValueSelector.__init__|absent-slot')
    ctx.explain('C08.k: every write of value_constraints[None] (the value of a field that selects nothing) is control dependent on '
                '`isinstance(comp, XsdAttribute)` being true.')


def rule_l(ctx: Ctx) -> None:
    """An identity constraint is enforced per occurrence of its scope element: when the scope element is met again the counter is re-armed *completely* - tuples
    dropped, cached selection dropped, element set, enabled - whatever the previous occurrence collected.  A stale selection (`elements`) from an occurrence that
    yielded no tuple makes collect_key_fields skip every node of the next one."""
    rule = 'C08.l'
    f = ctx.idx.method('xmlschema.validators.identities.IdentityCounter', 'reset')
    ctx.analysed(f.qualname)
    g = cfg_of(ctx, f)
    need = {
        'tuples dropped': lambda n: any(isinstance(c.func, ast.Attribute) and text(c.func) == 'self.counter.clear' for e in n.exprs for c in calls(e))
        or (n.kind == 'stmt' and isinstance(n.ast, ast.Assign) and text(n.ast.targets[0]) == 'self.counter'),
        'cached selection dropped': lambda n: n.kind == 'stmt' and isinstance(n.ast, ast.Assign) and any(text(t) == 'self.elements' for t in n.ast.targets)
        and isinstance(n.ast.value, ast.Constant) and n.ast.value.value is None,
        'scope element set': lambda n: n.kind == 'stmt' and isinstance(n.ast, ast.Assign) and any(text(t) == 'self.elem' for t in n.ast.targets),
        'counter enabled': lambda n: n.kind == 'stmt' and isinstance(n.ast, ast.Assign) and any(text(t) == 'self.enabled' for t in n.ast.targets)
        and isinstance(n.ast.value, ast.Constant) and n.ast.value.value is True,
    }
    for what, pred in need.items():
        nodes = [n for n in g.nodes if pred(n)]
        w = g.must_pass(g.entry, [g.exit], nodes, kinds='nTF') if nodes else [g.entry]
        ok = bool(nodes) and w is None
        if not ok and nodes and what == 'tuples dropped':
            # clearing only a non-empty counter is the same thing
            ok = all(guards(ctx, f, n_) <= {('self.counter', 'T'), ('not self.counter', 'F'), ('len(self.counter) > 0', 'T')} for n_ in nodes)
        ctx.ob(rule, f'IdentityCounter.reset: {what} on every path', f.loc(nodes[0].ast) if nodes else f.loc(), ok,
               '' if ok else 'a path through reset() leaves this part of the previous occurrence in place: e.g. the selection cached for a group whose items had no field value '
               'survives, the items of the next group are "not selected" and duplicates or dangling references in it pass', key=f'IdentityCounter.reset|{what}')
    ctx.explain('C08.l: must-pass-through in IdentityCounter.reset - clearing the tuples, `self.elements = None`, `self.elem = …` and `self.enabled = True` lie on every path to the exit.')


RULES = [rule_a, rule_b, rule_c, rule_d, rule_e, rule_f, rule_g, rule_h, rule_i, rule_j, rule_k, rule_l]
