"""Rule templates shared by several properties."""
from __future__ import annotations

import ast
from typing import Optional

from ..astutil import calls, get_arg, names_in, text, walk_no_nested
from ..cfg import CFG, Node
from ..index import AnalysisError, FuncInfo
from ..report import Ctx

REPORTERS = ('validation_error', 'decode_error', 'encode_error', 'children_validation_error',
             'missing_element_error')


def cfg_of(ctx: Ctx, f: FuncInfo) -> CFG:
    cache = ctx.__dict__.setdefault('_cfgs', {})
    if f.qualname not in cache:
        idx = ctx.idx

        def catches(handler: ast.ExceptHandler, raised: Optional[ast.AST]):
            if handler.type is None:
                return True
            if raised is None:
                return None
            r = raised.func if isinstance(raised, ast.Call) else raised
            rn = ast.unparse(r) if isinstance(r, (ast.Name, ast.Attribute)) else None
            if rn is None:
                return None
            chain = idx.exception_class_chain(rn, f.module)
            if not chain:
                return None
            hn = set()
            for e in (handler.type.elts if isinstance(handler.type, ast.Tuple) else [handler.type]):
                hn.add(e.attr if isinstance(e, ast.Attribute) else (e.id if isinstance(e, ast.Name) else '?'))
            if hn & chain:
                return True
            # a raise of a known class not listed: definitely not caught only when the raised class is known
            full = idx.resolve_name(f.module, rn)
            if full in idx.classes or rn.split('.')[-1] in ('ValueError', 'TypeError', 'KeyError', 'OSError'):
                return False
            return None
        cache[f.qualname] = CFG(f.node, catches)
        ctx.analysed(f.qualname)
    return cache[f.qualname]


def is_reporter_call(c: ast.Call, recv: Optional[str] = 'context') -> bool:
    f = c.func
    return isinstance(f, ast.Attribute) and f.attr in REPORTERS and (recv is None or text(f.value) == recv)


def reporter_calls(node: ast.AST, recv: Optional[str] = 'context'):
    for c in calls(node):
        if is_reporter_call(c, recv):
            yield c


def flush_rule(ctx: Ctx, rule: str, f: FuncInfo, listvar: str, elem_name: Optional[str],
               min_appends: int, early_exit_ok=lambda n: False) -> None:
    """Every CFG path from an ``<listvar>.append`` to the normal exit passes a flush construct:
    ``for … in <listvar>: context.<reporter>(validation, …)`` or an ``if <listvar>:`` directly
    guarding it.  The reporter's element argument must be ``elem_name`` if given."""
    g = cfg_of(ctx, f)
    appends: list[Node] = []
    for n in g.stmt_nodes():
        if n.kind in ('stmt', 'return') and any(True for e in n.exprs for _ in calls(e, attr='append', recv=listvar)):
            appends.append(n)
    flush: list[Node] = []
    flush_loops = []
    for n in g.nodes:
        if n.kind == 'for' and text(n.ast.iter) == listvar:
            reps = [c for s in n.ast.body for c in reporter_calls(s)]
            if not reps:
                continue
            flush.append(n)
            flush_loops.append((n, reps))
    for n in g.nodes:
        if n.kind == 'if' and text(n.ast.test) == listvar and not n.ast.orelse:
            inner = [m for m, _ in flush_loops if any(m.ast is s for s in n.ast.body)]
            if inner:
                flush.append(n)
    # accepted idiom: the reporting loop lives in a helper (method of the class or nested function) that receives the list
    for n in g.stmt_nodes():
        if n.kind != 'stmt':
            continue
        for e in n.exprs:
            for c in calls(e):
                argpos = [i for i, a in enumerate(c.args) if text(a) == listvar] + [k.arg for k in c.keywords if text(k.value) == listvar]
                if not argpos:
                    continue
                callee = None
                if isinstance(c.func, ast.Attribute) and text(c.func.value) == 'self' and f.cls is not None:
                    callee = f.cls.find_method(c.func.attr)
                elif isinstance(c.func, ast.Name):
                    callee = ctx.idx.functions.get(f'{f.qualname}.<locals>.{c.func.id}') or f.module.functions.get(c.func.id)
                if callee is None:
                    continue
                params = [p for p in callee.params if p != 'self']
                pname = argpos[0] if isinstance(argpos[0], str) else (params[argpos[0]] if argpos[0] < len(params) else None)
                if pname is None:
                    continue
                hl = [lp for lp in walk_no_nested(callee.node) if isinstance(lp, ast.For) and text(lp.iter) == pname
                      and any(True for s_ in lp.body for _ in reporter_calls(s_))]
                if hl:
                    flush.append(n)
                    flush_loops.append((n, []))
                    ctx.analysed(callee.qualname)
    ctx.floor(rule, f'{listvar}.append sites in {f.qualname}', len(appends), min_appends)
    ctx.floor(rule, f'flush loops in {f.qualname}', len(flush_loops), 1)
    # (i) reporters inside the flush loop pass the validation mode and the element
    for n, reps in flush_loops:
        for c in reps:   # (helpers: their reporter calls are checked by C04.b on the helper itself)
            a0 = get_arg(c, 0, 'validation')
            ok = a0 is not None and text(a0) == 'validation'
            ctx.ob(rule, f'flush loop reports with the caller\'s validation mode: {text(c)[:80]}', f.loc(c), ok,
                   '' if ok else 'first argument is not the function\'s validation parameter',
                   key=f'{f.qualname}|flush-mode|{text(n.ast.iter)}')
            if elem_name is not None:
                meth = c.func.attr
                pos = {'children_validation_error': 2, 'validation_error': 3}.get(meth, 3)
                kw = {'children_validation_error': 'elem', 'validation_error': 'obj'}.get(meth, 'obj')
                ea = get_arg(c, pos, kw)
                ok = ea is not None and text(ea) == elem_name
                ctx.ob(rule, f'flush loop attaches the error to `{elem_name}`: {text(c)[:80]}', f.loc(c), ok,
                       '' if ok else f'element argument is `{text(ea)}`', key=f'{f.qualname}|flush-elem|{meth}')
    # (ii) must-pass-through
    for a in appends:
        w = g.must_pass(a, [g.exit], flush, kinds='nTF')
        ok = w is None
        det = ''
        if not ok:
            rets = [n for n in w if n.kind == 'return']
            det = 'path to normal exit without flushing: ' + ' -> '.join(f'{n.kind}@{n.lineno}' for n in w[:12])
            if rets:
                det += f' (exit: `{text(rets[-1].ast)}`)'
        ctx.ob(rule, f'collected error reaches a report: {text(a.ast)[:70]}', f.loc(a.ast), ok, det,
               key=f'{f.qualname}|flush|{text(a.ast)}')
    # (iii) the list is never rebound/cleared between append and flush
    for n in g.stmt_nodes():
        if n.kind == 'stmt' and isinstance(n.ast, (ast.Assign, ast.AnnAssign)):
            tg = n.ast.targets if isinstance(n.ast, ast.Assign) else [n.ast.target]
            if any(isinstance(t, ast.Name) and t.id == listvar for t in tg) and getattr(n.ast, 'value', None) is not None:
                # a rebind is only fine if no append can reach it
                reach = set()
                for a in appends:
                    reach |= g.reachable([a], kinds='nTF')
                ok = n not in reach
                ctx.ob(rule, f'`{listvar}` is not rebound after an append: {text(n.ast)[:60]}', f.loc(n.ast), ok,
                       '' if ok else 'rebinding drops collected errors', key=f'{f.qualname}|rebind|{text(n.ast)}')
        for e in n.exprs:
            for c in calls(e):
                if isinstance(c.func, ast.Attribute) and text(c.func.value) == listvar and \
                        c.func.attr in ('clear', 'pop', 'remove'):
                    ctx.ob(rule, f'`{listvar}` is only appended to: {text(c)}', f.loc(c), False,
                           'removal from the collected-errors list', key=f'{f.qualname}|shrink|{text(c)}')


def cd_of(ctx: Ctx, f: FuncInfo, kinds: str = 'nTFx'):
    cache = ctx.__dict__.setdefault('_cds', {})
    k = (f.qualname, kinds)
    if k not in cache:
        cache[k] = cfg_of(ctx, f).control_dependence(kinds=kinds)
    return cache[k]


def guards(ctx: Ctx, f: FuncInfo, node: Node, kinds: str = 'nTFx') -> set[tuple[str, str]]:
    """Transitive control-dependence conditions of ``node``: {(test text, 'T'|'F')} (if/while/case/for heads)."""
    out = set()
    for b, lab in cd_of(ctx, f, kinds)[node]:
        if b.kind in ('if', 'while'):
            out.add((text(b.ast.test), lab))
        elif b.kind == 'for':
            out.add(('for ' + text(b.ast.target) + ' in ' + text(b.ast.iter), lab))
        elif b.kind == 'case':
            out.add(('case ' + text(b.ast.pattern), lab))
        elif b.kind == 'handler':
            out.add(('except ' + text(b.ast.type), lab))
    return out


def call_nodes(g: CFG, pred) -> list[tuple[Node, ast.Call]]:
    """(cfg node, call) for every call satisfying pred, evaluated at that node."""
    out = []
    for n in g.stmt_nodes():
        for e in n.exprs:
            for c in calls(e):
                if pred(c):
                    out.append((n, c))
    return out


LOCK_TARGETS = {'threading.Lock', 'threading.RLock', '_thread.allocate_lock', '_thread.RLock'}


def is_lock_ctor(ctx: Ctx, f: FuncInfo, e: ast.AST, depth: int = 0) -> bool:
    """Is expression ``e`` (in function f) a call creating a new threading lock?  Follows module-level
    aliases (``LazyLockType = RLock if … else Lock``) and helper functions returning a new lock."""
    if not isinstance(e, ast.Call) or depth > 3:
        return False
    fn = e.func
    from ..index import dotted
    d = dotted(fn)
    if d is None:
        return False
    m = f.module
    full = ctx.idx.resolve_name(m, d)
    if full in LOCK_TARGETS:
        return True
    head = d.split('.')[0]
    if d in m.assigns:     # alias: NAME = <expr whose leaves are lock classes>
        v = m.assigns[d]
        leaves = [x for x in ast.walk(v) if isinstance(x, (ast.Name, ast.Attribute)) and isinstance(getattr(x, 'ctx', None), ast.Load)]
        cands = [x for x in ([v.body, v.orelse] if isinstance(v, ast.IfExp) else [v])]
        return bool(cands) and all(ctx.idx.resolve_name(m, dotted(c) or '') in LOCK_TARGETS for c in cands)
    if full in ctx.idx.functions:   # helper returning a new lock
        h = ctx.idx.functions[full]
        rets = [r for r in ast.walk(h.node) if isinstance(r, ast.Return)]
        return bool(rets) and all(r.value is not None and is_lock_ctor(ctx, h, r.value, depth + 1) for r in rets)
    return False


DECODE_ATTRS = ('text_decode', 'decode', 'raw_decode', 'get_atomic_value')


def _is_decode_call(e: ast.AST) -> bool:
    return isinstance(e, ast.Call) and isinstance(e.func, ast.Attribute) and e.func.attr in DECODE_ATTRS


def fixed_value_space_rule(ctx: Ctx, rule: str, f: FuncInfo, what: str, value_names: tuple[str, ...]) -> None:
    """The report "has/must have the fixed value" is guarded by a comparison of *decoded* values.

    Accepted conjuncts/guards that mention self.fixed: a value-space comparison (decode(x) != decode(self.fixed) or
    not strictly_equal(decode(x), decode(self.fixed))), the lexical shortcut (x == / != self.fixed: identical text is
    identical value), and presence tests (self.fixed is [not] None, not x).  Anything else comparing the fixed value
    (normalised strings, raw text only) is a violation."""
    g = cfg_of(ctx, f)
    cd = cd_of(ctx, f)
    reports = []
    rd = g.reaching_defs()
    for n, c in call_nodes(g, lambda c: is_reporter_call(c)):
        # the message (reaching definition of the 3rd argument) mentions 'fixed value'
        msg_arg = c.args[2] if len(c.args) > 2 else None
        txt = ''
        if isinstance(msg_arg, ast.Name):
            defs = rd[n].get(msg_arg.id, set())
            txts = [text(d.ast.value) for d in defs if d.ast is not None and isinstance(d.ast, ast.Assign)]
            if txts and all('fixed value' in t for t in txts):
                txt = txts[0]
        elif msg_arg is not None:
            txt = text(msg_arg)
        if 'fixed value' in txt and 'nil' not in txt:
            reports.append((n, c))
    ctx.floor(rule, f'fixed-value reports in {f.qualname}', len(reports), 1)
    for n, c in reports:
        value_cmp = 0
        bad = []
        for b, lab in cd[n]:
            if b.kind != 'if':
                continue
            t = b.ast.test
            conj = t.values if isinstance(t, ast.BoolOp) and isinstance(t.op, ast.And) and lab == 'T' else [t]
            for e in conj:
                if 'self.fixed' not in text(e) and 'fixed' not in text(e):
                    continue
                inner = e
                neg = False
                while isinstance(inner, ast.UnaryOp) and isinstance(inner.op, ast.Not):
                    inner = inner.operand
                    neg = not neg
                if isinstance(inner, ast.Call) and text(inner.func) == 'strictly_equal' and len(inner.args) == 2:
                    if all(_is_decode_call(a) for a in inner.args) and any('self.fixed' in text(a) for a in inner.args):
                        value_cmp += 1
                    else:
                        bad.append(text(e))
                elif isinstance(inner, ast.Compare) and len(inner.ops) == 1:
                    l, r = inner.left, inner.comparators[0]
                    if isinstance(r, ast.Constant) and r.value is None:
                        continue            # presence test
                    if all(_is_decode_call(a) for a in (l, r)):
                        # decoded values compared with Python's == / !=: True == 1 and 1 == 1.0, so members of different types of a union are confused
                        bad.append(text(e) + '  [decoded values compared with ==/!= instead of strictly_equal(): true and 1 of a union(xs:int, xs:boolean) are taken for equal]')
                    elif {text(l), text(r)} & {'self.fixed'} and ({text(l), text(r)} - {'self.fixed'}) <= set(value_names):
                        continue            # lexical shortcut on the raw text
                    else:
                        bad.append(text(e))
                elif isinstance(inner, (ast.Name, ast.Attribute)):
                    continue
                elif isinstance(inner, ast.BoolOp):
                    # mixed forms (complex content: children / text present): not a value comparison, reviewed per call site
                    continue
                else:
                    bad.append(text(e))
        if value_cmp == 0 and not bad and any('len(obj) > 0' in text(b.ast.test) for b, lab in cd[n] if b.kind == 'if'):
            ctx.ob(rule, f'{what}: fixed value of a complex (mixed) content is compared as text (its value space is string)', f.loc(c), True,
                   'reviewed: complex content has no simple type to decode with', key=f'{f.qualname}|fixed-complex-content', nontrivial=False)
            continue
        ok = value_cmp >= 1 and not bad
        ctx.ob(rule, f'{what}: a present value is compared with the fixed value in the value space of the type', f.loc(c), ok,
               '' if ok else (f'comparison `{bad[0]}` is not between decoded values' if bad else 'no comparison of decoded values guards the report: '
                              'lexically different spellings of the same value (1.0 / 1.00, true / 1) would be rejected'),
               key=f'{f.qualname}|fixed-value-space|{text(c.args[2]) if len(c.args) > 2 else ""}')



def context_copy_shares(ctx: Ctx, rule: str, attrs: tuple[str, ...]) -> None:
    """ValidationContext.__copy__ must hand the *same* collector/table objects to the copy: XsdElement.raw_decode
    continues with `context = _copy(context)` and whatever is recorded through the copy must reach the caller."""
    f = ctx.idx.func('xmlschema.validators.validation.ValidationContext.__copy__')
    ctx.analysed(f.qualname)
    slot_loop = 'for attr in iter_class_slots(self)' in text(f.node) and 'setattr(context, attr, getattr(self, attr))' in text(f.node)
    for a in attrs:
        sets = [s_ for s_ in walk_no_nested(f.node) if isinstance(s_, ast.Assign) and text(s_.targets[0]) == f'context.{a}']
        ok = slot_loop if not sets else all(text(s_.value) == f'self.{a}' for s_ in sets)
        ctx.ob(rule, f'a copied validation context shares `{a}` with the original (same object)', f.loc(sets[0]) if sets else f.loc(), ok,
               '' if ok else f'`{text(sets[0])}`: what is recorded after raw_decode switches to the copy (inheritable attributes, validation_hook '
               f'mode switch) never reaches the context the caller reads', key=f'ValidationContext.__copy__|shares|{a}')
    # the sites that switch to a copy
    e = ctx.idx.func('xmlschema.validators.elements.XsdElement.raw_decode')
    n = sum(1 for s_ in walk_no_nested(e.node) if isinstance(s_, ast.Assign) and text(s_.targets[0]) == 'context' and text(s_.value) in ('_copy(context)', 'copy(context)'))
    ctx.floor(rule, 'sites of XsdElement.raw_decode that continue with a copied context', n, 1)


_INPLACE = {'add', 'append', 'extend', 'update', 'clear', 'pop', 'popitem', 'remove', 'discard', 'setdefault', 'insert', 'sort', 'reverse',
            'intersection_update', 'difference_update', 'symmetric_difference_update'}


def copy_owns(ctx: Ctx, rule: str, cls_qualname: str, ops: tuple[str, ...], floor: int = 1) -> None:
    """Ownership of mutable state across copies: every attribute that the operations ``ops`` (methods that the code base applies to
    *copies* of a component) mutate in place must be re-created by ``__copy__`` (``.copy()``, a constructor or a literal), otherwise the
    operation on the copy also changes the original."""
    c = ctx.idx.cls(cls_qualname)
    cp = c.find_method('__copy__')
    if cp is None:
        raise AnalysisError(f'missing anchor {cls_qualname}.__copy__')
    ctx.analysed(cp.qualname)
    fresh = set()
    for s in walk_no_nested(cp.node):
        if isinstance(s, ast.Assign) and isinstance(s.targets[0], ast.Attribute) and isinstance(s.targets[0].value, ast.Name) \
                and s.targets[0].value.id != 'self':
            v = s.value
            if (isinstance(v, ast.Call) and not (isinstance(v.func, ast.Name) and v.func.id == 'getattr')) or \
                    isinstance(v, (ast.List, ast.Dict, ast.Set, ast.ListComp, ast.DictComp, ast.SetComp)):
                fresh.add(s.targets[0].attr)
    generic = 'isinstance(value, (dict, list' in text(cp.node) and 'value.copy()' in text(cp.node)
    mutated: dict[str, list[str]] = {}
    for k in ctx.idx.subclasses(c):
        for op in ops:
            m = k.methods.get(op)
            if m is None:
                continue
            ctx.analysed(m.qualname)
            for n in walk_no_nested(m.node):
                a = None
                if isinstance(n, ast.Call) and isinstance(n.func, ast.Attribute) and n.func.attr in _INPLACE and \
                        isinstance(n.func.value, ast.Attribute) and text(n.func.value.value) == 'self':
                    a = n.func.value.attr
                elif isinstance(n, (ast.Assign, ast.AugAssign, ast.Delete)):
                    tg = n.targets if isinstance(n, (ast.Assign, ast.Delete)) else [n.target]
                    for t in tg:
                        if isinstance(t, ast.Subscript) and isinstance(t.value, ast.Attribute) and text(t.value.value) == 'self':
                            a = t.value.attr
                        if isinstance(n, ast.AugAssign) and isinstance(t, ast.Attribute) and text(t.value) == 'self' and \
                                isinstance(n.op, (ast.BitAnd, ast.BitOr, ast.Sub, ast.BitXor)):
                            a = t.attr
                if a:
                    mutated.setdefault(a, []).append(f'{k.name}.{op}')
    ctx.floor(rule, f'attributes mutated in place by {ops} of {c.name}', len(mutated), floor)
    for a, where in sorted(mutated.items()):
        ok = a in fresh or generic
        ctx.ob(rule, f'{c.name}.__copy__ gives the copy its own `{a}` (mutated in place by {sorted(set(where))[0]})', cp.loc(), ok,
               '' if ok else f'`{a}` is shared between a component and its copies: {sorted(set(where))[0]}() applied to the copy silently changes the original '
               f'(e.g. the wildcard of a global attribute group narrowed by one complex type also narrows every other user)',
               key=f'{cls_qualname}.__copy__|owns|{a}')


def reach_cut(g: CFG, starts, cut, avoid=(), kinds: str = 'nTF') -> set:
    """nodes reachable from ``starts`` without crossing an edge of ``cut`` ({(node, label)}) and without entering ``avoid``."""
    avoid = set(avoid)
    cut = set(cut)
    seen, stack = set(), [s for s in starts if s not in avoid]
    while stack:
        x = stack.pop()
        if x in seen:
            continue
        seen.add(x)
        for m, lab in g.succ[x]:
            if lab in kinds and (x, lab) not in cut and m not in avoid and m not in seen:
                stack.append(m)
    return seen


def iteration_requires(g: CFG, head: Node, node: Node, edges) -> bool:
    """Within one iteration of the loop at ``head``: does every path from the start of the body to ``node`` cross one of ``edges``?"""
    starts = [m for m, lab in g.succ[head] if lab == 'T']
    return bool(edges) and node not in reach_cut(g, starts, edges, avoid=[head])


def bool_atoms(e: ast.AST, out: Optional[list] = None) -> list:
    """texts of the atoms of a boolean expression (and/or/not structure only)."""
    out = [] if out is None else out
    if isinstance(e, ast.BoolOp):
        for v in e.values:
            bool_atoms(v, out)
    elif isinstance(e, ast.UnaryOp) and isinstance(e.op, ast.Not):
        bool_atoms(e.operand, out)
    else:
        t = text(e)
        if t not in out:
            out.append(t)
    return out


def bool_eval(e: ast.AST, env: dict) -> bool:
    if isinstance(e, ast.BoolOp):
        vals = [bool_eval(v, env) for v in e.values]
        return all(vals) if isinstance(e.op, ast.And) else any(vals)
    if isinstance(e, ast.UnaryOp) and isinstance(e.op, ast.Not):
        return not bool_eval(e.operand, env)
    return env[text(e)]


def atom_forces(test: ast.AST, atom: str, atom_value: bool, result: bool) -> bool:
    """Truth table: whenever ``atom`` has ``atom_value`` the test evaluates to ``result`` (for every value of the other atoms)."""
    import itertools
    atoms = bool_atoms(test)
    if atom not in atoms or len(atoms) > 10:
        return False
    others = [a for a in atoms if a != atom]
    for bits in itertools.product((False, True), repeat=len(others)):
        env = dict(zip(others, bits))
        env[atom] = atom_value
        if bool_eval(test, env) != result:
            return False
    return True
