"""C14 — accepted restrictions only narrow (structural clauses).

C14.a facet restriction checks agree with their validators
C14.b occurrence restriction direction (shared with C01.b)
C14.c the post-build restriction checks run for every restricted type
C14.d attribute restriction tests are present and directed
"""
from __future__ import annotations

import ast
import itertools

from ..astutil import ancestors, calls, enclosing_map, find_relations, text, walk_no_nested
from ..index import AnalysisError
from ..report import Ctx
from .c01 import occurs_restriction
from .common import call_nodes, cfg_of, guards

FACETS = 'xmlschema.validators.facets'
ST = 'xmlschema.validators.simple_types'
NEG = {'<': '>=', '<=': '>', '>': '<=', '>=': '<', '==': '!=', '!=': '=='}


def _error_guard_relations(ctx: Ctx, f, is_a, is_b):
    """relations a REL b that guard a self.parse_error(...) call (directly, as an `if` test or one of its conjuncts)."""
    par = enclosing_map(f.node)
    out = []
    for node, rel in find_relations(f.node, is_a, is_b):
        # climb to the enclosing `if`
        cur = node
        neg_ctx = False
        iff = None
        for anc in ancestors(node, par):
            if isinstance(anc, ast.BoolOp) and isinstance(anc.op, ast.And):
                cur = anc
                continue
            if isinstance(anc, ast.If) and anc.test is cur:
                iff = anc
                break
            break
        if iff is None:
            continue
        if any(True for s in iff.body for _ in calls(s, attr='parse_error')):
            out.append((rel, node, iff))
    return out


FACET_RESTRICTION = {
    # class: (new value text, base value recogniser, rejecting relation new REL base)
    'XsdLengthFacet': (lambda s: s == 'self.value', lambda s: s == 'self.base_value', '!='),
    'XsdMinLengthFacet': (lambda s: s == 'self.value', lambda s: s == 'self.base_value', '<'),
    'XsdMaxLengthFacet': (lambda s: s == 'self.value', lambda s: s == 'self.base_value', '>'),
    'XsdTotalDigitsFacet': (lambda s: s == 'self.value', lambda s: s == 'facet.value', '>'),
    'XsdFractionDigitsFacet': (lambda s: s == 'self.value', lambda s: s == 'facet.value', '>'),
}
BOUND_FACETS = ('XsdMinInclusiveFacet', 'XsdMinExclusiveFacet', 'XsdMaxInclusiveFacet', 'XsdMaxExclusiveFacet')


def rule_a(ctx: Ctx) -> None:
    rule = 'C14.a'
    for cname, (is_new, is_base, expect) in FACET_RESTRICTION.items():
        c = ctx.idx.cls(f'{FACETS}.{cname}')
        f = c.methods.get('_parse_value')
        if f is None:
            raise AnalysisError(f'missing anchor {FACETS}.{cname}._parse_value')
        ctx.analysed(f.qualname)
        rels = _error_guard_relations(ctx, f, is_new, is_base)
        ok = len(rels) == 1 and rels[0][0] == expect
        ctx.ob(rule, f'{cname}: a restriction is refused exactly when new value {expect} base value (same direction as the validator)',
               f.loc(), ok, '' if ok else f'found {[r for r, _, _ in rels]}', key=f'{cname}|restriction-direction')
        if cname in ('XsdTotalDigitsFacet', 'XsdFractionDigitsFacet'):
            tag = 'nm.XSD_TOTAL_DIGITS' if 'Total' in cname else 'nm.XSD_FRACTION_DIGITS'
            fd = [s for s in walk_no_nested(f.node) if isinstance(s, (ast.Assign, ast.AnnAssign)) and
                  text(s.targets[0] if isinstance(s, ast.Assign) else s.target) == 'facet']
            ok2 = len(fd) == 1 and text(fd[0].value) == f'self.base_type.get_facet({tag})'
            ctx.ob(rule, f'{cname}: the base value is the same facet of the base type', f.loc(), ok2, '', key=f'{cname}|base-facet')
    for cname in BOUND_FACETS:
        c = ctx.idx.cls(f'{FACETS}.{cname}')
        f = c.methods.get('_parse_value')
        if f is None:
            raise AnalysisError(f'missing anchor {FACETS}.{cname}._parse_value')
        g = cfg_of(ctx, f)
        dec = [cc for cc in calls(f.node) if text(cc.func) == 'self.base_type.text_decode']
        ok = len(dec) == 1 and len(dec[0].args) >= 3 and text(dec[0].args[1]) == "'lax'" and \
            text(dec[0].args[2]) == 'self.schema.validation_context' and "elem.attrib['value']" in text(dec[0].args[0])
        ctx.ob(rule, f'{cname}: the new bound is decoded (lax) by the base type, so it must lie in the base value space', f.loc(), ok, '',
               key=f'{cname}|decode-by-base')
        loops = [n for n in g.nodes if n.kind == 'for' and text(n.ast.iter) == 'self.schema.validation_context.errors']
        ok = len(loops) == 1 and any(True for s in loops[0].ast.body for _ in calls(s, attr='parse_error'))
        det = ''
        if ok:
            # an error may only be skipped when it comes from the same facet kind with the same value (exclusive bounds)
            pe = [n for n, cc in call_nodes(g, lambda cc: text(cc.func) == 'self.parse_error') if any(n.ast is x for s in loops[0].ast.body for x in ast.walk(s))]
            for n in pe:
                extra = {t for t, lab in guards(ctx, f, n) if not t.startswith('for ') and (t, lab) != ('isinstance(value, list)', 'F')}
                allowed = {'not isinstance(e.validator, self.__class__) or e.validator.value != self.value'}
                if not extra <= allowed:
                    ok = False
                    det = f'errors are filtered by {sorted(extra - allowed)}'
        ctx.ob(rule, f'{cname}: every error collected while decoding the new bound becomes a schema parse error', f.loc(), ok, det,
               key=f'{cname}|errors-to-parse-error')
        # clear() before the decode
        clr = [n for n, cc in call_nodes(g, lambda cc: text(cc.func) == 'self.schema.validation_context.clear')]
        dn = [n for n, cc in call_nodes(g, lambda cc: text(cc.func) == 'self.base_type.text_decode')]
        dom = g.dominators(kinds='nTF')
        ok = bool(clr) and bool(dn) and clr[0] in dom[dn[0]]
        ctx.ob(rule, f'{cname}: the scratch context is cleared before decoding the bound', f.loc(), ok, '', key=f'{cname}|clear')
    # duplicated consistency tests in XsdSimpleType._parse_facets, operands identified by their definitions
    f = ctx.idx.func(f'{ST}.XsdSimpleType._parse_facets')
    ctx.analysed(f.qualname)
    defs = {}
    for s in walk_no_nested(f.node):
        if isinstance(s, ast.Assign) and len(s.targets) == 1 and isinstance(s.targets[0], ast.Name):
            v = text(s.value)
            name = s.targets[0].id
            if v.startswith('getattr(facets.get(nm.XSD_') and v.endswith("), 'value', None)"):
                defs[name] = ('new', v[len('getattr(facets.get(nm.XSD_'):].split(')')[0])
            elif v.startswith('base_type.get_facet(nm.XSD_'):
                defs[name + '.value'] = ('base', v[len('base_type.get_facet(nm.XSD_'):].split(')')[0])

    def canon(s):
        return defs.get(s)
    spec = [
        (('new', 'MIN_LENGTH'), '>', ('new', 'LENGTH')),
        (('new', 'MAX_LENGTH'), '<', ('new', 'LENGTH')),
        (('new', 'MAX_LENGTH'), '<', ('new', 'MIN_LENGTH')),
        (('new', 'MIN_LENGTH'), '<', ('base', 'MIN_LENGTH')),
        (('new', 'MIN_LENGTH'), '>', ('base', 'MAX_LENGTH')),
        (('new', 'MAX_LENGTH'), '<', ('base', 'MIN_LENGTH')),
        (('new', 'MAX_LENGTH'), '>', ('base', 'MAX_LENGTH')),
        (('new', 'MIN_INCLUSIVE'), '>', ('new', 'MAX_INCLUSIVE')),
        (('new', 'MIN_INCLUSIVE'), '>=', ('new', 'MAX_EXCLUSIVE')),
        (('new', 'MIN_EXCLUSIVE'), '>=', ('new', 'MAX_INCLUSIVE')),
        (('new', 'MIN_EXCLUSIVE'), '>', ('new', 'MAX_EXCLUSIVE')),
    ]
    found = {}
    for (a, b) in itertools.permutations(set(defs.values()), 2):
        rels = _error_guard_relations(ctx, f, lambda s, a=a: canon(s) == a, lambda s, b=b: canon(s) == b)
        for rel, node, iff in rels:
            found.setdefault((a, b), []).append(rel)
    for a, rel, b in spec:
        got = found.get((a, b), [])
        ok = rel in got
        ctx.ob(rule, f'_parse_facets refuses {a[0]} {a[1]} {rel} {b[0]} {b[1]}', f.loc(), ok,
               '' if ok else f'found relations {got} between these operands', key=f'_parse_facets|{a}|{rel}|{b}')
    ctx.explain('C14.a: for the monotone facets the build-time restriction test rejects in the same direction as the run-time '
                'validator; bound facets are decoded by the base type with every collected error turned into a parse error; '
                'operands of the duplicated tests in _parse_facets are identified by their definitions, not their names.')


def rule_b(ctx: Ctx) -> None:
    occurs_restriction(ctx, 'C14.b')
    # has_occurs_restriction is what the model restriction checks consult: a failed check fails the restriction test
    n = 0
    for f in ctx.idx.iter_functions('validators'):
        if isinstance(f.node, ast.Lambda):
            continue
        for iff in walk_no_nested(f.node):
            if not isinstance(iff, ast.If):
                continue
            t = text(iff.test)
            if 'not self.has_occurs_restriction(' in t or 'not self._has_occurs_restriction(' in t:
                n += 1
                ctx.analysed(f.qualname)
                ok = len(iff.body) == 1 and isinstance(iff.body[0], ast.Return) and text(iff.body[0].value) == 'False'
                ctx.ob('C14.b', f'{f.qualname.split(".", 2)[-1]}: a failed occurrence check makes the restriction test fail', f.loc(iff), ok,
                       '' if ok else f'branch is `{text(iff.body[0])[:40]}`', key=f'{f.qualname}|occurs-consulted|{t[:60]}')
    ctx.floor('C14.b', 'occurrence checks consulted by restriction tests', n, 7)
    ctx.explain('C14.b: occurrence restriction decision chain evaluated on the abstract domain (see C01.b); it is consulted by '
                'the element, wildcard and group restriction tests.')


def rule_c(ctx: Ctx) -> None:
    rule = 'C14.c'
    f = ctx.idx.func('xmlschema.validators.xsd_globals.XsdGlobals.check')
    g = cfg_of(ctx, f)
    pe = call_nodes(g, lambda c: isinstance(c.func, ast.Attribute) and c.func.attr == 'parse_error')
    got = {}
    for n, c in pe:
        gs = guards(ctx, f, n)
        T = {t for t, lab in gs if lab == 'T'}
        F = {t for t, lab in gs if lab == 'F'}
        if 'not xsd_type.content.is_restriction(base_type.content)' in T:
            got['complex'] = (n, gs)
        if any('group.is_restriction(group.redefine)' in t for t in T):
            got['redefine'] = (n, gs)
        if 'not _group.is_restriction(base_type.content)' in T:
            got['open-content'] = (n, gs)
    ok = 'complex' in got
    det = ''
    if ok:
        n, gs = got['complex']
        T = {t for t, lab in gs if lab == 'T'}
        F = {t for t, lab in gs if lab == 'F'}
        allowedT = {"xsd_type.derivation == 'restriction'", 'not xsd_type.content.is_restriction(base_type.content)',
                    'base_type and base_type.name != nm.XSD_ANY_TYPE and base_type.is_complex()'}
        # (the strict-mode re-raise of a model error in an earlier iteration leaves the loop: a control dependence, not a filter)
        allowedF = {'not isinstance(xsd_type.content, XsdGroup)', "self.validation == 'strict'"}
        extraT = {t for t in T if not t.startswith('for ')} - allowedT
        extraF = F - allowedF
        ok = not extraT and not extraF and "xsd_type.derivation == 'restriction'" in T
        det = '' if ok else f'additional guards {sorted(extraT)} / {sorted(extraF)}'
        loops = {t for t in T if t.startswith('for ')}
        ok = ok and any('iter_components(XsdComplexType)' in t for t in loops) and any('self.iter_globals()' in t for t in loops)
    ctx.ob(rule, 'XsdGlobals.check: every complex type derived by restriction with a group content has its content model tested '
                 'against the base content, with a parse error on failure', f.loc(got['complex'][0].ast) if 'complex' in got else f.loc(), ok, det,
           key='XsdGlobals.check|complex-restriction')
    ok = 'redefine' in got
    ctx.ob(rule, 'XsdGlobals.check: redefined groups are tested as restrictions of the group they redefine', f.loc(), ok, '', key='XsdGlobals.check|redefine')
    # the only exemption is a redefinition that refers to itself (an extension): the predicate ranges over the particles of the new group, and
    # over nothing that also holds the redefined original (XsdGroup.iter_components walks into `self.redefine`, a copy with the same name)
    if ok:
        n, gs = got['redefine']
        exempt = []
        # definitions the test may be spread over (a local holding the predicate)
        srcs = [t for t, lab in gs if 'is_restriction(group.redefine)' in t]
        names = {x.id for t in srcs for x in ast.walk(ast.parse(t, mode='eval')) if isinstance(x, ast.Name)}
        exprs = [ast.parse(t, mode='eval').body for t in srcs]
        for x in walk_no_nested(f.node):
            if isinstance(x, ast.Assign) and len(x.targets) == 1 and isinstance(x.targets[0], ast.Name) and x.targets[0].id in names:
                exprs.append(x.value)
        gens = [y for e in exprs for y in ast.walk(e) if isinstance(y, (ast.GeneratorExp, ast.ListComp)) and 'group.name' in text(y)]
        walks_redefine = 'self.redefine' in text(ctx.idx.method('xmlschema.validators.groups.XsdGroup', 'iter_components').node)
        good = bool(gens) and all(text(gn.generators[0].iter) in ('group', 'group._group', 'iter(group)') for gn in gens)
        bad_iter = [text(gn.generators[0].iter) for gn in gens if text(gn.generators[0].iter) not in ('group', 'group._group', 'iter(group)')]
        ctx.ob(rule, 'XsdGlobals.check: the self-reference exemption of a redefined group looks at the particles of the new group only', f.loc(n.ast), good,
               '' if good else f'the predicate ranges over `{bad_iter[0] if bad_iter else "?"}`' + (', and XsdGroup.iter_components also yields the components of `group.redefine` - the copy '
               'of the original group, which has the same name: the exemption always holds and no redefinition by restriction is checked' if walks_redefine else ''),
               key='XsdGlobals.check|redefine-exemption')
    ok = 'open-content' in got
    ctx.ob(rule, 'XsdGlobals.check: open content added by a restriction is tested against the base content', f.loc(), ok, '', key='XsdGlobals.check|open-content')
    # the filter on schemas does not drop types: x.schema in schemas
    src = text(f.node)
    ok = 'filter(lambda x: x.schema in schemas, self.iter_globals())' in src or 'if xsd_global.schema not in schemas' in src
    ctx.ob(rule, 'XsdGlobals.check iterates all globals of the schemas being built', f.loc(), ok, '', key='XsdGlobals.check|scope')
    # build(): check(schemas) before _built = True
    b = ctx.idx.func('xmlschema.validators.xsd_globals.XsdGlobals.build')
    gb = cfg_of(ctx, b)
    chk = [n for n, c in call_nodes(gb, lambda c: text(c.func) == 'self.check')]
    sets = [n for n in gb.nodes if n.kind == 'stmt' and isinstance(n.ast, ast.Assign) and text(n.ast.targets[0]) == 'self._built' and text(n.ast.value) == 'True']
    dom = gb.dominators(kinds='nTF')
    ok = len(chk) >= 1 and len(sets) == 1 and chk[0] in dom[sets[0]]
    ctx.ob(rule, 'XsdGlobals.build runs check(schemas) before the maps are marked built', b.loc(), ok, '', key='XsdGlobals.build|check-first')
    bld = [n for n, c in call_nodes(gb, lambda c: text(c.func) == 'self.global_maps.build')]
    ok = bool(bld) and bool(chk) and bld[0] in dom[chk[0]]
    ctx.ob(rule, 'check(schemas) runs after all globals are built', b.loc(), ok, '', key='XsdGlobals.build|after-build')
    # simple type restrictions: facets are parsed with the base type at construction (XsdAtomicRestriction._parse)
    ctx.explain('C14.c: in XsdGlobals.check the path condition of the "illegal restriction" parse error is exactly '
                'derivation == restriction ∧ group content ∧ complex base ∧ ¬is_restriction; build() runs check before _built.')


def rule_d(ctx: Ctx) -> None:
    rule = 'C14.d'
    f = ctx.idx.func('xmlschema.validators.attributes.XsdAttributeGroup._parse')
    g = cfg_of(ctx, f)
    pe = call_nodes(g, lambda c: text(c.func) == 'self.parse_error')
    found = {}
    for n, c in pe:
        gs = guards(ctx, f, n)
        T = {t for t, lab in gs if lab == 'T'}
        F = {t for t, lab in gs if lab == 'F'}
        if 'name not in self.base_attributes' in T and 'wildcard is None or not wildcard.is_matching(name)' in T \
                and "self.derivation != 'restriction'" in F:
            found['unexpected'] = n
        if any("not attr.type.is_derived(base_attr.type, 'restriction')" in t and "self.derivation == 'restriction'" in t for t in T):
            found['type'] = n
            # the test has no exemption besides a prohibited redeclaration (which is not an attribute use at all)
            for x in g.nodes:
                if x.kind == 'if' and text(x.ast.test) in T and "attr.type.is_derived(base_attr.type, 'restriction')" in text(x.ast.test):
                    from .common import bool_atoms, bool_eval
                    atoms = bool_atoms(x.ast.test)
                    env0 = {"self.derivation == 'restriction'": True, "attr.type.is_derived(base_attr.type, 'restriction')": False,
                            "attr.use != 'prohibited'": True, "attr.use == 'prohibited'": False}
                    free = [a for a in atoms if a not in env0]
                    exempt = []
                    for bits in itertools.product((False, True), repeat=len(free)):
                        env = dict(env0)
                        env.update(zip(free, bits))
                        if not bool_eval(x.ast.test, env):
                            exempt = [f'{a} is {b}' for a, b in zip(free, bits)]
                            break
                    found['type-exempt'] = (x, exempt)
        for t in T:
            if 'base_attr.use' in t and 'attr.use' in t:
                found['use'] = (n, t)
        if 'base_attr.fixed is not None' in T and any('attr.fixed is None' in t and 'normalize' in t for t in T):
            found['fixed'] = n
        if 'not attr.is_restriction(base_attr)' in T and "self.derivation == 'extension'" in F:
            found['wildcard'] = n
    for k, what in (('unexpected', 'an attribute absent from the base is refused unless the base wildcard admits it'),
                    ('type', 'an attribute type that is not a restriction of the base attribute type is refused'),
                    ('fixed', 'a changed or dropped fixed value is refused'),
                    ('wildcard', 'an attribute wildcard that is not a restriction of the base wildcard is refused')):
        ctx.ob(rule, f'restriction of attributes: {what}', f.loc(found[k].ast) if k in found else f.loc(), k in found,
               '' if k in found else 'no parse_error with this path condition', key=f'attributes._parse|{k}')
    # sibling branch: the redefinition of an attribute group without a self reference is a restriction too and has the same three refusals
    red = {}
    for n, c in pe:
        gs = guards(ctx, f, n)
        T = {t for t, lab in gs if lab == 'T'}
        if not any('self.redefine is not None' in t and 'attribute_group_refs' in t for t in T):
            continue
        if any('.use' in t and 'attributes[name].use' in t for t in T):
            red['use'] = n
        if any('.fixed is not None' in t and '.fixed is None' in t for t in T):
            red['fixed-dropped'] = n
        if any('normalize' in t and '.fixed' in t for t in T):
            red['fixed-changed'] = n
        if any("is_derived(attr.type, 'restriction')" in t and t.count('not ') >= 1 for t in T):
            red['type'] = n
    for k, what, eg in (('use', 'a weakened use is refused', ''), ('fixed-dropped', 'a dropped fixed value is refused', ''),
                        ('fixed-changed', 'a changed fixed value is refused', 'AG {f fixed="x"} redefined as {f fixed="y"} is accepted and <root f="y"/> becomes valid'),
                        ('type', 'an attribute type that is not a restriction of the redefined attribute type is refused',
                         'AG {a: xs:int} redefined as {a: xs:string} is accepted and <root a="zz"/> becomes valid')):
        ctx.ob(rule, f'redefinition of an attribute group by restriction: {what}', f.loc(red[k].ast) if k in red else f.loc(), k in red,
               '' if k in red else f'no parse_error with this path condition in the redefinition branch (the derivation branch has it){": " + eg if eg else ""}',
               key=f'attributes._parse|redefine|{k}')
    if 'type-exempt' in found:
        x, exempt = found['type-exempt']
        ctx.ob(rule, 'restriction of attributes: the type test exempts nothing but a prohibited redeclaration', f.loc(x.ast), not exempt,
               '' if not exempt else f'no error when {"; ".join(exempt)}: e.g. an xs:int attribute redeclared without a type (xs:anySimpleType) in a restriction is accepted and '
               'the derived type admits x="abc", which the base rejects', key='attributes._parse|type-exempt')
    ok = 'use' in found
    det = ''
    if ok:
        n, t = found['use']
        # evaluate the use test on the 3x3 table
        expr = None
        for x in g.nodes:
            if x.kind == 'if' and text(x.ast.test) == t:
                expr = x.ast.test
        uses = ('optional', 'required', 'prohibited')

        def ev(e, env):
            if isinstance(e, ast.BoolOp):
                vals = [ev(v, env) for v in e.values]
                return all(vals) if isinstance(e.op, ast.And) else any(vals)
            if isinstance(e, ast.UnaryOp) and isinstance(e.op, ast.Not):
                return not ev(e.operand, env)
            if isinstance(e, ast.Compare) and len(e.ops) == 1 and isinstance(e.comparators[0], ast.Constant) and text(e.left) in env:
                r = env[text(e.left)] == e.comparators[0].value
                return r if isinstance(e.ops[0], ast.Eq) else (not r if isinstance(e.ops[0], ast.NotEq) else None)
            raise AnalysisError(f'UNRECOGNISED-IDIOM {rule}: use test `{text(e)}`')
        bad = []
        for bu in uses:
            for au in uses:
                got = ev(expr, {'base_attr.use': bu, 'attr.use': au})
                spec = (bu == 'required' and au != 'required') or (bu == 'prohibited' and au == 'optional')
                if bool(got) != spec:
                    bad.append((bu, au, got))
        ok = not bad
        det = '' if ok else f'differs for (base use, restricted use, refused?) {bad[:3]}'
    ctx.ob(rule, 'restriction of attributes: a weakened use (required -> optional/prohibited, prohibited -> optional) is refused (3x3 table)',
           f.loc(found['use'][0].ast) if 'use' in found else f.loc(), ok, det, key='attributes._parse|use')
    ctx.explain('C14.d: presence and path condition of the five attribute-restriction parse errors; the use test is '
                'evaluated on the 3x3 table of use values.')


# ---------------------------------------------------------------------------------------------------------------------
# C14.e  group overrides of has_occurs_restriction accept only behind the minimum-occurs comparison

def _single_return(fn) -> 'ast.AST | None':
    body = [b for b in fn.node.body if not (isinstance(b, ast.Expr) and isinstance(b.value, ast.Constant))]
    if len(body) == 1 and isinstance(body[0], ast.Return) and body[0].value is not None:
        return body[0].value
    return None


def _particles_formula(ctx: Ctx, f, e: ast.AST, atoms: dict, depth: int = 0):
    """Boolean formula over atoms; the atom 'P' means "the group has at least one particle"."""
    if isinstance(e, ast.BoolOp):
        return ('and' if isinstance(e.op, ast.And) else 'or', [_particles_formula(ctx, f, v, atoms, depth) for v in e.values])
    if isinstance(e, ast.UnaryOp) and isinstance(e.op, ast.Not):
        return ('not', [_particles_formula(ctx, f, e.operand, atoms, depth)])
    t = text(e)
    if t in ('self', 'self._group', 'len(self)', 'len(self._group)', 'bool(self)', 'bool(self._group)'):
        return ('atom', 'P')
    if isinstance(e, ast.Compare) and len(e.ops) == 1 and text(e.left) in ('len(self)', 'len(self._group)') \
            and isinstance(e.comparators[0], ast.Constant) and isinstance(e.comparators[0].value, int):
        k, op = e.comparators[0].value, type(e.ops[0])
        if (op, k) in ((ast.Eq, 0), (ast.Lt, 1), (ast.LtE, 0)):
            return ('not', [('atom', 'P')])
        if (op, k) in ((ast.NotEq, 0), (ast.Gt, 0), (ast.GtE, 1)):
            return ('atom', 'P')
    if isinstance(e, ast.Compare) and len(e.ops) == 1 and isinstance(e.ops[0], (ast.Eq, ast.NotEq)) \
            and text(e.left) in ('self._group', 'list(self)') and text(e.comparators[0]) == '[]':
        return ('not', [('atom', 'P')]) if isinstance(e.ops[0], ast.Eq) else ('atom', 'P')
    if isinstance(e, ast.Call) and isinstance(e.func, ast.Attribute) and text(e.func.value) == 'self' and not e.args and not e.keywords \
            and f.cls is not None and depth < 3:
        m = f.cls.find_method(e.func.attr)
        r = _single_return(m) if m is not None else None
        if r is not None:
            return _particles_formula(ctx, m, r, atoms, depth + 1)
    atoms.setdefault(t, len(atoms))
    return ('atom', t)


def _ev_formula(fm, env) -> bool:
    k, a = fm
    if k == 'atom':
        return env[a]
    if k == 'not':
        return not _ev_formula(a[0], env)
    vals = [_ev_formula(x, env) for x in a]
    return all(vals) if k == 'and' else any(vals)


def _implies_no_particles(ctx: Ctx, f, e: ast.AST, negate: bool) -> bool:
    """Does (e if not negate else not e) imply that the group has no particles?  (truth table over the other atoms)"""
    atoms: dict = {}
    fm = _particles_formula(ctx, f, e, atoms)
    names = ['P'] + list(atoms)
    if len(names) > 10:
        return False
    sat = False
    for bits in itertools.product((False, True), repeat=len(names)):
        env = dict(zip(names, bits))
        v = _ev_formula(fm, env)
        if v != negate:
            sat = True
            if env['P']:
                return False
    return sat


def _is_min_compare(e: ast.AST):
    """'lt' for `<self-side min> < other.<min>`, 'ge' for `<self-side min> >= other.<min>` (and the mirrored forms)."""
    if not (isinstance(e, ast.Compare) and len(e.ops) == 1):
        return None
    a, b, op = text(e.left), text(e.comparators[0]), type(e.ops[0])
    sa, sb = ('min_occurs' in a and 'self.' in a and 'other.' not in a), ('min_occurs' in b and b.startswith('other.'))
    ma, mb = ('min_occurs' in a and a.startswith('other.')), ('min_occurs' in b and 'self.' in b and 'other.' not in b)
    if sa and sb:
        return {ast.Lt: 'lt', ast.GtE: 'ge'}.get(op)
    if ma and mb:
        return {ast.Gt: 'lt', ast.LtE: 'ge'}.get(op)
    return None


def rule_e(ctx: Ctx) -> None:
    """Every group override of ParticleMixin.has_occurs_restriction reaches an unconditional accept (`return True`) only after
    the minimum-occurs comparison with the base particle has passed, or when the group has no particles at all."""
    rule = 'C14.e'
    base = ctx.idx.cls('xmlschema.validators.particles.ParticleMixin')
    group = ctx.idx.cls('xmlschema.validators.groups.XsdGroup')
    ln = group.find_method('__len__')
    if ln is None or _single_return(ln) is None or text(_single_return(ln)) != 'len(self._group)':
        raise AnalysisError(f'UNRECOGNISED-IDIOM {rule}: XsdGroup.__len__ is not `return len(self._group)` (truthiness of a group = has particles)')
    n = 0
    for c in ctx.idx.subclasses(base):
        if c is base or group not in c.mro():
            continue
        f = c.methods.get('has_occurs_restriction')
        if f is None:
            continue
        ctx.analysed(f.qualname)
        g = cfg_of(ctx, f)
        cut = set()
        for b in g.nodes:
            if b.kind != 'if':
                continue
            t = b.ast.test
            mc = _is_min_compare(t)
            if mc == 'lt':
                cut.add((b, 'F'))
            elif mc == 'ge':
                cut.add((b, 'T'))
            if _implies_no_particles(ctx, f, t, negate=False):
                cut.add((b, 'T'))
            if _implies_no_particles(ctx, f, t, negate=True):
                cut.add((b, 'F'))
        # nodes reachable from entry without crossing a cut edge
        seen, stack = set(), [g.entry]
        prev = {}
        while stack:
            x = stack.pop()
            if x in seen:
                continue
            seen.add(x)
            for m, lab in g.succ[x]:
                if (x, lab) in cut or m in seen:
                    continue
                prev.setdefault(m, (x, lab))
                stack.append(m)
        for r in g.nodes:
            if not (isinstance(r.ast, ast.Return) and r.kind not in ('entry', 'exit', 'raise_exit')
                    and isinstance(r.ast.value, ast.Constant) and r.ast.value.value is True):
                continue
            n += 1
            ok = r not in seen
            det = ''
            if not ok:
                path, x = [], r
                while x in prev and len(path) < 12:
                    x, lab = prev[x]
                    if x.kind in ('if', 'while'):
                        path.append(f'`{text(x.ast.test)[:50]}`={lab}')
                det = ('this accept is reached without `self.<min> < other.<min>` having been tested and with particles possibly present: path '
                       + ' <- '.join(path) + '; a group that still has particles is then an occurs-restriction of any base particle, '
                       'so a restricted type can accept the empty content its base rejects')
            gs = sorted(t for t, lab in guards(ctx, f, r) if lab == 'T')
            ctx.ob(rule, f'{c.name}.has_occurs_restriction: `return True` under {gs[-1][:50] if gs else "handler/fallthrough"} lies behind the '
                   'minimum-occurs comparison or an emptiness test', f.loc(r.ast), ok, det,
                   key=f'{c.name}.has_occurs_restriction|accept|{gs[-1][:50] if gs else "-"}')
    ctx.floor(rule, 'unconditional accepts in group occurs-restriction overrides', n, 5)
    ctx.explain('C14.e: in each override of has_occurs_restriction below XsdGroup, edges out of `if` tests that establish '
                '"minimum not lowered" (self-side min < other min, False branch) or "no particles" (truth table over the '
                'test with single-return helper methods inlined) are cut; no `return True` may remain reachable from entry.')


def rule_f(ctx: Ctx) -> None:
    """A wildcard of a restriction is accepted only if the set of namespaces it denotes is included in the set of the base wildcard
    (C16.c body: is_restriction folded for every pair of constraint kinds)."""
    from .c16 import rule_c as wildcard_inclusion
    wildcard_inclusion(ctx, 'C14.f')


def rule_g(ctx: Ctx) -> None:
    """simpleContent restriction: whenever the base type has simple content, the content type built for the restriction is tested
    for being derived from the base content (the unchecked construction is for a mixed, emptiable base *without* simple content)."""
    rule = 'C14.g'
    from .common import reach_cut
    f = ctx.idx.method('xmlschema.validators.complex_types.XsdComplexType', '_parse_simple_content_restriction')
    ctx.analysed(f.qualname)
    g = cfg_of(ctx, f)
    builds = [n for n in g.nodes if n.kind == 'stmt' and isinstance(n.ast, ast.Assign) and text(n.ast.targets[0]) == 'self.content'
              and 'atomic_restriction_class' in text(n.ast.value)]
    ctx.floor(rule, 'constructions of the restricted simple content', len(builds), 2)
    hs = [x for x in g.nodes if x.kind == 'if' and text(x.ast.test) == 'base_type.has_simple_content()']
    nhs = [x for x in g.nodes if x.kind == 'if' and text(x.ast.test) == 'not base_type.has_simple_content()']
    checks = [x for x in g.nodes if x.kind == 'if' and 'is_derived(base_type.content' in text(x.ast.test)]
    # a base that accepts only the empty value: the restriction must be empty too (the inclusion test for that case)
    checks += [x for x in g.nodes if x.kind == 'if' and text(x.ast.test) == 'not self.is_empty()' and ('base_type.is_empty()', 'T') in guards(ctx, f, x)]
    # nodes reachable from the entry while "the base has simple content" is still possible
    maybe = reach_cut(g, [g.entry], {(x, 'F') for x in hs} | {(x, 'T') for x in nhs}, kinds='nTF')
    for n in builds:
        if n not in maybe:
            ctx.ob(rule, f'_parse_simple_content_restriction: the unchecked construction (line {n.lineno}) is only for a base without simple content', f.loc(n.ast), True, '',
                   key=f'simple-content|build|excluded', nontrivial=False)
            continue
        # a derivation check follows on every path to the exit
        w = g.must_pass(n, [g.exit], checks, kinds='nTF') if checks else [n]
        ok = w is None
        ctx.ob(rule, '_parse_simple_content_restriction: a content type built for a base with simple content is tested with is_derived(base_type.content, \'restriction\')',
               f.loc(n.ast), ok, '' if ok else 'this construction is reachable while the base may have simple content and no derivation test follows: a nested simpleType that '
               'is not derived from the base content (wider bound, other primitive) is accepted - values valid for the restriction are invalid for the base',
               key='simple-content|build|checked')
    ctx.explain('C14.g: edge-cut reachability - the constructions of the restricted content reachable without `base_type.has_simple_content()` '
                'having been found false must be followed by the is_derived(base_type.content, …) test on every path.')


def rule_h(ctx: Ctx) -> None:
    """A redefinition by restriction restricts the component it redefines.  The builder keeps the old state in `self.redefine` and
    re-parses the component in place, so a self-reference must resolve to `self.redefine` (complex types, groups and attribute
    groups do; the sibling for simple types must too, or the facets of the redefined type are lost)."""
    rule = 'C14.h'
    n = 0
    f = ctx.idx.method('xmlschema.validators.simple_types.XsdAtomicRestriction', '_parse')
    ctx.analysed(f.qualname)
    g = cfg_of(ctx, f)
    for node in g.nodes:
        if not (node.kind == 'stmt' and isinstance(node.ast, ast.Assign) and text(node.ast.targets[0]) == 'base_type'):
            continue
        gs = guards(ctx, f, node)
        if ('base_qname == self.name', 'T') in gs and (('self.redefine is None', 'F') in gs or ('self.redefine is not None', 'T') in gs):
            n += 1
            ok = text(node.ast.value) == 'self.redefine'
            ctx.ob(rule, 'XsdAtomicRestriction._parse: a self-reference in a redefinition resolves to the redefined type', f.loc(node.ast), ok,
                   '' if ok else f'`{text(node.ast)}`: the base of the redefinition is not the redefined type - T = xs:int maxInclusive 10 redefined with minInclusive 0 accepts 20, '
                   'which the redefined T rejects', key='XsdAtomicRestriction._parse|redefine-base')
    ctx.floor(rule, 'self-reference resolutions of simple type redefinitions', n, 1)
    ct = ctx.idx.method('xmlschema.validators.complex_types.XsdComplexType', '_parse')
    ok = any(isinstance(s_, ast.Assign) and text(s_.targets[0]) == 'self.base_type' and text(s_.value) == 'self.redefine' for s_ in walk_no_nested(ct.node))
    ctx.ob(rule, 'XsdComplexType._parse: a self-reference in a redefinition resolves to the redefined type', ct.loc(), ok, '', key='XsdComplexType._parse|redefine-base')
    b = ctx.idx.func('xmlschema.validators.builders.StagedMap._build_global')
    ok = any(isinstance(s_, ast.Assign) and text(s_.targets[0]) == 'component.redefine' and 'copy' in text(s_.value) for s_ in walk_no_nested(b.node))
    ctx.ob(rule, 'the builder keeps a copy of the redefined component in `redefine` before re-parsing it', b.loc(), ok, '', key='_build_global|redefine-copy', nontrivial=False)
    ctx.explain('C14.h: sibling agreement on the base of a redefinition (simple types vs complex types): the value assigned under '
                '`base_qname == self.name` with a redefine present is `self.redefine`.')


def rule_i(ctx: Ctx) -> None:
    """Restricted facets accept a subset: the pattern facets of the base steps stay in force (C02.k body)."""
    from .c02 import rule_k as patterns_of_every_step
    patterns_of_every_step(ctx, 'C14.i')


def rule_j(ctx: Ctx) -> None:
    from .c07 import derived_ok
    derived_ok(ctx, 'C14.j')


def rule_k(ctx: Ctx) -> None:
    """Element particle against a base choice: the branches are alternatives, so the occurrence range compared with the derived
    particle describes ONE branch (times the occurrences of the choice).  An accumulator created before the loop over the branches
    must be cleared on every way back to the loop head."""
    rule = 'C14.k'
    from .common import reach_cut
    n_inst = 0
    for f in ctx.idx.iter_functions('validators'):
        if isinstance(f.node, ast.Lambda) or f.name != 'is_restriction':
            continue
        accs = {}
        for s in walk_no_nested(f.node):
            if isinstance(s, ast.Assign) and len(s.targets) == 1 and isinstance(s.targets[0], ast.Name) and text(s.value) == 'OccursCalculator()':
                accs[s.targets[0].id] = s
        if not accs:
            continue
        ctx.analysed(f.qualname)
        g = cfg_of(ctx, f)
        for v, d in accs.items():
            loops = [x for x in g.nodes if x.kind == 'for' and any(isinstance(y, ast.AugAssign) and text(y.target) == v for y in ast.walk(x.ast))]
            for lp in loops:
                gs = guards(ctx, f, lp)
                if not any(t.replace('"', "'").endswith(".model == 'choice'") and lab == 'T' for t, lab in gs):
                    continue    # in a sequence / all group the occurrences of the items do add up
                n_inst += 1
                grp = [t for t, lab in gs if t.replace('"', "'").endswith(".model == 'choice'")][0].split('.model')[0]
                body = reach_cut(g, [m for m, lab in g.succ[lp] if lab == 'T'], set(), avoid=[lp], kinds='nTF')
                adds = [x for x in body if x.kind == 'stmt' and isinstance(x.ast, ast.AugAssign) and text(x.ast.target) == v and isinstance(x.ast.op, ast.Add)]
                muls = [x for x in body if x.kind == 'stmt' and isinstance(x.ast, ast.AugAssign) and text(x.ast.target) == v and isinstance(x.ast.op, ast.Mult)
                        and text(x.ast.value) == grp]
                resets = [x for x in body if x.kind == 'stmt' and ((isinstance(x.ast, ast.Expr) and text(x.ast.value) == f'{v}.reset()')
                                                                    or (isinstance(x.ast, ast.Assign) and text(x.ast.targets[0]) == v
                                                                        and text(x.ast.value) == 'OccursCalculator()'))]
                tests = [x for x in body if x.kind == 'if' and any(text(c.func).endswith('has_occurs_restriction') and c.args and text(c.args[0]) == v
                                                                   for c in calls(x.ast.test))]
                loc = f.loc(lp.ast)
                # (1) from an augmentation the next augmentation (of the next branch) is reached only through a reset / a fresh accumulator
                starts = [m for a in muls or adds for m, lab in g.succ[a] if lab in 'nTF']
                seen = reach_cut(g, starts, set(), avoid=resets, kinds='nTF')
                back = any(a in seen for a in adds)
                ctx.ob(rule, f'{f.qualname.split(".", 2)[-1]}: the occurrence accumulator `{v}` is cleared before the next branch of the choice is tried', loc,
                       bool(adds) and not back,
                       '' if adds and not back else f'`{v}` keeps the occurrences of a branch that was tried and rejected: the range compared with the derived particle is the '
                       'sum over every matching branch, so e.g. a{2,2} is accepted as a restriction of choice(a | any) and the derived type admits what the base rejects',
                       key=f'{f.qualname}|choice-acc|{v}|reset')
                # (2) the comparison sees branch occurrences times the occurrences of the choice
                for t in tests:
                    st = [m for m, lab in g.succ[lp] if lab == 'T']
                    no_add = t in reach_cut(g, st, set(), avoid=adds + [lp], kinds='nTF')
                    no_mul = t in reach_cut(g, st, set(), avoid=muls + [lp], kinds='nTF')
                    order = bool(adds) and bool(muls) and all(m_ in reach_cut(g, [a], set(), avoid=[lp], kinds='nTF') for a in adds for m_ in muls)
                    ok = not no_add and not no_mul and order
                    ctx.ob(rule, f'{f.qualname.split(".", 2)[-1]}: the range tested is (occurrences of the branch) x (occurrences of the choice)', f.loc(t.ast), ok,
                           '' if ok else ('the test is reachable without `+= <branch>`' if no_add else f'the test is reachable without `*= {grp}`' if no_mul
                                          else 'the multiplication precedes the addition'),
                           key=f'{f.qualname}|choice-acc|{v}|range')
                    # the true edge of the test accepts, nothing else in the loop does
                    acc = [r for r in body if r.kind == 'return' and text(r.ast.value) == 'True']
                    ok = bool(acc) and all(any((text(t.ast.test), 'T') == gd for gd in guards(ctx, f, r)) for r in acc)
                    ctx.ob(rule, f'{f.qualname.split(".", 2)[-1]}: a branch is accepted only when the occurrence test holds', f.loc(t.ast), ok, '',
                           key=f'{f.qualname}|choice-acc|{v}|accept')
                ctx.floor(rule, f'has_occurs_restriction({v}) tests in the choice loop', len(tests), 1)
    ctx.floor(rule, 'occurrence accumulators over the branches of a choice', n_inst, 1)
    ctx.explain('C14.k: typestate of the OccursCalculator local in is_restriction(): under the guard `….model == \'choice\'` every path from an augmentation '
                'back to the loop head passes reset() (or a fresh OccursCalculator()); the tested range is built as += branch, *= choice.')


def rule_l(ctx: Ctx) -> None:
    """Every sibling implementation of is_restriction(other): a verdict of acceptance depends on the base.  A `return True` that is
    not control dependent on any test of `other` accepts the derived particle over every base; for the empty derived group the base
    must be emptiable (Particle Valid (Restriction): an empty particle restricts only an emptiable one)."""
    rule = 'C14.l'
    n = 0
    for f in ctx.idx.iter_functions('validators'):
        if isinstance(f.node, ast.Lambda) or f.name != 'is_restriction' or f.cls is None or 'other' not in f.params:
            continue
        if f.cls.name in ('ParticleMixin',):
            continue
        g = cfg_of(ctx, f)
        ctx.analysed(f.qualname)
        for r in g.nodes:
            if r.kind != 'return' or r.ast.value is None:
                continue
            v = r.ast.value
            if isinstance(v, ast.Constant) and v.value is False:
                continue      # refusing is always on the safe side of this property
            n += 1
            mentions = any(isinstance(x, ast.Name) and x.id == 'other' for x in ast.walk(v))
            gs = guards(ctx, f, r)
            dep = [t for t, lab in gs if 'other' in _names_in(t)]
            ok = mentions or bool(dep)
            ctx.ob(rule, f'{f.qualname.split(".", 2)[-1]}: `return {text(v)[:50]}` (line {r.lineno}) depends on the base particle', f.loc(r.ast), ok,
                   '' if ok else f'accepted for every base: the only conditions are {sorted(t for t, _ in gs)} - e.g. an empty <xs:sequence/> is accepted as a restriction of a '
                   'base content with a required element, and <d/> is valid for the derived type while it is invalid for the base',
                   key=f'{f.qualname}|accept|{text(v)[:40]}|{sorted(t for t, _ in gs)[:2]}')
        if f.cls.name in ('XsdGroup', 'Xsd11Group'):
            # the emptiness branch asks the base whether it is emptiable
            empt = [x for x in g.nodes if x.kind == 'if' and text(x.ast.test) in ('not self._group', 'not self', 'len(self) == 0', 'len(self._group) == 0', 'self.is_empty()')]
            ok = bool(empt)
            for x in empt:
                succ = [m for m, lab in g.succ[x] if lab == 'T']
                ok = ok and all(m.kind == 'return' and m.ast.value is not None and 'other' in _names_in(text(m.ast.value))
                                and any(k in text(m.ast.value) for k in ('is_emptiable', 'effective_min_occurs')) for m in succ)
            ctx.ob(rule, f'{f.qualname.split(".", 2)[-1]}: an empty derived group is a restriction exactly of an emptiable base', f.loc(empt[0].ast) if empt else f.loc(), ok,
                   '' if ok else 'the empty-group branch does not return other.is_emptiable()', key=f'{f.qualname}|empty-group')
    ctx.floor(rule, 'accepting returns of the is_restriction siblings', n, 12)
    ctx.explain('C14.l: sibling cross-check over every is_restriction(other) implementation - each return that can accept either computes its value from `other` '
                'or is control dependent on a test of `other`; the empty derived group returns other.is_emptiable().')


def _names_in(t: str) -> set:
    try:
        return {x.id for x in ast.walk(ast.parse(t, mode='eval')) if isinstance(x, ast.Name)}
    except SyntaxError:
        return set()


def _forced_true(test: ast.AST, fixed: dict) -> 'list | None':
    """``fixed`` maps a substring to the value of the atom containing it.  None when the test is true for every value of the other
    atoms; otherwise the falsifying assignment of the free atoms.  [] when a fixed atom does not occur."""
    from .common import bool_atoms, bool_eval
    atoms = bool_atoms(test)
    env0 = {}
    for sub, val in fixed.items():
        hit = [a for a in atoms if sub in a]
        if not hit:
            return []
        for a in hit:
            env0[a] = val
    free = [a for a in atoms if a not in env0]
    if len(free) > 8:
        return free
    for bits in itertools.product((False, True), repeat=len(free)):
        env = dict(env0)
        env.update(zip(free, bits))
        if not bool_eval(test, env):
            return [f'`{a}` is {b}' for a, b in zip(free, bits)] or ['(no free atom)']
    return None


ELEMENT_REFUSALS = (
    ('type', {'is_derived(other.type': False, 'is_consistent(other)': False, 'self.type.elem is not other.type.elem': True},
     'the type of the derived element is not derived by restriction from the type of the base element',
     'e.g. a base element of an abstract complex type redeclared as xs:string is accepted and the derived type admits <e>abc</e>'),
    ('fixed-dropped', {'other.fixed is not None': True, 'self.fixed is None': True},
     'the base element has a fixed value and the derived element has none', 'the derived type admits any value where the base admits one'),
    ('nillable', {'other.nillable is False': True, 'self.nillable': True},
     'the derived element is nillable and the base element is not', 'the derived type admits xsi:nil="true" where the base rejects it'),
)


ELEMENT_EARLY_EXITS = {
    'self.max_occurs == 0 and check_occurs': 'an element particle that cannot occur restricts anything whose occurrences admit zero (occurs test passed just before)',
    'self.name != other.name': 'name mismatch: the branch returns False unless the base is the head of a substitution group containing the derived element',
}


def rule_m(ctx: Ctx) -> None:
    """Element against element (NameAndTypeOK): the refusals of XsdElement.is_restriction have no exemptions."""
    rule = 'C14.m'
    f = ctx.idx.method('xmlschema.validators.elements.XsdElement', 'is_restriction')
    ctx.analysed(f.qualname)
    g = cfg_of(ctx, f)
    chain = []
    for x in g.nodes:
        if x.kind != 'if':
            continue
        gs = guards(ctx, f, x)
        if ('isinstance(other, XsdElement)', 'T') not in gs:
            continue
        succ = [m for m, lab in g.succ[x] if lab == 'T']
        if succ and all(m.kind == 'return' and isinstance(m.ast.value, ast.Constant) and m.ast.value.value is False for m in succ):
            chain.append(x)
    ctx.floor(rule, 'refusing tests of the element-against-element branch', len(chain), 5)
    for k, fixed, what, eg in ELEMENT_REFUSALS:
        best = None
        for x in chain:
            r = _forced_true(x.ast.test, fixed)
            if r is None:
                best = (x, None)
                break
            if r and best is None:
                best = (x, r)
        ok = best is not None and best[1] is None
        det = ''
        if not ok:
            det = ('no test refuses this case' if best is None else f'`{text(best[0].ast.test)[:110]}` does not refuse when {"; ".join(best[1])}') + f': {eg}'
        else:
            # the refusing test is reached whenever the earlier tests of the branch are false: each of those either refuses too or is a reviewed accept
            up = {}
            for i in ast.walk(f.node):
                if isinstance(i, ast.If) and len(i.orelse) == 1 and isinstance(i.orelse[0], ast.If):
                    up[id(i.orelse[0])] = i
            earlier, cur = [], best[0].ast
            while id(cur) in up:
                cur = up[id(cur)]
                earlier.append(cur)
            for y in g.nodes:
                if y.kind == 'if' and any(y.ast is e_ for e_ in earlier):
                    t = text(y.ast.test)
                    if True:
                        succ = [m for m, l2 in g.succ[y] if l2 == 'T']
                        refuses = succ and all(m.kind == 'return' and isinstance(m.ast.value, ast.Constant) and m.ast.value.value is False for m in succ)
                        if not refuses and t not in ELEMENT_EARLY_EXITS:
                            ok = False
                            det = f'the refusal is bypassed when `{t[:90]}` (line {y.lineno}) holds: that branch neither refuses nor is a reviewed accept'
        ctx.ob(rule, f'XsdElement.is_restriction refuses when {what}', f.loc(best[0].ast) if best else f.loc(), ok, det, key=f'{f.qualname}|refuse|{k}')
    blk = [x for x in chain if 'other.block' in text(x.ast.test) and 'self.block' in text(x.ast.test)]
    ctx.ob(rule, 'XsdElement.is_restriction refuses when the derived element blocks less than the base element', f.loc(blk[0].ast) if blk else f.loc(), bool(blk), '',
           key=f'{f.qualname}|refuse|block')
    idn = [x for x in chain if 'other.identities' in text(x.ast.test) and 'self.identities' in text(x.ast.test)]
    ctx.ob(rule, 'XsdElement.is_restriction refuses identity constraints that the base element does not have', f.loc(idn[0].ast) if idn else f.loc(), bool(idn), '',
           key=f'{f.qualname}|refuse|identities')
    ctx.explain('C14.m: the refusing tests of the element-against-element branch (guard isinstance(other, XsdElement), true edge returns False) are evaluated as truth '
                'tables: with the defining atoms of a refusal fixed, the test must hold for every value of its other atoms - an extra conjunct is an exemption.')


def rule_n(ctx: Ctx) -> None:
    """`is_derived(base, 'restriction')` in the restriction checks means "derived using restriction steps only".  An implementation
    that discharges the filter at the first matching step (`derivation = None`) and then recurses into its base type answers
    "some step is a restriction": a restriction of an extension of the base passes."""
    rule = 'C14.n'
    # (a) call sites that rely on the every-step reading
    users = []
    for f in ctx.idx.iter_functions('validators'):
        if isinstance(f.node, ast.Lambda) or f.name not in ('is_restriction', '_parse', '_parse_simple_content_restriction', '_parse_complex_content_restriction',
                                                              'is_element_restriction'):
            continue
        for c in calls(f.node):
            if isinstance(c.func, ast.Attribute) and c.func.attr == 'is_derived' and len(c.args) == 2 and isinstance(c.args[1], ast.Constant) \
                    and c.args[1].value == 'restriction':
                users.append((f, c))
    ctx.floor(rule, "is_derived(…, 'restriction') call sites in the restriction checks", len(users), 3)
    # (b) sibling implementations of is_derived
    n = 0
    for cq in ('xmlschema.validators.complex_types.XsdComplexType', 'xmlschema.validators.simple_types.XsdSimpleType', 'xmlschema.validators.simple_types.XsdList',
               'xmlschema.validators.simple_types.XsdUnion'):
        c = ctx.idx.cls(cq)
        f = c.methods.get('is_derived')
        if f is None:
            continue
        n += 1
        ctx.analysed(f.qualname)
        g = cfg_of(ctx, f)
        rd = g.reaching_defs(kinds='nTF')
        clears = [x for x in g.nodes if x.kind == 'stmt' and isinstance(x.ast, ast.Assign) and text(x.ast.targets[0]) == 'derivation'
                  and isinstance(x.ast.value, ast.Constant) and x.ast.value.value is None]
        bad = []
        for x, cl in call_nodes(g, lambda cl: isinstance(cl.func, ast.Attribute) and cl.func.attr == 'is_derived' and 'base_type' in text(cl.func.value)):
            if len(cl.args) == 2 and text(cl.args[1]) == 'derivation' and any(d in rd[x].get('derivation', set()) for d in clears):
                # the other derivation kind of this type stops the walk before the recursion?  (simple types: `elif self.derivation: return False`)
                bad.append((x, cl))
        if c.name != 'XsdComplexType':
            # simple types derive by restriction, list or union only, and the list / union siblings end the walk; what has to hold here is
            # that a step of another kind refuses while the filter is still set
            refusal = [r for r in g.nodes if r.kind == 'return' and isinstance(r.ast.value, ast.Constant) and r.ast.value.value is False
                       and {('derivation', 'T'), ('self.derivation', 'T')} <= guards(ctx, f, r)] if c.name == 'XsdSimpleType' else \
                      [r for r in g.nodes if r.kind == 'return' and isinstance(r.ast.value, ast.Constant) and r.ast.value.value is False
                       and any('derivation != self.derivation' in t and lab == 'T' for t, lab in guards(ctx, f, r))]
            okk = bool(refusal) or not clears
            ctx.ob(rule, f'{c.name}.is_derived: a step of another derivation kind refuses while the filter is set', f.loc(refusal[0].ast) if refusal else f.loc(), okk, '',
                   key=f'{f.qualname}|other-kind-refuses')
            continue
        ok = not bad
        ctx.ob(rule, f'{c.name}.is_derived(other, \'restriction\') holds only when every step up to `other` is a restriction', f.loc(bad[0][1]) if bad else f.loc(), ok,
               '' if ok else f'`derivation = None` (line {clears[0].lineno}) reaches `{text(bad[0][1])[:60]}`: once one step matches, the rest of the chain is unconstrained - '
               'T2 = restriction of T1 = extension of T0 passes is_derived(T0, \'restriction\'), so a restriction may redeclare an element of type T0 with type T2 '
               f'({len(users)} call sites in the restriction checks rely on the every-step reading) and admit content the base rejects',
               key=f'{f.qualname}|filter-discharged')
    ctx.floor(rule, 'is_derived implementations', n, 3)
    ctx.explain('C14.n: reaching definitions in the is_derived siblings - a `derivation = None` definition must not reach a recursive is_derived(…, derivation) on the base type.')


def rule_o(ctx: Ctx) -> None:
    """A restriction that prohibits an attribute its base declares, and keeps a wildcard admitting the name, must not accept for that attribute what the base
    rejects: the attribute group hands a prohibited attribute to the wildcard only when the base does not declare it (otherwise the declaration - whose type
    the parser checked to be a restriction of the base's - keeps validating the value)."""
    rule = 'C14.o'
    from .c03 import AG, _wildcard_alias
    n = 0
    for meth in ('raw_decode', 'raw_encode'):
        f = ctx.idx.cls(AG).methods[meth]
        ctx.analysed(f.qualname)
        g = cfg_of(ctx, f)
        binds = [x for x in g.nodes if x.kind == 'stmt' and isinstance(x.ast, ast.Assign) and any(text(t) == 'xsd_attribute' for t in x.ast.targets)
                 and (text(x.ast.value) == 'self._attribute_group[None]' or _wildcard_alias(f, x.ast.value))]
        for b in binds:
            gs = guards(ctx, f, b)
            if not any(("use == 'prohibited'" in t and lab == 'T') or ("use != 'prohibited'" in t and lab == 'F') for t, lab in gs):
                continue
            n += 1
            ok = any('base_attributes' in t and ((lab == 'T' and 'not in self.base_attributes' in t) or (lab == 'F' and 'name in self.base_attributes' in t and 'not in' not in t))
                     for t, lab in gs)
            ctx.ob(rule, f'XsdAttributeGroup.{meth}: a prohibited attribute goes to the wildcard only when the base type does not declare it', f.loc(b.ast), ok,
                   '' if ok else 'the wildcard takes over for every prohibited attribute it admits: Base(a: xs:int, anyAttribute lax), Derived = restriction(a prohibited, anyAttribute lax) '
                   'accepts <d a="abc"/> although <b a="abc"/> is invalid - the restriction widens', key=f'{meth}|prohibited-wildcard-base')
    ctx.floor(rule, 'wildcard bindings on the prohibited branch', n, 2)
    ctx.explain('C14.o: the rebinding of the attribute validator to the wildcard on the prohibited branch of XsdAttributeGroup.raw_decode / raw_encode is control dependent on '
                '`name not in self.base_attributes` (or no base).')


def rule_p(ctx: Ctx) -> None:
    """A type with empty content (attributes only) has no room for character data; a complexContent restriction of it must be empty too.  "Empty" is the
    predicate is_empty() - no particles *and not mixed*; the truth value of the group says only "has particles", so a derived `mixed="true"` type without a model
    group would pass and accept text its base rejects."""
    rule = 'C14.p'
    from .common import bool_atoms
    f = ctx.idx.method('xmlschema.validators.complex_types.XsdComplexType', '_parse_complex_content_restriction')
    ctx.analysed(f.qualname)
    tests = [x for x in ast.walk(f.node) if isinstance(x, ast.If) and 'base_type.is_empty()' in bool_atoms(x.test)]
    ctx.floor(rule, 'tests on an empty base type in _parse_complex_content_restriction', len(tests), 1)
    for t in tests:
        atoms = bool_atoms(t.test)
        others = [a for a in atoms if a != 'base_type.is_empty()']
        reports = any(isinstance(c.func, ast.Attribute) and c.func.attr == 'parse_error' for s_ in t.body for c in calls(s_))
        ok = reports and any(a.endswith('.is_empty()') and a != 'base_type.is_empty()' for a in others) and \
            not any(a in ('content', 'len(content)', 'self.content', 'content._group') for a in others)
        ctx.ob(rule, f'_parse_complex_content_restriction: `{text(t.test)[:70]}` refuses every non-empty derivation of an empty base', f.loc(t), ok,
               '' if ok else f'the derived side is tested with {others}: the truth value of a group is "has particles" - a restriction with mixed="true" and no model group is '
               'accepted and <root xsi:type="Derived">some text</root> is valid although the base type has empty content', key='_parse_complex_content_restriction|empty-base')
    ctx.explain('C14.p: the refusal guarded by `base_type.is_empty()` in _parse_complex_content_restriction tests the derived content with an is_empty() predicate, not with the truth '
                'value / length of the group.')


RULES = [rule_a, rule_b, rule_c, rule_d, rule_e, rule_f, rule_g, rule_h, rule_i, rule_j, rule_k, rule_l, rule_m, rule_n, rule_o, rule_p]
