"""C13 — defused parsing (structural clauses).

C13.a handler table of SafeExpatParser      C13.b the refusal cannot be swallowed
C13.c every defused open passes the scanner  C13.d per-mode decision table of is_defused
C13.e who may parse                          C13.f scanner and parser read the same bytes (DefusableReader)
"""
from __future__ import annotations

import ast

from ..astutil import calls, text, walk_no_nested
from ..index import AnalysisError, dotted
from ..modes import Evaluator, Unrecognised
from ..report import Ctx
from .c12 import literal_value_frozenset
from .common import atom_forces, bool_atoms, call_nodes, cfg_of, guards, reach_cut

SAX = 'xmlschema.resources.sax'
RES = 'xmlschema.resources.xml_resource.XMLResource'
HANDLERS = ('EntityDeclHandler', 'UnparsedEntityDeclHandler', 'ExternalEntityRefHandler')


def _stdlib_param_entity_mode():
    """The mode the standard library's ExpatParser.reset() passes to SetParamEntityParsing (source read with ast, nothing is run)."""
    import os
    import sysconfig
    path = os.path.join(sysconfig.get_path('stdlib'), 'xml', 'sax', 'expatreader.py')
    try:
        tree = ast.parse(open(path, encoding='utf-8').read())
    except OSError:
        return None
    for cls in tree.body:
        if isinstance(cls, ast.ClassDef) and cls.name == 'ExpatParser':
            for m in cls.body:
                if isinstance(m, ast.FunctionDef) and m.name == 'reset':
                    modes = [text(cc.args[0]) for cc in calls(m) if isinstance(cc.func, ast.Attribute) and cc.func.attr == 'SetParamEntityParsing' and cc.args]
                    return modes[-1] if modes else 'none'
    return None


def rule_a(ctx: Ctx) -> None:
    rule = 'C13.a'
    c = ctx.idx.cls(f'{SAX}.SafeExpatParser')
    reset = c.methods.get('reset')
    if reset is None:
        raise AnalysisError(f'missing anchor {SAX}.SafeExpatParser.reset')
    g = cfg_of(ctx, reset)
    assigned = {}
    for n in g.nodes:
        if n.kind == 'stmt' and isinstance(n.ast, ast.Assign):
            for t in n.ast.targets:
                tt = text(t)
                if tt.startswith('self._parser.') and tt.split('.')[-1].endswith('Handler'):
                    assigned[tt.split('.')[-1]] = (n, n.ast.value)
        # handlers assigned in a loop over a tuple: setattr(self._parser, name, meth)
        if n.kind == 'for':
            for cc in calls(n.ast, name='setattr'):
                if text(cc.args[0]) == 'self._parser' and isinstance(n.ast.iter, (ast.Tuple, ast.List)):
                    for el in n.ast.iter.elts:
                        if isinstance(el, (ast.Tuple, ast.List)) and len(el.elts) == 2 and isinstance(el.elts[0], ast.Constant):
                            assigned[el.elts[0].value] = (n, el.elts[1])
    for h in HANDLERS:
        ok = h in assigned
        det = ''
        if ok:
            n, v = assigned[h]
            mname = text(v).split('.')[-1]
            m = c.find_method(mname) if text(v).startswith('self.') else None
            ok = m is not None
            if ok:
                body = [s for s in m.node.body if not (isinstance(s, ast.Expr) and isinstance(s.value, ast.Constant))]
                ok = len(body) == 1 and isinstance(body[0], ast.Raise) and 'XMLResourceForbidden' in text(body[0].exc)
                det = '' if ok else f'{mname} does not unconditionally raise XMLResourceForbidden'
            else:
                det = f'assigned `{text(v)}` is not a method of the parser class'
            # not control dependent on anything
            if ok and guards(ctx, reset, n):
                ok = False
                det = f'assignment is conditional: {sorted(guards(ctx, reset, n))}'
        else:
            det = 'handler not installed by reset()'
        ctx.ob(rule, f'SafeExpatParser.reset installs a refusing {h}', reset.loc(), ok, det, key=f'SafeExpatParser|{h}')
    # super().reset() first (it creates the expat parser object; installing before it would be lost)
    sup = [n for n, cc in call_nodes(g, lambda cc: text(cc.func) == 'super().reset')]
    dom = g.dominators(kinds='nTF')
    ok = len(sup) == 1 and all(sup[0] in dom[n] for n, _ in assigned.values())
    ctx.ob(rule, 'the handlers are installed after super().reset() created the parser', reset.loc(), ok, '', key='SafeExpatParser|order')
    # no handler is cleared afterwards anywhere in the class
    for m in c.methods.values():
        for s in walk_no_nested(m.node):
            if isinstance(s, ast.Assign) and any(text(t).startswith('self._parser.') and text(t).endswith('Handler') for t in s.targets) \
                    and m.name != 'reset':
                ctx.ob(rule, f'SafeExpatParser.{m.name} rebinds a parser handler', m.loc(s), False, text(s), key=f'SafeExpatParser|rebind|{m.name}')
    # the external subset of a standalone document reaches ExternalEntityRefHandler only when parameter-entity parsing is ALWAYS:
    # the base class (stdlib source, read with ast) selects a mode in its reset(); when that mode is not ALWAYS the subclass must override it
    base_mode = _stdlib_param_entity_mode()
    sets = [(n, cc) for n, cc in call_nodes(g, lambda cc: text(cc.func) == 'self._parser.SetParamEntityParsing')]
    if base_mode is not None and not base_mode.endswith('_ALWAYS'):
        good = [n for n, cc in sets if len(cc.args) == 1 and text(cc.args[0]).split('.')[-1] == 'XML_PARAM_ENTITY_PARSING_ALWAYS'
                and not guards(ctx, reset, n) and sup and sup[0] in dom[n]]
        last_ok = bool(good) and all(len(cc.args) == 1 and text(cc.args[0]).split('.')[-1] == 'XML_PARAM_ENTITY_PARSING_ALWAYS' for _, cc in sets)
        ctx.ob(rule, 'SafeExpatParser.reset selects parameter-entity parsing ALWAYS (the base class selects '
               f'{base_mode.split(".")[-1]})', reset.loc(), last_ok,
               '' if last_ok else f'the expat parser is left in mode {base_mode.split(".")[-1]}: the external DTD subset of a document declared '
               'standalone="yes" is skipped silently - ExternalEntityRefHandler is never called and the document is accepted',
               key='SafeExpatParser|param-entity-mode')
    else:
        ctx.ob(rule, 'the base expat reader already parses parameter entities ALWAYS', reset.loc(), base_mode is not None, 'cannot read xml.sax.expatreader',
               key='SafeExpatParser|param-entity-mode')
    ok = any('ExpatParser' in b for b in c.base_exprs)
    ctx.ob(rule, 'SafeExpatParser derives from the SAX expat reader', f'{c.module.relpath}:{c.node.lineno}', ok, '', key='SafeExpatParser|base')
    ctx.trusted.append('pyexpat calls the installed declaration handlers before any expansion (third-party)')
    ctx.explain('C13.a: the three refusing handlers are installed unconditionally by reset(), after super().reset().')


def rule_b(ctx: Ctx) -> None:
    rule = 'C13.b'
    f = ctx.idx.func(f'{SAX}.defuse_xml')
    forb_chain = ctx.idx.exception_class_chain('XMLResourceForbidden', f.module)
    n = 0
    for q in (f'{SAX}.defuse_xml', f'{RES}.open', f'{RES}.__init__', 'xmlschema.resources.xml_resource.XMLResourceManager.__enter__',
              'xmlschema.resources.xml_resource.XMLResourceManager.__exit__'):
        try:
            fn = ctx.idx.func(q)
        except AnalysisError:
            if 'XMLResourceManager' in q:
                continue
            raise
        ctx.analysed(q)
        for t in walk_no_nested(fn.node):
            if not isinstance(t, ast.Try):
                continue
            for h in t.handlers:
                n += 1
                names = {text(e).split('.')[-1] for e in (h.type.elts if isinstance(h.type, ast.Tuple) else [h.type])} if h.type is not None else {'BaseException'}
                catches = bool(names & forb_chain)
                reraises = any(isinstance(x, ast.Raise) and x.exc is None for s in h.body for x in ast.walk(s))
                ok = not catches or reraises
                ctx.ob(rule, f'{q.split(".")[-2]}.{q.split(".")[-1]}: `except {text(h.type) if h.type else ""}` cannot swallow XMLResourceForbidden',
                       fn.loc(h), ok, '' if ok else f'{sorted(names & forb_chain)} is a superclass of XMLResourceForbidden and the handler does not re-raise',
                       key=f'{q}|handler|{sorted(names)}')
    # role "included schema": the refusal of an included / redefined / overridden document reaches the caller of XMLSchema(…) - the handlers
    # around include_schema() in the loader treat a *missing* location leniently (OSError), they must not treat a *forbidden* one that way
    # (imports are lenient by specification and are not part of this property)
    ld = ctx.idx.func('xmlschema.loaders.SchemaLoader.load_declared_schemas')
    ctx.analysed(ld.qualname)
    forb_ld = ctx.idx.exception_class_chain('XMLResourceForbidden', ld.module)
    m = 0
    par = None
    for c in calls(ld.node):
        if text(c.func) != 'self.include_schema':
            continue
        from ..astutil import enclosing_map, enclosing_try_handlers
        par = par or enclosing_map(ld.node)
        for t, hs in enclosing_try_handlers(c, par):
            for h in hs:
                m += 1
                names = {text(e).split('.')[-1] for e in (h.type.elts if isinstance(h.type, ast.Tuple) else [h.type])} if h.type is not None else {'BaseException'}
                catches = bool(names & forb_ld)
                reraises = any(isinstance(x, ast.Raise) and x.exc is None for s_ in h.body for x in ast.walk(s_))
                ok = not catches or reraises
                ctx.ob(rule, f'load_declared_schemas: `except {text(h.type) if h.type else ""}` around include_schema(…) cannot swallow XMLResourceForbidden', ld.loc(h), ok,
                       '' if ok else f'{sorted(names & forb_ld)} covers XMLResourceForbidden and the handler only warns: an included schema that declares an entity is skipped, '
                       'XMLSchema(…, defuse=\'always\') returns a schema without its declarations and instances they would reject become valid',
                       key=f'{ld.qualname}|include-handler|{sorted(names)}')
    ctx.floor(rule, 'handlers around include_schema in the loader', m, 2)
    ctx.floor(rule, 'handlers between the scanner loop and the caller', n, 4)
    # the scan loop covers the prolog: it stops at the first START_ELEMENT, not earlier
    g = cfg_of(ctx, f)
    loops = [x for x in g.nodes if x.kind == 'for' and 'pulldom.parse' in text(x.ast.iter)]
    ok = len(loops) == 1
    if ok:
        brk = [b for b in g.nodes if b.kind == 'break']
        ok = all(('event == pulldom.START_ELEMENT', 'T') in guards(ctx, f, b) for b in brk) and 'parser' in text(loops[0].ast.iter) \
            and not any(r.kind == 'return' and loops[0] in g.reachable([g.entry], avoid=[r]) and False for r in g.nodes)
        # the parser object is the safe one
        pdef = [s for s in walk_no_nested(f.node) if isinstance(s, ast.Assign) and text(s.targets[0]) == 'parser']
        ok = ok and len(pdef) == 1 and text(pdef[0].value) == 'SafeExpatParser()'
    ctx.ob(rule, 'defuse_xml scans the whole prolog (up to the first start tag) with the refusing parser', f.loc(), ok, '', key='defuse_xml|scan')
    # every path to a return of defuse_xml passes the scan loop
    rets = [r for r in g.nodes if r.kind == 'return']
    w = g.must_pass(g.entry, rets, loops, kinds='nTF')
    ctx.ob(rule, 'defuse_xml cannot return without scanning', f.loc(), w is None and bool(loops), '', key='defuse_xml|no-bypass')
    # a scan that did not complete vouches for nothing: the parser that follows is configurable (XMLResource(iterparse=…)) and may
    # read what expat could not; no handler of the try around the scan loop may lead to a normal return
    hs = []
    for t in walk_no_nested(f.node):
        if isinstance(t, ast.Try) and loops and any(x is loops[0].ast for b in t.body for x in ast.walk(b)):
            for h in t.handlers:
                hs += [x for x in g.nodes if x.kind == 'handler' and x.ast is h]
    ctx.floor(rule, 'handlers of the try around the scan loop', len(hs), 1)
    for h in hs:
        reach = g.reachable([h], kinds='nTF')
        falls = [r for r in rets if r in reach] or ([g.exit] if g.exit in reach else [])
        ok = not falls
        ctx.ob(rule, f'defuse_xml: `except {text(h.ast.type) if h.ast.type else ""}` around the scan loop raises (an incomplete scan vouches for nothing)',
               f.loc(h.ast), ok,
               '' if ok else 'the handler falls through to `return fp`: a document that expat cannot read (e.g. UTF-32 without BOM) passes the scan unexamined and a '
               'parser that can read it (XMLResource(iterparse=lxml.etree.iterparse)) expands its entities',
               key=f'defuse_xml|scan-handler|{text(h.ast.type) if h.ast.type else ""}')
    ctx.explain('C13.b: no handler on the way from the pulldom loop to the caller of XMLResource.open catches a superclass of '
                'XMLResourceForbidden without re-raising.')


def rule_c(ctx: Ctx) -> None:
    rule = 'C13.c'
    f = ctx.idx.func(f'{RES}.open')
    g = cfg_of(ctx, f)
    D = 'self.is_defused()'
    tests = [n for n in g.nodes if n.kind == 'if' and D in bool_atoms(n.ast.test)]
    ctx.floor(rule, '`if self.is_defused()` in XMLResource.open', len(tests), 1)
    if not tests:
        ctx.ob(rule, 'open() consults is_defused()', f.loc(), False, 'no test of self.is_defused() in XMLResource.open: the stream is handed to the parser unscanned',
               key=f'{RES}.open|scan')
        return
    t = tests[0]
    scans = [n for n, c in call_nodes(g, lambda c: text(c.func) == 'defuse_xml')]
    rets = [n for n in g.nodes if n.kind == 'return']
    # edges that can only be taken when defusing does NOT apply
    off = set()
    for n in tests:
        if atom_forces(n.ast.test, D, True, True):
            off.add((n, 'F'))          # the test is true whenever is_defused() is: its False branch means "not defused"
        if atom_forces(n.ast.test, D, True, False):
            off.add((n, 'T'))
    live = reach_cut(g, [g.entry], off, avoid=scans, kinds='nTF')
    bad = [r for r in rets if r in live and r not in scans]
    det = ''
    if bad:
        conj = [text(n.ast.test) for n in tests if (n, 'F') not in off and (n, 'T') not in off]
        det = (f'the return at line {bad[0].lineno} is reachable with is_defused() true and without defuse_xml(…)'
               + (f': the scan is additionally conditioned by `{conj[0][:70]}` - e.g. a resource that is re-opened (every pass over a lazy resource '
                  're-reads the file or URL) is parsed unscanned' if conj else ''))
    ctx.ob(rule, 'when defusing applies every path to a return passes defuse_xml(…) (or raises)', f.loc(t.ast), not bad and len(scans) >= 2, det,
           key=f'{RES}.open|scan')
    # the test is on every path to every return of the outer function
    w = g.must_pass(g.entry, rets, tests, kinds='nTF')
    ctx.ob(rule, 'the is_defused() test lies on every path to a return of open()', f.loc(t.ast), w is None, '', key=f'{RES}.open|test-dominates')
    # the rewind branch hands on what the scanner returns (possibly a buffered wrapper), not the raw stream
    rd = g.reaching_defs()
    for n, c in call_nodes(g, lambda c: text(c.func) == 'defuse_xml'):
        a0 = text(c.args[0]) if c.args else ''
        if a0 == 'fp':
            if n.kind == 'return':
                ok = text(n.ast.value).startswith('defuse_xml(fp')
            else:
                tg = text(n.ast.targets[0]) if isinstance(n.ast, ast.Assign) and len(n.ast.targets) == 1 else None
                ok = tg is not None and text(n.ast.value).startswith('defuse_xml(fp') and \
                    any(r.ast.value is not None and text(r.ast.value) == tg and n in rd[r].get(tg, set()) for r in rets)
            ctx.ob(rule, 'the rewind branch returns what the scanner returns (possibly a buffered wrapper)', f.loc(c), ok, '', key=f'{RES}.open|returns-scanner')
        else:
            # second-open branch scans the same URL
            ok = any(x.kind == 'with' and 'open_url(self.url)' in text(x.ast.items[0].context_expr) for x in g.nodes) and a0 == '_fp'
            ctx.ob(rule, 'the non-seekable branch scans a second stream of the same URL', f.loc(c), ok, '', key=f'{RES}.open|second-open')
    # loaders get their stream only through the manager / open
    mg = ctx.idx.cls('xmlschema.resources.xml_resource.XMLResourceManager')
    ent = mg.methods.get('__enter__')
    ok = ent is not None and any(text(s.value) == 'self.resource.open()' for s in ast.walk(ent.node) if isinstance(s, ast.Assign))
    ctx.ob(rule, 'XMLResourceManager obtains the stream from XMLResource.open()', ent.loc() if ent else 'xmlschema/resources/xml_resource.py:1', ok, '',
           key='XMLResourceManager|open')
    ctx.explain('C13.c: CFG must-pass-through from the true branch of self.is_defused() to every return of XMLResource.open.')


def rule_d(ctx: Ctx) -> None:
    rule = 'C13.d'
    args = ctx.idx.module('arguments')
    modes = sorted(literal_value_frozenset(args, 'DEFUSE_MODES'))
    f = ctx.idx.func(f'{RES}.is_defused')
    ctx.analysed(f.qualname)
    c0 = ctx.idx.cls(RES)

    def inl(e):
        # `self.m()` of a single-return helper is read as the returned expression
        if isinstance(e, ast.Call) and isinstance(e.func, ast.Attribute) and text(e.func.value) == 'self' and not e.args and not e.keywords:
            m = c0.find_method(e.func.attr)
            if m is not None:
                body = [b for b in m.node.body if not (isinstance(b, ast.Expr) and isinstance(b.value, ast.Constant))]
                if len(body) == 1 and isinstance(body[0], ast.Return) and body[0].value is not None:
                    return text(body[0].value)
        return text(e)
    # locality is a property of base_url (what relative references and the data itself are resolved against); the same
    # predicates applied to self.url are different atoms: url is None for text/stream sources even when base_url is remote
    atoms = [
        ('remote', lambda e: inl(e) == 'is_remote_url(self.base_url)'),
        ('local', lambda e: inl(e) == 'is_local_url(self.base_url)'),
        ('remote_of_url', lambda e: inl(e) == 'is_remote_url(self.url)'),
        ('local_of_url', lambda e: inl(e) == 'is_local_url(self.url)'),
    ]
    spec = {
        'always': lambda a: True,
        'never': lambda a: False,
        'remote': lambda a: a['remote'],
        'nonlocal': lambda a: not a['local'],
    }
    ev = Evaluator('self._defuse', atoms)
    try:
        table = ev.table(f.node.body, modes)
    except Unrecognised as e:
        raise AnalysisError(f'{rule}: {e}')
    names = [n for n, _ in atoms]
    for m in modes:
        if m not in spec:
            ctx.ob(rule, f"mode '{m}' of DEFUSE_MODES has a specified decision", f.loc(), False, 'unknown to the specification table', key=f'defuse|{m}|unspecified')
            continue
        bad = []
        for vals, (kind, val) in table[m].items():
            env = dict(zip(names, vals))
            got = bool(val) if kind == 'return' else None
            if got is None or got != spec[m](env):
                bad.append((env, f'{kind} {val}'))
        ctx.ob(rule, f"defuse='{m}': is_defused() is true exactly in the specified cases", f.loc(), not bad,
               '' if not bad else f'differs for {bad[0]}', key=f'defuse|{m}|table')
    # default of the option
    c = ctx.idx.cls(RES)
    d = c.find_attr('defuse')
    ok = d is not None and "default='remote'" in text(d[1])
    ctx.ob(rule, "the default defuse mode is 'remote'", f'{c.module.relpath}:{getattr(d[1], "lineno", 0) if d else 0}', ok, '', key='defuse|default', nontrivial=False)
    ctx.explain('C13.d: partial evaluation of is_defused() for every value of DEFUSE_MODES over the atoms '
                '{is_remote_url(base_url), is_local_url(base_url)}.')


PARSER_ENTRY = {'xml.etree.ElementTree.iterparse', 'xml.etree.ElementTree.parse', 'xml.etree.ElementTree.fromstring',
                'xml.etree.ElementTree.XML', 'xml.etree.ElementTree.XMLParser', 'xml.etree.ElementTree.XMLPullParser',
                'xml.dom.pulldom.parse', 'xml.dom.pulldom.parseString', 'xml.dom.minidom.parse', 'xml.dom.minidom.parseString',
                'xml.sax.parse', 'xml.sax.parseString', 'xml.sax.make_parser', 'pyexpat.ParserCreate', 'xml.parsers.expat.ParserCreate',
                'lxml.etree.iterparse', 'lxml.etree.parse', 'lxml.etree.fromstring', 'lxml.etree.XML', 'lxml.etree.XMLParser'}
PARSE_SITES = {
    ('xmlschema.resources.parsers.generic_iterparse', 'ElementTree.iterparse'): 'the default parser function injected into the loaders',
    (f'{SAX}.defuse_xml', 'pulldom.parse'): 'the defusing scanner itself',
    ('xmlschema.resources.xml_loader.XMLResourceLoader._parse', 'self._iterparse'): 'loader: stream comes from XMLResourceManager',
    ('xmlschema.resources.xml_loader.XMLResourceLoader._lazy_iterparse', 'self._iterparse'): 'loader: stream comes from XMLResourceManager',
}


def rule_e(ctx: Ctx) -> None:
    rule = 'C13.e'
    idx = ctx.idx
    n = 0
    for f in idx.iter_functions():
        if f.module.name.startswith(('xmlschema.testing', 'xmlschema.extras')) or isinstance(f.node, ast.Lambda):
            continue
        for c in calls(f.node):
            d = dotted(c.func)
            if d is None:
                continue
            full = idx.resolve_name(f.module, d) or ''
            head = d.split('.')[0]
            if head in f.module.imports and '.' in d:
                full = f.module.imports[head] + '.' + d.split('.', 1)[1]
            is_entry = full in PARSER_ENTRY or d == 'self._iterparse'
            if not is_entry:
                continue
            n += 1
            key = (f.qualname, d)
            ok = key in PARSE_SITES
            ctx.ob(rule, f'{f.qualname.split(".", 1)[-1]}: `{d}(…)` is a reviewed XML parser entry point', f.loc(c), ok,
                   PARSE_SITES.get(key, 'XML text is parsed outside the loaders/scanner: this parse is never defused'), key=f'{f.qualname}|parse|{d}')
    ctx.floor(rule, 'parser entry points', n, 4)
    # loaders: the fp handed to self._iterparse is the function parameter (which callers bind to cm.fp)
    for q in ('xmlschema.resources.xml_loader.XMLResourceLoader._parse', 'xmlschema.resources.xml_loader.XMLResourceLoader._lazy_iterparse'):
        f = idx.func(q)
        cs = [c for c in calls(f.node) if text(c.func) == 'self._iterparse']
        ok = bool(cs) and all(text(c.args[0]) == 'fp' and 'fp' in f.params for c in cs)
        ctx.ob(rule, f'{q.split(".")[-1]} parses the stream it was given', f.loc(), ok, '', key=f'{q}|fp')
    # callers of the loaders pass cm.fp of an XMLResourceManager
    m = 0
    for f in idx.iter_functions('resources'):
        for c in calls(f.node):
            if text(c.func) in ('self._lazy_iterparse', 'self._parse') or (text(c.func) == 'super().__init__' and f.qualname == f'{RES}.__init__'):
                if not c.args:
                    continue
                a = text(c.args[0])
                if text(c.func) == 'super().__init__' and a != 'cm.fp':
                    continue   # the ElementTree-structure branch: nothing is parsed
                m += 1
                ok = a == 'cm.fp' or (a == 'fp' and f.name in ('__init__',) and f.cls is not None and f.cls.name == 'XMLResourceLoader')
                ctx.ob(rule, f'{f.qualname.split(".", 2)[-1]}: the parsed stream is the one opened by XMLResourceManager', f.loc(c), ok,
                       '' if ok else f'stream argument is `{a}`', key=f'{f.qualname}|stream|{text(c.func)}')
    ctx.floor(rule, 'loader invocations', m, 3)
    ctx.explain('C13.e: who-may-parse — XML parser entry points (names resolved through imports) occur only in the loaders, '
                'the default iterparse wrapper and the scanner; the loaders receive their stream from XMLResourceManager.')


READER = 'xmlschema.utils.streams.DefusableReader'
_PAST = ('self._pos > self._buffer_size', 'self._buffer_size < self._pos', 'self._pos >= self._buffer_size', 'self._buffer_size <= self._pos')
_WITHIN = ('self._pos <= self._buffer_size', 'self._buffer_size >= self._pos', 'self._pos < self._buffer_size', 'self._buffer_size > self._pos')


def _edges_forcing(tests, atoms_true, atoms_false):
    """edges of `if` nodes on which (one of) ``atoms_true`` is known true or (one of) ``atoms_false`` is known false."""
    out = set()
    for n in tests:
        at = bool_atoms(n.ast.test)
        for a in at:
            if a in atoms_false:          # want: the atom is false on the edge
                if atom_forces(n.ast.test, a, True, True):
                    out.add((n, 'F'))
                if atom_forces(n.ast.test, a, True, False):
                    out.add((n, 'T'))
            if a in atoms_true:           # want: the atom is true on the edge
                if atom_forces(n.ast.test, a, False, True):
                    out.add((n, 'F'))
                if atom_forces(n.ast.test, a, False, False):
                    out.add((n, 'T'))
    return out


def rule_f(ctx: Ctx) -> None:
    """The bytes the scanner saw are the bytes the parser gets: rewinding the buffered wrapper of a non-seekable stream."""
    rule = 'C13.f'
    idx = ctx.idx
    # 1. defuse_xml: with rewind every return passes fp.seek(0); its OSError is converted, never dropped
    f = idx.func(f'{SAX}.defuse_xml')
    g = cfg_of(ctx, f)
    rets = [n for n in g.nodes if n.kind == 'return']
    tests = [n for n in g.nodes if n.kind == 'if']
    seeks = [n for n, c in call_nodes(g, lambda c: text(c.func) == 'fp.seek' and len(c.args) == 1 and text(c.args[0]) == '0')]
    ctx.floor(rule, '`fp.seek(0)` in defuse_xml', len(seeks), 1)
    off = _edges_forcing(tests, (), ('rewind',))
    live = reach_cut(g, [g.entry], off, avoid=seeks, kinds='nTF')
    bad = [r for r in rets if r in live]
    ctx.ob(rule, 'defuse_xml(rewind=True): every return passes `fp.seek(0)`', f.loc(seeks[0].ast) if seeks else f.loc(), bool(seeks) and not bad,
           f'the return at line {bad[0].lineno} is reachable with rewind true and without rewinding: the parser continues where the scanner stopped' if bad else '',
           key=f'{SAX}.defuse_xml|rewind')
    sw = []
    for s in seeks:
        for m, lab in g.succ[s]:
            if lab in 'xi' and m.kind == 'handler':
                body_raises = any(isinstance(x, ast.Raise) for x in ast.walk(m.ast))
                if not body_raises:
                    sw.append(m)
    ctx.ob(rule, 'a failed rewind is raised to the caller (no handler around `fp.seek(0)` ends without raising)', f.loc(seeks[0].ast) if seeks else f.loc(),
           not sw, f'handler at line {sw[0].lineno} drops the failure of the rewind' if sw else '', key=f'{SAX}.defuse_xml|rewind-error')
    wraps = [c for c in calls(f.node) if text(c.func) == 'DefusableReader']
    ctx.ob(rule, 'a non-seekable BufferedIOBase is wrapped in DefusableReader before the scan', f.loc(wraps[0]) if wraps else f.loc(), len(wraps) == 1, '',
           key=f'{SAX}.defuse_xml|wrap')
    # 2. DefusableReader.seek: the position is moved without touching the wrapped stream only while the wrapped stream
    #    has not been read past the buffer
    f = idx.func(f'{READER}.seek')
    g = cfg_of(ctx, f)
    tests = [n for n in g.nodes if n.kind == 'if']
    fpseek = [n for n, c in call_nodes(g, lambda c: text(c.func) == 'self._fp.seek')]
    stores = [n for n in g.nodes if n.kind == 'stmt' and isinstance(n.ast, ast.Assign) and any(text(t) == 'self._pos' for t in n.ast.targets)]
    ctx.floor(rule, '`self._fp.seek(…)` in DefusableReader.seek', len(fpseek), 2)
    ctx.floor(rule, 'stores of self._pos in DefusableReader.seek', len(stores), 1)
    within = _edges_forcing(tests, _WITHIN, _PAST)
    live = reach_cut(g, [g.entry], within, avoid=fpseek, kinds='nTF')
    bad = [n for n in stores if n in live]
    det = ''
    if bad:
        cond = [text(n.ast.test) for n in tests if any(a in _PAST + _WITHIN for a in bool_atoms(n.ast.test)) and (n, 'F') not in within and (n, 'T') not in within]
        det = (f'`self._pos = …` at line {bad[0].lineno} is reachable without `self._fp.seek(…)` although the wrapped stream may have been read past the buffer'
               + (f' (the realignment is additionally conditioned by `{cond[0][:80]}`)' if cond else '')
               + ': a non-seekable stream whose prolog exceeds the buffer is "rewound" silently and the parser receives the buffer followed by bytes the scanner never saw')
    ctx.ob(rule, 'DefusableReader.seek moves the position without `self._fp.seek(…)` only when the wrapped stream was not read past the buffer',
           f.loc(stores[0].ast) if stores else f.loc(), bool(stores) and not bad, det, key=f'{READER}.seek|realign')
    sw = []
    for s in fpseek:
        for m, lab in g.succ[s]:
            if lab in 'xi' and m.kind == 'handler':
                sw.append(m)
    ctx.ob(rule, 'DefusableReader.seek does not catch the failure of the wrapped stream\'s seek', f.loc(), not sw,
           f'handler at line {sw[0].lineno}' if sw else '', key=f'{READER}.seek|no-handler')
    # 3. DefusableReader._read_unlocked: the buffer is served only for positions inside it, the wrapped stream only from its own position
    f = idx.func(f'{READER}._read_unlocked')
    g = cfg_of(ctx, f)
    tests = [n for n in g.nodes if n.kind == 'if']
    inside = _edges_forcing(tests, ('self._pos < self._buffer_size', 'self._buffer_size > self._pos'), ('self._pos >= self._buffer_size', 'self._buffer_size <= self._pos'))
    outside = _edges_forcing(tests, ('self._pos >= self._buffer_size', 'self._buffer_size <= self._pos'), ('self._pos < self._buffer_size', 'self._buffer_size > self._pos'))
    slices = [n for n in g.nodes if n.kind == 'stmt' and any(isinstance(x, ast.Subscript) and text(x.value) == 'self._buffer' for x in ast.walk(n.ast))]
    ctx.floor(rule, 'reads of self._buffer[…] in _read_unlocked', len(slices), 1)
    live = reach_cut(g, [g.entry], inside, kinds='nTF')
    bad = [n for n in slices if n in live]
    ctx.ob(rule, '_read_unlocked serves `self._buffer[self._pos:]` only for a position inside the buffer', f.loc(slices[0].ast) if slices else f.loc(),
           bool(slices) and not bad, f'line {bad[0].lineno} is reachable with the position at or past the end of the buffer' if bad else '',
           key=f'{READER}._read_unlocked|inside')
    ok = all(isinstance(x.slice, ast.Slice) and x.slice.lower is not None and text(x.slice.lower) == 'self._pos' and x.slice.upper is None
             for n in slices for x in ast.walk(n.ast) if isinstance(x, ast.Subscript) and text(x.value) == 'self._buffer')
    ctx.ob(rule, 'the buffered part is served from the current position', f.loc(slices[0].ast) if slices else f.loc(), ok, '', key=f'{READER}._read_unlocked|from-pos')
    # every return in the "past the buffer" region comes from the wrapped stream alone
    past = reach_cut(g, [g.entry], outside, kinds='nTF')
    rets = [n for n in g.nodes if n.kind == 'return' and n not in past]
    ok = bool(rets) and all(not any(isinstance(x, ast.Attribute) and text(x) == 'self._buffer' for x in ast.walk(r.ast)) for r in rets)
    ctx.ob(rule, 'past the buffer _read_unlocked returns only what the wrapped stream delivers', f.loc(rets[0].ast) if rets else f.loc(), ok, '',
           key=f'{READER}._read_unlocked|past')
    # 4. the buffer is filled once, from the start of the wrapped stream, and never written again
    c = idx.cls(READER)
    writers = []
    for m in c.methods.values():
        for x in ast.walk(m.node):
            if isinstance(x, (ast.Assign, ast.AugAssign)):
                tg = x.targets if isinstance(x, ast.Assign) else [x.target]
                if any(text(t).startswith('self._buffer') and not text(t).startswith('self._buffer_size') or text(t) == 'self._buffer_size' for t in tg):
                    writers.append((m.name, text(x)[:50]))
            elif isinstance(x, ast.Call) and isinstance(x.func, ast.Attribute) and text(x.func.value) == 'self._buffer' and \
                    x.func.attr in ('extend', 'append', 'insert', 'pop', 'remove', 'reverse', '__setitem__'):
                writers.append((m.name, text(x)[:50]))
    outside_init = [w for w in writers if w[0] != '__init__']
    ctx.ob(rule, 'the buffer and its size are written only by __init__ (close() may clear it)', c.methods['__init__'].loc(), bool(writers) and not outside_init,
           f'{outside_init[0][0]}: `{outside_init[0][1]}`' if outside_init else '', key=f'{READER}|buffer-writers')
    ctx.explain('C13.f: the scanner and the parser read the same bytes — defuse_xml rewinds on every return and propagates a failed rewind; '
                'DefusableReader.seek changes the position without seeking the wrapped stream only on edges where `self._pos > self._buffer_size` is known false '
                '(truth tables of the tests, edge-cut reachability); _read_unlocked serves the buffer only inside it; the buffer is written once.')


def rule_g(ctx: Ctx) -> None:
    """defuse='always' given to the module-level API (validate / is_valid / to_dict ...) applies to the schema that the instance's location
    hints name as well as to the instance: get_context must hand the option to both consumers - C12.h body."""
    from .c12 import rule_h as options_reach_both
    options_reach_both(ctx, 'C13.g')


def rule_h(ctx: Ctx) -> None:
    """The defuse mode lives in the settings of the global maps: a copy of the maps (and the schemas re-created for it) must carry the same settings, or the copy
    silently parses with defuse='remote' what the original refuses.  C09.h body: a __copy__ that goes through the constructor hands over every option."""
    from .c09 import rule_h as copy_keeps_options
    copy_keeps_options(ctx, 'C13.h')


RULES = [rule_a, rule_b, rule_c, rule_d, rule_e, rule_f, rule_g, rule_h]
