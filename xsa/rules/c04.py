"""C04 — all entry points and modes agree (structural clauses).

C04.a exit status is a faithful function of the error count (cli.py, interval analysis)
C04.b one validation mode flows everywhere
C04.c wrappers forward every parameter; verdict is a function of the iterator only
C04.d the end-of-document reference check is on every completing path of the drivers
C04.j collecting entry points run the iterator to exhaustion
"""
from __future__ import annotations

import ast
from typing import Optional

from ..astutil import calls, names_in, text, walk_no_nested
from ..index import AnalysisError, FuncInfo
from ..report import Ctx
from .common import REPORTERS, call_nodes, cfg_of, guards, is_reporter_call

INF = float('inf')
SCHEMA = 'xmlschema.validators.schemas.XMLSchemaBase'
MIXIN = 'xmlschema.validators.validation.ValidationMixin'
VCTX = 'xmlschema.validators.validation.ValidationContext'


# ---------------------------------------------------------------------------- C04.a
class AV:
    """Abstract value of an integer expression as a function of a counter c >= 0:
    interval [lo, hi] plus two facts: nz (c != 0 ⇒ value != 0) and z (c == 0 ⇒ value == 0)."""
    def __init__(self, lo, hi, nz, z):
        self.lo, self.hi, self.nz, self.z = lo, hi, nz, z

    def __repr__(self):
        return f'[{self.lo}, {self.hi}] nonzero-if-errors={self.nz} zero-if-none={self.z}'


def _truthy_of_counter(e: ast.AST, c: str) -> Optional[bool]:
    """True if e is a test equivalent to c != 0, False if equivalent to c == 0 (for c >= 0)."""
    if isinstance(e, ast.Name) and e.id == c:
        return True
    if isinstance(e, ast.UnaryOp) and isinstance(e.op, ast.Not):
        r = _truthy_of_counter(e.operand, c)
        return None if r is None else not r
    if isinstance(e, ast.Call) and text(e.func) == 'bool' and len(e.args) == 1:
        return _truthy_of_counter(e.args[0], c)
    if isinstance(e, ast.Compare) and len(e.ops) == 1 and isinstance(e.left, ast.Name) and e.left.id == c \
            and isinstance(e.comparators[0], ast.Constant) and isinstance(e.comparators[0].value, int):
        k = e.comparators[0].value
        op = type(e.ops[0])
        if (op, k) in ((ast.Gt, 0), (ast.NotEq, 0), (ast.GtE, 1)):
            return True
        if (op, k) in ((ast.Eq, 0), (ast.LtE, 0), (ast.Lt, 1)):
            return False
    return None


def absval(e: ast.AST, c: str) -> Optional[AV]:
    if isinstance(e, ast.Name) and e.id == c:
        return AV(0, INF, True, True)
    if isinstance(e, ast.Constant) and isinstance(e.value, (int, bool)):
        k = int(e.value)
        return AV(k, k, k != 0, k == 0)
    t = _truthy_of_counter(e, c)
    if t is not None and not isinstance(e, ast.Name):
        return AV(0, 1, t is True, t is True) if t else AV(0, 1, False, False)
    if isinstance(e, ast.Call) and text(e.func) in ('min', 'max') and len(e.args) == 2 and not e.keywords:
        a, b = absval(e.args[0], c), absval(e.args[1], c)
        if a is None or b is None or a.lo < 0 or b.lo < 0:
            return None
        if text(e.func) == 'min':
            return AV(min(a.lo, b.lo), min(a.hi, b.hi), a.nz and b.nz, a.z or b.z)
        return AV(max(a.lo, b.lo), max(a.hi, b.hi), a.nz or b.nz, a.z and b.z)
    if isinstance(e, ast.Call) and text(e.func) == 'int' and len(e.args) == 1:
        return absval(e.args[0], c)
    if isinstance(e, ast.IfExp):
        t = _truthy_of_counter(e.test, c)
        a, b = absval(e.body, c), absval(e.orelse, c)
        if t is None or a is None or b is None:
            return None
        if not t:
            a, b = b, a
        # a is the value when c != 0, b when c == 0
        return AV(min(a.lo, b.lo), max(a.hi, b.hi), a.nz or a.lo > 0, b.z or (b.lo == b.hi == 0))
    if isinstance(e, ast.BinOp) and isinstance(e.op, ast.Mod):
        b = absval(e.right, c)
        if b is not None and b.lo == b.hi and b.lo > 0:
            return AV(0, b.lo - 1, False, True)   # wraps: c = k gives 0
    if isinstance(e, ast.BinOp) and isinstance(e.op, ast.BitAnd):
        b = absval(e.right, c)
        if b is not None and b.lo == b.hi and b.lo > 0:
            return AV(0, b.lo, False, True)
    return None


def rule_a(ctx: Ctx) -> None:
    rule = 'C04.a'
    m = ctx.idx.module('cli')
    entries = ['validate', 'xml2json', 'json2xml']
    n_exit = 0
    for name in entries:
        f = m.functions.get(name)
        if f is None:
            raise AnalysisError(f'missing anchor xmlschema.cli.{name}')
        g = cfg_of(ctx, f)
        exits = call_nodes(g, lambda c: text(c.func) == 'sys.exit')
        ctx.floor(rule, f'sys.exit calls in cli.{name}', len(exits), 1)
        for n, c in exits:
            n_exit += 1
            arg = c.args[0] if c.args else ast.Constant(0)
            cands = [x for x in names_in(arg)]
            counter = None
            for x in cands:
                inits = [s for s in walk_no_nested(f.node) if isinstance(s, ast.Assign) and text(s.targets[0]) == x
                         and isinstance(s.value, ast.Constant) and s.value.value == 0]
                if inits:
                    counter = x
            if counter is None and not cands:
                v = absval(arg, '_')
            elif counter is None:
                ctx.unrecognised(rule, f.loc(c), f'exit argument `{text(arg)}` does not mention a zero-initialised counter')
            else:
                v = absval(arg, counter)
            if v is None:
                ctx.unrecognised(rule, f.loc(c), f'exit argument `{text(arg)}` is outside the interval fragment '
                                                 f'(names, constants, min/max, bool/int, conditional, %, &)')
            ok = v.lo >= 0 and v.hi <= 255 and v.nz and v.z
            ctx.ob(rule, f'cli.{name}: sys.exit({text(arg)}) is within [0, 255] and is 0 exactly when no error was counted',
                   f.loc(c), ok, '' if ok else f'abstract value {v}: a count of 256 (or any multiple) would exit with status 0'
                   if v.hi > 255 else f'abstract value {v}', key=f'cli.{name}|exit')
            if counter is not None:
                # the counter only grows, by non-negative amounts
                for s in walk_no_nested(f.node):
                    if isinstance(s, ast.AugAssign) and text(s.target) == counter:
                        okc = isinstance(s.op, ast.Add) and (
                            (isinstance(s.value, ast.Constant) and isinstance(s.value.value, int) and s.value.value >= 0)
                            or (isinstance(s.value, ast.Call) and text(s.value.func) == 'len'))
                        ctx.ob(rule, f'cli.{name}: `{text(s)}` only increases the counter', f.loc(s), okc, '', key=f'cli.{name}|incr|{text(s)}')
                    elif isinstance(s, ast.Assign) and text(s.targets[0]) == counter and not (isinstance(s.value, ast.Constant) and s.value.value == 0):
                        ctx.ob(rule, f'cli.{name}: the counter is never reassigned', f.loc(s), False, text(s), key=f'cli.{name}|reassign|{text(s)}')
                # every swallowing handler counts the failure
                for t in walk_no_nested(f.node):
                    if isinstance(t, ast.Try):
                        for h in t.handlers:
                            swallows = not any(isinstance(x, ast.Raise) for x in ast.walk(h))
                            if swallows:
                                inc = any(isinstance(x, ast.AugAssign) and text(x.target) == counter for x in h.body)
                                ctx.ob(rule, f'cli.{name}: `except {text(h.type)}` counts the failed file', f.loc(h), inc, '',
                                       key=f'cli.{name}|handler|{text(h.type)}')
                # a non-empty error list is counted
                hit = False
                for nn in g.stmt_nodes():
                    if nn.kind == 'stmt' and isinstance(nn.ast, ast.AugAssign) and text(nn.ast.target) == counter \
                            and isinstance(nn.ast.value, ast.Call) and text(nn.ast.value.func) == 'len':
                        lst = text(nn.ast.value.args[0])
                        gs = guards(ctx, f, nn)
                        if (f'not {lst}', 'F') in gs or (lst, 'T') in gs:
                            hit = True
                ctx.ob(rule, f'cli.{name}: a non-empty error list adds its length to the counter', f.loc(), hit, '', key=f'cli.{name}|len')
            # exit is reached on every normal path
            w = g.must_pass(g.entry, [g.exit], [n], kinds='nTF')
            ctx.ob(rule, f'cli.{name}: every normal completion passes sys.exit', f.loc(c), w is None,
                   '' if w is None else 'path to the end of the function without sys.exit', key=f'cli.{name}|exit-reached')
    ctx.floor(rule, 'console entry points with an exit status', n_exit, 3)
    ctx.explain('C04.a: the argument of the final sys.exit of each console entry point is range-analysed as a function of '
                'the error counter; it must lie in [0,255] and be 0 iff the counter is 0.')


# ---------------------------------------------------------------------------- C04.b
LITERAL_MODE_SITES = {
    # (function qualname, callee text, literal): reason
    ('xmlschema.validators.simple_types.XsdUnion.raw_decode', 'mt.raw_decode', 'strict'):
        'member probe: a union tries each member strictly and falls back to the caller\'s mode',
    ('xmlschema.validators.simple_types.XsdUnion.raw_encode', 'mt.raw_encode', 'strict'):
        'member probe: a union tries each member strictly and falls back to the caller\'s mode',
    ('xmlschema.validators.simple_types.XsdSimpleType.text_is_valid', 'self.raw_decode', 'lax'):
        'boolean helper on the scratch context: verdict = no collected error',
    ('xmlschema.validators.simple_types.XsdSimpleType.text_is_valid', 'self.raw_decode', 'strict'):
        'boolean helper on a caller context: verdict = no exception',
    ('xmlschema.validators.validation.ValidationMixin.iter_errors', 'self.raw_decode', 'lax'):
        'iter_errors is by definition the lax collector',
}


def _validation_defs_ok(ctx: Ctx, f: FuncInfo, node, var='validation') -> tuple[bool, str]:
    g = cfg_of(ctx, f)
    rd = ctx.__dict__.setdefault('_rds', {})
    if f.qualname not in rd:
        rd[f.qualname] = g.reaching_defs(kinds='nTFxi')
    defs = rd[f.qualname][node].get(var, set())
    if not defs:
        return False, f'`{var}` is not defined here'
    for d in defs:
        if d is g.entry:
            if var not in f.params:
                return False, f'`{var}` is not a parameter'
            continue
        if d.kind == 'stmt' and isinstance(d.ast, ast.Assign):
            v = d.ast.value
            # the validation hook may switch the mode for a subtree: value checked against XSD_VALIDATION_MODES
            if isinstance(v, ast.Name) and v.id == '_validation':
                gs = guards(ctx, f, d)
                if any('XSD_VALIDATION_MODES' in t and lab == 'T' for t, lab in gs):
                    continue
            return False, f'rebound by `{text(d.ast)[:50]}`'
        return False, f'rebound at line {d.lineno}'
    return True, ''


def rule_b(ctx: Ctx, rule: str = 'C04.b') -> None:
    n_rep = 0
    n_rec = 0
    lit_seen = set()
    for f in ctx.idx.iter_functions('validators'):
        if isinstance(f.node, ast.Lambda):
            continue
        has = False
        for c in calls(f.node):
            if isinstance(c.func, ast.Attribute) and (c.func.attr in REPORTERS or c.func.attr in ('raw_decode', 'raw_encode')):
                has = True
                break
        if not has:
            continue
        g = cfg_of(ctx, f)
        for n, c in call_nodes(g, lambda c: isinstance(c.func, ast.Attribute)):
            a = c.func.attr
            if a in REPORTERS and text(c.func.value) in ('context', 'self'):
                if text(c.func.value) == 'self' and not f.qualname.startswith(VCTX.rsplit('.', 1)[0]):
                    continue
                n_rep += 1
                a0 = c.args[0] if c.args else next((k.value for k in c.keywords if k.arg == 'validation'), None)
                ok = isinstance(a0, ast.Name) and a0.id == 'validation'
                det = '' if ok else f'first argument is `{text(a0)}`'
                if ok:
                    ok, det = _validation_defs_ok(ctx, f, n)
                ctx.ob(rule, f'{f.qualname.split(".", 2)[-1]}: {a}(…) reports in the caller\'s validation mode', f.loc(c), ok, det,
                       key=f'{f.qualname}|{a}|{text(c.args[2])[:30] if len(c.args) > 2 else ""}|{"" if ok else text(a0)}',
                       nontrivial=True)
            elif a in ('raw_decode', 'raw_encode'):
                n_rec += 1
                a1 = c.args[1] if len(c.args) > 1 else next((k.value for k in c.keywords if k.arg == 'validation'), None)
                callee = text(c.func)
                if isinstance(a1, ast.Constant):
                    k = (f.qualname, callee, a1.value)
                    ok = k in LITERAL_MODE_SITES
                    lit_seen.add(k)
                    ctx.ob(rule, f'{f.qualname.split(".", 2)[-1]}: {callee}(…, {a1.value!r}, …) is a reviewed literal-mode site',
                           f.loc(c), ok, LITERAL_MODE_SITES.get(k, 'literal validation mode outside the reviewed table'),
                           key=f'{f.qualname}|{callee}|literal|{a1.value}')
                else:
                    ok = isinstance(a1, ast.Name) and a1.id == 'validation'
                    det = '' if ok else f'mode argument is `{text(a1)}`'
                    if ok:
                        ok, det = _validation_defs_ok(ctx, f, n)
                    ctx.ob(rule, f'{f.qualname.split(".", 2)[-1]}: {callee}(…) forwards the validation mode', f.loc(c), ok, det,
                           key=f'{f.qualname}|{callee}|forward|{f.loc(c) if not ok else ""}')
    ctx.floor(rule, 'error-report call sites', n_rep, 90)
    ctx.floor(rule, 'recursive raw_decode/raw_encode call sites', n_rec, 40)
    for k, why in LITERAL_MODE_SITES.items():
        if k not in lit_seen:
            ctx.note(f'{rule}: reviewed literal-mode site {k} no longer present')
    # raise_or_collect: strict raises before any append; append exactly under lax
    f = ctx.idx.method(VCTX, 'raise_or_collect')
    g = cfg_of(ctx, f)
    appends = [n for n, c in call_nodes(g, lambda c: text(c.func) == 'self.errors.append')]
    raises = [n for n in g.nodes if n.kind == 'raise']
    ok = len(appends) == 1 and len(raises) == 1
    det = ''
    if ok:
        ga, gr = guards(ctx, f, appends[0]), guards(ctx, f, raises[0])
        ok = ("validation == 'lax'", 'T') in ga and ("validation == 'strict'", 'T') in gr and ("validation == 'strict'", 'F') in ga \
            and text(raises[0].ast.exc) == 'error' and text(appends[0].ast.value.args[0]) == 'error'
        det = '' if ok else f'append guards {sorted(ga)}, raise guards {sorted(gr)}'
    ctx.ob(rule, 'raise_or_collect raises the error under strict before collecting, and collects exactly under lax', f.loc(), ok, det,
           key='raise_or_collect|modes')
    rets = [n for n in g.nodes if n.kind == 'return']
    ok = bool(rets) and all(text(r.ast.value) == 'error' for r in rets)
    ctx.ob(rule, 'raise_or_collect returns the same error object it collected', f.loc(), ok, '', key='raise_or_collect|return')
    # reporters end in raise_or_collect(validation, error)
    for cls, meth in ((VCTX, 'validation_error'), (VCTX, 'children_validation_error'), (VCTX, 'missing_element_error'),
                      (VCTX, 'decode_error'), ('xmlschema.validators.validation.EncodeContext', 'encode_error')):
        fm = ctx.idx.cls(cls).methods.get(meth)
        if fm is None:
            raise AnalysisError(f'missing anchor {cls}.{meth}')
        gm = cfg_of(ctx, fm)
        rets = [n for n in gm.nodes if n.kind == 'return']
        ok = bool(rets) and all(isinstance(r.ast.value, ast.Call) and text(r.ast.value.func) == 'self.raise_or_collect'
                                and text(r.ast.value.args[0]) == 'validation' for r in rets)
        w = gm.must_pass(gm.entry, [gm.exit], rets, kinds='nTF')
        ctx.ob(rule, f'{meth} ends in raise_or_collect(validation, error) on every path', fm.loc(), ok and w is None, '', key=f'{meth}|tail')
    ctx.explain(f'{rule}: every error report and every recursive decode/encode call passes the function\'s validation '
                'parameter (reaching definitions), except 5 reviewed literal sites; raise_or_collect implements the modes.')


# ---------------------------------------------------------------------------- C04.c
WRAPPERS = [
    # (wrapper qualname, callee method name, callee class for signature, verdict kind)
    (f'{SCHEMA}.validate', 'iter_errors', SCHEMA, 'raise-first'),
    (f'{SCHEMA}.is_valid', 'iter_errors', SCHEMA, 'none-first'),
    (f'{SCHEMA}.decode', 'iter_decode', SCHEMA, None),
    (f'{SCHEMA}.encode', 'iter_encode', SCHEMA, None),
    (f'{MIXIN}.validate', 'iter_errors', MIXIN, 'raise-first'),
    (f'{MIXIN}.is_valid', 'iter_errors', MIXIN, 'none-first'),
    ('xmlschema.documents.validate', 'validate', SCHEMA, None),
    ('xmlschema.documents.is_valid', 'is_valid', SCHEMA, 'return-call'),
    ('xmlschema.documents.iter_errors', 'iter_errors', SCHEMA, 'return-call'),
    ('xmlschema.documents.iter_decode', 'iter_decode', SCHEMA, None),
    ('xmlschema.documents.to_dict', 'decode', SCHEMA, 'return-call'),
]
# parameters of the package-level functions that get_context() consumes (resource / schema construction)
CONTEXT_PARAMS = {'xml_document', 'schema', 'cls', 'locations'}
RENAMES = {'xml_document': 'source'}   # the resource returned by get_context stands for the document


def rule_c(ctx: Ctx) -> None:
    rule = 'C04.c'
    for wq, callee, ccls, verdict in WRAPPERS:
        w = ctx.idx.func(wq)
        ctx.analysed(w.qualname)
        target = ctx.idx.method(ccls, callee)
        tparams = [p for p in target.params if p != 'self']
        t_has_kwargs = target.node.args.kwarg is not None
        cs = [c for c in calls(w.node) if isinstance(c.func, ast.Attribute) and c.func.attr == callee]
        if len(cs) != 1:
            raise AnalysisError(f'{rule}: expected exactly one call to .{callee}() in {wq}, found {len(cs)}')
        c = cs[0]
        passed: dict[str, str] = {}     # callee parameter -> argument text
        crossed = []
        for i, a in enumerate(c.args):
            if isinstance(a, ast.Starred):
                continue
            if i < len(tparams):
                passed[tparams[i]] = text(a)
        for k in c.keywords:
            if k.arg is not None:
                passed[k.arg] = text(k.value)
        star_kwargs = [text(k.value) for k in c.keywords if k.arg is None]
        star_args = [text(a.value) for a in c.args if isinstance(a, ast.Starred)]
        # names put into **kwargs by kwargs.update(name=name) before the call
        updated: dict[str, str] = {}
        for u in calls(w.node, attr='update'):
            if text(u.func.value) in star_kwargs or (w.node.args.kwarg and text(u.func.value) == w.node.args.kwarg.arg):
                for k in u.keywords:
                    if k.arg:
                        updated[k.arg] = text(k.value)
        ctx_call = [x for x in calls(w.node, name='get_context')]
        ctx_args = set()
        for x in ctx_call:
            ctx_args |= {text(a) for a in x.args} | {text(k.value) for k in x.keywords}
        for cp, at in passed.items():
            if at in w.params and at != cp and RENAMES.get(at) != cp:
                crossed.append((cp, at))
        ctx.ob(rule, f'{wq.split(".", 1)[-1]} -> {callee}: no parameter is passed in another parameter\'s position', w.loc(c),
               not crossed, '' if not crossed else f'crossed: {crossed}', key=f'{wq}|crossed')
        wparams = [p for p in w.params if p != 'self']
        for p in wparams:
            tgt = RENAMES.get(p, p)
            ok = False
            how = ''
            if passed.get(tgt) == p or passed.get(p) == p:
                ok, how = True, 'argument'
            elif tgt in passed and p in RENAMES and ctx_call:
                ok, how = True, 'via the resource returned by get_context'
            elif p in updated and updated[p] == p and (star_kwargs or ctx_call):
                ok, how = True, 'kwargs.update'
            elif p in ctx_args and p in CONTEXT_PARAMS:
                ok, how = True, 'consumed by get_context'
            if ok and how == 'kwargs.update' and not star_kwargs and p not in CONTEXT_PARAMS and p not in ('validation', 'use_location_hints'):
                ok = False
            if ok and how in ('kwargs.update', 'consumed by get_context') and star_kwargs and p in tparams and not t_has_kwargs:
                pass
            ctx.ob(rule, f'{wq.split(".", 1)[-1]}: parameter `{p}` reaches {callee}()', w.loc(c), ok,
                   how if ok else f'`{p}` is neither passed at the position/keyword of the same name nor forwarded through **kwargs',
                   key=f'{wq}|param|{p}')
        if w.node.args.kwarg is not None:
            kw = w.node.args.kwarg.arg
            ok = kw in star_kwargs or kw in ctx_args or f'**{kw}' in ctx_args
            ctx.ob(rule, f'{wq.split(".", 1)[-1]}: **{kw} is forwarded', w.loc(c), ok, '', key=f'{wq}|kwargs')
        if w.node.args.vararg is not None:
            va = w.node.args.vararg.arg
            ctx.ob(rule, f'{wq.split(".", 1)[-1]}: *{va} is forwarded', w.loc(c), va in star_args, '', key=f'{wq}|varargs')
        # verdict is a function of the iterator only
        if verdict == 'raise-first':
            loops = [n for n in walk_no_nested(w.node) if isinstance(n, ast.For) and n.iter is c]
            ok = len(loops) == 1 and len(loops[0].body) == 1 and isinstance(loops[0].body[0], ast.Raise) \
                and text(loops[0].body[0].exc) == text(loops[0].target)
            ctx.ob(rule, f'{wq.split(".", 1)[-1]}: raises exactly the first item the iterator yields', w.loc(), ok, '', key=f'{wq}|verdict')
        elif verdict == 'none-first':
            nx = [x for x in calls(w.node, name='next') if x.args and x.args[0] is c]
            ok = len(nx) == 1 and len(nx[0].args) == 2 and text(nx[0].args[1]) == 'None'
            rets = [r for r in walk_no_nested(w.node) if isinstance(r, ast.Return)]
            if ok:
                asg = [s for s in walk_no_nested(w.node) if isinstance(s, ast.Assign) and s.value is nx[0]]
                var = text(asg[0].targets[0]) if asg else None
                ok = len(rets) == 1 and (text(rets[0].value) == f'{var} is None' or rets[0].value is nx[0])
                if rets and isinstance(rets[0].value, ast.Compare) and rets[0].value.left is nx[0]:
                    ok = text(rets[0].value.comparators[0]) == 'None' and isinstance(rets[0].value.ops[0], ast.Is)
            ctx.ob(rule, f'{wq.split(".", 1)[-1]}: valid exactly when the iterator yields nothing', w.loc(), ok, '', key=f'{wq}|verdict')
        elif verdict == 'return-call':
            rets = [r for r in walk_no_nested(w.node) if isinstance(r, ast.Return)]
            ok = len(rets) == 1 and rets[0].value is c
            ctx.ob(rule, f'{wq.split(".", 1)[-1]}: returns the wrapped call\'s result unchanged', w.loc(), ok, '', key=f'{wq}|verdict')
    # XMLSchemaBase.validate asks for strict mode, is_valid keeps lax
    v = ctx.idx.func(f'{SCHEMA}.validate')
    c = [c for c in calls(v.node, attr='iter_errors')][0]
    kw = {k.arg: text(k.value) for k in c.keywords}
    ctx.ob(rule, 'XMLSchemaBase.validate iterates in strict mode (raises the first error the lax run would collect)', v.loc(c),
           kw.get('validation') == "'strict'", '', key=f'{SCHEMA}.validate|strict')
    # XMLSchemaBase.decode: strict raises the first error item, lax collects all
    d = ctx.idx.func(f'{SCHEMA}.decode')
    g = cfg_of(ctx, d)
    rz = [n for n in g.nodes if n.kind == 'raise']
    ok = len(rz) == 1 and ("validation == 'strict'", 'T') in guards(ctx, d, rz[0]) and text(rz[0].ast.exc) == 'result'
    ctx.ob(rule, 'XMLSchemaBase.decode raises the first yielded error under strict', d.loc(), ok, '', key=f'{SCHEMA}.decode|strict')
    ap = [n for n, c in call_nodes(g, lambda c: text(c.func) == 'errors.append')]
    ok = len(ap) == 1 and ("validation == 'lax'", 'T') in guards(ctx, d, ap[0])
    ctx.ob(rule, 'XMLSchemaBase.decode collects every yielded error under lax', d.loc(), ok, '', key=f'{SCHEMA}.decode|lax')
    ctx.explain('C04.c: for the 11 wrapper pairs every parameter of the wrapper reaches the wrapped call under the same name '
                '(position/keyword, kwargs.update, or get_context), and the wrapper verdict depends on the iterator only.')


# ---------------------------------------------------------------------------- C04.d
DRIVERS = {
    f'{SCHEMA}.iter_errors': 'whole-document validation driver',
    f'{SCHEMA}.iter_decode': 'whole-document decoding driver',
}
DRIVER_EXEMPT = {
    f'{SCHEMA}.raw_decoder': 'inner helper of the lazy driver: decodes the subtrees on a context of its own; the '
                             'document-wide check belongs to iter_decode',
}


def reference_check(ctx: Ctx, rule: str) -> None:
    for q, what in DRIVERS.items():
        f = ctx.idx.func(q)
        g = cfg_of(ctx, f)
        checks = [n for n, c in call_nodes(g, lambda c: text(c.func) == 'self._validate_references')]
        ctx.floor(rule, f'_validate_references calls in {q}', len(checks), 1)
        # a path may leave early only right after yielding a fatal report (nothing was processed)
        fatal = set()
        for n in g.stmt_nodes():
            if n.kind == 'stmt' and any(isinstance(x, ast.Yield) and isinstance(x.value, ast.Call) and is_reporter_call(x.value)
                                        for e in n.exprs for x in ast.walk(e)):
                if all(m.kind == 'return' for m, lab in g.succ[n] if lab in 'nTF'):
                    fatal.add(n)
        w = g.must_pass(g.entry, [g.exit], set(checks) | fatal, kinds='nTF')
        ok = w is None
        det = ''
        if not ok:
            tests = [f'{x.kind}@{x.lineno}:{text(x.ast.test)[:40]}' for x in w if x.kind == 'if']
            det = 'a completing path skips the ID/IDREF and key-reference check; last tests on it: ' + '; '.join(tests[-3:])
        ctx.ob(rule, f'{q.split(".")[-1]}: every completing path runs the end-of-document reference check', f.loc(checks[0].ast) if checks else f.loc(),
               ok, det, key=f'{q}|references')
        for n in checks:
            okm = any(isinstance(x, ast.YieldFrom) for e in n.exprs for x in ast.walk(e))
            c = [c for e in n.exprs for c in calls(e) if text(c.func) == 'self._validate_references'][0]
            okm = okm and [text(a) for a in c.args[:2]] == ['validation', 'context']
            ctx.ob(rule, f'{q.split(".")[-1]}: the reference errors are yielded (same mode, same context)', f.loc(n.ast), okm, '', key=f'{q}|references-yield')
    for q, why in DRIVER_EXEMPT.items():
        ctx.idx.func(q)
        ctx.note(f'{rule}: {q} exempt — {why}')
    # the check itself: reports exactly the unresolved IDREFs and the still-enabled keyrefs
    f = ctx.idx.func(f'{SCHEMA}._validate_references')
    g = cfg_of(ctx, f)
    ys = []
    for n in g.stmt_nodes():
        for e in n.exprs:
            for x in ast.walk(e):
                if isinstance(x, ast.Yield) and isinstance(x.value, ast.Call) and is_reporter_call(x.value):
                    ys.append((n, x))
    ctx.floor(rule, 'reports in _validate_references', len(ys), 2)
    got = set()
    for n, y in ys:
        gs = guards(ctx, f, n)
        if any(t == 'v == 0' and lab == 'T' for t, lab in gs) and any('context.id_map.items()' in t for t, lab in gs):
            got.add('idref')
        if any('counter.enabled' in t and 'XsdKeyref' in t and lab == 'T' for t, lab in gs):
            got.add('keyref')
        ok = text(y.value.args[0]) == 'validation'
        ctx.ob(rule, '_validate_references reports in the caller\'s mode', f.loc(y), ok, '', key=f'_validate_references|mode|{sorted(got)}')
    ctx.ob(rule, '_validate_references reports the unresolved IDREFs (id_map value 0)', f.loc(), 'idref' in got, '', key='_validate_references|idref')
    ctx.ob(rule, '_validate_references reports the key references still enabled at the end', f.loc(), 'keyref' in got, '', key='_validate_references|keyref')


def rule_d(ctx: Ctx) -> None:
    reference_check(ctx, 'C04.d')
    ctx.explain('C04.d: CFG must-pass-through — every path from the entry of iter_errors / iter_decode to the normal exit '
                'passes self._validate_references(...) unless it returns right after yielding a fatal report.')


def rule_e(ctx: Ctx) -> None:
    """Sibling agreement of the three drivers on an undeclared selected element."""
    rule = 'C04.e'
    sig = {}
    for meth in ('iter_errors', 'iter_decode', 'raw_decoder'):
        f = ctx.idx.func(f'{SCHEMA}.{meth}')
        g = cfg_of(ctx, f)
        dummy = [n for n in g.nodes if n.kind == 'stmt' and isinstance(n.ast, ast.Assign) and text(n.ast.targets[0]) == 'xsd_element'
                 and text(n.ast.value) == 'self.builders.create_element(elem.tag, self)']
        ok = len(dummy) == 1
        if ok:
            gs = guards(ctx, f, dummy[0])
            ok = ('xsd_element is None', 'T') in gs and ('nm.XSI_TYPE in elem.attrib', 'T') in gs
        ctx.ob(rule, f'{meth}: an undeclared element that carries xsi:type is validated against a dummy declaration (same in all drivers)',
               f.loc(dummy[0].ast) if dummy else f.loc(), ok,
               '' if ok else 'this driver treats an undeclared element with xsi:type differently from its siblings: the entry points disagree '
               'on the verdict for such a document', key=f'{meth}|undeclared-xsi-type')
    # the two whole-document drivers resolve the schema of the root namespace the same way: unknown namespace -> the schema itself
    for meth in ('iter_errors', 'iter_decode'):
        f = ctx.idx.func(f'{SCHEMA}.{meth}')
        g = cfg_of(ctx, f)
        gs_calls = call_nodes(g, lambda c: text(c.func) == 'self.get_schema')
        ok = bool(gs_calls)
        for n, c in gs_calls:
            hs = [m for m, lab in g.succ[n] if lab == 'i' and m.kind == 'handler']
            ok = ok and any('KeyError' in text(h.ast.type) and any(text(s_) == 'schema = self' for s_ in h.ast.body) for h in hs)
        ctx.ob(rule, f'{meth}: a root namespace that is not loaded falls back to the schema itself (then reported as a missing element), in both drivers',
               f.loc(gs_calls[0][1]) if gs_calls else f.loc(), ok, '' if ok else 'XMLSchemaKeyError of get_schema() escapes: this driver raises where its '
               'sibling reports a validation error', key=f'{meth}|namespace-fallback')
    ctx.explain('C04.e: the undeclared-element branch (xsi:type -> dummy declaration, otherwise missing-element error) has the same '
                'path condition in iter_errors, iter_decode and raw_decoder.')


def rule_f(ctx: Ctx) -> None:
    from .common import context_copy_shares
    context_copy_shares(ctx, 'C04.f', ('errors',))
    ctx.explain('C04.f: the error collector is shared by reference between a validation context and its copies, so lax mode '
                'collects every error that strict mode would raise.')


def rule_g(ctx: Ctx) -> None:
    """A lazy XMLResource is one of the source kinds that must agree with the others: the driver remembers the live ancestor list of
    the selectors by copy (C20.d body)."""
    from .c20 import rule_d as live_list
    live_list(ctx, 'C04.g')


def rule_h(ctx: Ctx) -> None:
    from .wild import mode_blind_reports
    mode_blind_reports(ctx, 'C04.h')


MODE_SWITCHES = {
    # functions in which a test may distinguish validation == 'strict' from 'lax', and why that cannot change the sequence of errors
    'xmlschema.validators.validation.ValidationContext.raise_or_collect': 'the reporter itself: strict raises the error, lax appends it',
    'xmlschema.validators.validation.ValidationMixin.decode': 'shape of the return value: lax returns (data, errors)',
    'xmlschema.validators.validation.ValidationMixin.encode': 'shape of the return value: lax returns (data, errors)',
    'xmlschema.validators.schemas.XMLSchemaBase.decode': 'entry point: strict raises the first error yielded by iter_decode, lax collects them; shape of the return value',
    'xmlschema.validators.schemas.XMLSchemaBase.encode': 'entry point: strict raises the first error yielded by iter_encode, lax collects them; shape of the return value',
    'xmlschema.validators.xsdbase.XsdValidator.check_validator': 'precondition on the schema (built / valid), before any document is looked at',
    'xmlschema.documents.XmlDocument.__init__': 'entry point: strict calls validate(), lax stores list(iter_errors())',
}


def rule_i(ctx: Ctx) -> None:
    """Strict mode raises precisely the first error that lax mode collects: the walk over the document is the same in both modes, only the
    reporter treats the error differently.  No test outside the reviewed switches may come out differently for validation == 'strict' and
    validation == 'lax' (an early exit 'once the model is broken, in strict mode' makes strict raise a later-collected error first)."""
    rule = 'C04.i'
    from .wild import _mode_truth
    n = 0
    seen = set()
    for f in ctx.idx.iter_functions():
        if isinstance(f.node, ast.Lambda) or 'validation' not in f.params or f.module.name.startswith(('xmlschema.testing', 'xmlschema.extras', 'xmlschema.cli')):
            continue
        for x in ast.walk(f.node):
            if not isinstance(x, (ast.If, ast.While, ast.IfExp)):
                continue
            a, b = _mode_truth(x.test, 'strict'), _mode_truth(x.test, 'lax')
            if a == b:
                continue
            n += 1
            ok = f.qualname in MODE_SWITCHES
            seen.add(f.qualname)
            ctx.ob(rule, f'{f.qualname.split(".", 1)[-1]}: `{text(x.test)[:60]}` does not make strict and lax mode diverge (reviewed switches only)', f.loc(x), ok,
                   MODE_SWITCHES.get(f.qualname, '') if ok else f'the test is {a} for strict and {b} for lax: the two modes walk the document differently - e.g. leaving the loop over '
                   'the children once the content model is broken makes strict raise the model error of the parent while lax lists the error inside the child first',
                   key=f'{f.qualname}|mode-switch|{text(x.test)[:40]}', nontrivial=not ok)
    ctx.floor(rule, 'strict/lax switches', n, 15)
    stale = sorted(q for q in MODE_SWITCHES if q not in seen)
    ctx.ob(rule, 'every reviewed switch still exists', 'xmlschema/validators/validation.py:1', not stale, f'no strict/lax test left in {stale}', key='mode-switch|table-current', nontrivial=False)
    ctx.explain('C04.i: every if / while / conditional expression in a function with a `validation` parameter is folded for validation == \'strict\' and == \'lax\'; a test that '
                'comes out differently must be in one of the reviewed functions (the reporter, the entry points that shape the return value).')


ITER_APIS = ('iter_decode', 'iter_encode', 'iter_errors')


def rule_j(ctx: Ctx) -> None:
    """The iterating entry points yield the end-of-document errors (dangling IDREF, keyref) *after* the last result, so a collecting
    entry point agrees with them only when it runs the iterator to exhaustion: its loop may be left by the strict `raise` alone."""
    rule = 'C04.j'
    n = 0
    for f in ctx.idx.iter_functions():
        if isinstance(f.node, ast.Lambda) or f.module.name.startswith(('xmlschema.testing', 'xmlschema.extras', 'xmlschema.cli')):
            continue
        for lp in walk_no_nested(f.node):
            if not isinstance(lp, (ast.For, ast.AsyncFor)):
                continue
            it = lp.iter
            if not (isinstance(it, ast.Call) and isinstance(it.func, ast.Attribute) and it.func.attr in ITER_APIS):
                continue
            if 'counter' in text(it.func.value):
                continue    # KeyrefCounter.iter_errors: not a document walk
            n += 1
            leaves = []
            stack = [(s, False) for s in lp.body]
            while stack:
                s, inner = stack.pop()
                if isinstance(s, (ast.FunctionDef, ast.AsyncFunctionDef, ast.ClassDef, ast.Lambda)):
                    continue
                if isinstance(s, ast.Return) or (isinstance(s, ast.Break) and not inner):
                    leaves.append(s)
                deeper = inner or isinstance(s, (ast.For, ast.AsyncFor, ast.While))
                for c in ast.iter_child_nodes(s):
                    stack.append((c, deeper))
            ok = not leaves
            ctx.ob(rule, f'{f.qualname.split(".", 1)[-1]}: the loop over `{text(it.func)}()` is left only by exhaustion or by raising the error',
                   f.loc(leaves[0]) if leaves else f.loc(lp), ok,
                   '' if ok else f'`{text(leaves[0])[:40]}` leaves the loop while the iterator is suspended: the errors it yields after the last result (the end-of-document '
                   'IDREF / keyref check) are never drawn, so this entry point accepts what iter_errors()/validate() reject',
                   key=f'{f.qualname}|drain|{it.func.attr}')
    ctx.floor(rule, 'collecting loops over iter_decode / iter_encode / iter_errors', n, 6)
    ctx.explain('C04.j: every `for` loop over a call of iter_decode / iter_encode / iter_errors (schema, component, document and data-object entry points) contains '
                'no `break` and no `return`: only exhaustion or the strict raise ends it.')


VALIDATION_ONLY_FUNCS = (
    'xmlschema.validators.elements.XsdElement.raw_decode',
    'xmlschema.validators.groups.XsdGroup.raw_decode',
    'xmlschema.validators.attributes.XsdAttributeGroup.raw_decode',
    'xmlschema.validators.attributes.XsdAttribute.raw_decode',
    'xmlschema.validators.wildcards.XsdAnyElement.raw_decode',
    'xmlschema.validators.wildcards.XsdAnyAttribute.raw_decode',
    'xmlschema.validators.complex_types.XsdComplexType.raw_decode',
)


def rule_k(ctx: Ctx) -> None:
    """is_valid() / iter_errors() run the decoders with a context that only validates, decode() with one that also builds data.  The two agree on the errors only
    if no *verdict* depends on that difference: a report is not control dependent on `validation_only`, and neither is any definition of a value its condition
    reads (a value dropped "because nothing is kept when only validating" may be the operand of a check further down - the fixed value of a mixed element)."""
    rule = 'C04.k'
    n = 0
    for q in VALIDATION_ONLY_FUNCS:
        f = ctx.idx.functions.get(q)
        if f is None:
            raise AnalysisError(f'missing anchor {q}')
        ctx.analysed(q)
        g = cfg_of(ctx, f)
        rd = g.reaching_defs(kinds='nTFxi')
        for rn, rc in call_nodes(g, is_reporter_call):
            n += 1
            gs = guards(ctx, f, rn)
            direct = [t for t, lab in gs if 'validation_only' in t]
            bad = ''
            if direct:
                bad = f'the report itself is conditional on `{direct[0][:50]}`'
            else:
                tests = [x for x in g.nodes if x.kind in ('if', 'while') and any(text(x.ast.test) == t for t, lab in gs)]
                for tn in tests:
                    for nm_ in {y.id for y in ast.walk(tn.ast.test) if isinstance(y, ast.Name)}:
                        for d in rd[tn].get(nm_, set()):
                            if d is g.entry or d.ast is None:
                                continue
                            dg = [t for t, lab in guards(ctx, f, d) if 'validation_only' in t]
                            if dg:
                                bad = f'`{nm_}`, read by the test `{text(tn.ast.test)[:50]}`, is defined at line {d.lineno} only under `{dg[0][:40]}`'
                                break
                        if bad:
                            break
                    if bad:
                        break
            ctx.ob(rule, f'{q.split(".", 2)[-1]}: the report `{text(rc)[:50]}` does not depend on whether data is being built', f.loc(rc), not bad,
                   '' if not bad else bad + ': is_valid()/iter_errors() and decode() then disagree - e.g. a mixed element with fixed="draft" and the text "final" is valid for is_valid() '
                   'while decode() reports "must have the fixed value"', key=f'{q}|validation-only|{text(rc.args[2])[:30] if len(rc.args) > 2 else text(rc)[:30]}', nontrivial=bool(bad))
    ctx.floor(rule, 'reports in the decoders', n, 30)
    ctx.explain('C04.k: for every report in the raw_decode methods: no guard mentions `validation_only`, and no reaching definition of a name read by one of its guarding tests is '
                'control dependent on `validation_only`.')


RULES = [rule_a, rule_b, rule_c, rule_d, rule_e, rule_f, rule_g, rule_h, rule_i, rule_j, rule_k]
