"""C20 — schema paths; partial decoding (structural clauses).

C20.a the verdict above the cut does not depend on max_depth (control dependence with taint)
C20.b path-driven loops select the declaration the same way as the full run
"""
from __future__ import annotations

import ast

from ..astutil import calls, names_in, text, walk_no_nested
from ..index import AnalysisError
from ..report import Ctx
from .common import call_nodes, cd_of, cfg_of, guards, is_reporter_call

SCHEMA = 'xmlschema.validators.schemas.XMLSchemaBase'


def _tainted_names(fnode: ast.AST) -> set[str]:
    """locals derived from context.max_depth (fixed point over simple assignments)."""
    t: set[str] = set()
    changed = True
    while changed:
        changed = False
        for s in walk_no_nested(fnode):
            if isinstance(s, ast.Assign) and len(s.targets) == 1 and isinstance(s.targets[0], ast.Name):
                v = text(s.value)
                if ('context.max_depth' in v or (names_in(s.value) & t)) and s.targets[0].id not in t:
                    t.add(s.targets[0].id)
                    changed = True
    return t


def _is_depth_test(e: ast.AST, tainted: set[str]) -> bool:
    return 'context.max_depth' in text(e) or bool(names_in(e) & tainted)


def depth_independence(ctx: Ctx, rule: str, qualname: str, floor: int) -> None:
    f = ctx.idx.func(qualname)
    g = cfg_of(ctx, f)
    cd = cd_of(ctx, f)
    tainted = _tainted_names(f.node)
    short = qualname.split('.', 2)[-1]
    verdict_nodes = []
    for n in g.stmt_nodes():
        kind = None
        for e in n.exprs:
            for c in calls(e):
                fn = text(c.func)
                if is_reporter_call(c):
                    kind = 'error report'
                elif fn == 'errors.append':
                    kind = 'collected model error'
                elif fn in ('model.advance', 'model.stop'):
                    kind = 'model visitor step'
                elif fn.endswith('.iter_errors') and 'identities' in text(c):
                    kind = 'key reference check'
                elif fn == 'self.collect_key_fields':
                    kind = 'identity field collection'
                elif fn.endswith('.check_dynamic_context'):
                    kind = 'dynamic context check'
        if kind:
            verdict_nodes.append((n, kind))
    # a report that sits inside a verdict loop (e.g. the body of the key reference check) is represented by the loop
    loop_bodies = set()
    for n, kind in verdict_nodes:
        if n.kind == 'for':
            for s_ in n.ast.body:
                for sub in ast.walk(s_):
                    loop_bodies.update(g.nodes_of(sub))
    verdict_nodes = [(n, k) for n, k in verdict_nodes if n not in loop_bodies]
    ctx.floor(rule, f'verdict-producing statements in {short}', len(verdict_nodes), floor)
    for n, kind in verdict_nodes:
        deps = [(b, lab) for b, lab in cd[n] if b.kind in ('if', 'while') and _is_depth_test(b.ast.test, tainted)]
        ok = not deps
        det = ''
        if deps:
            b, lab = deps[0]
            det = f'executed only when `{text(b.ast.test)}` is {lab == "T"} (line {b.lineno}): any max_depth, even one larger than the ' \
                  f'document, changes whether this {kind} happens'
        ctx.ob(rule, f'{short}: the {kind} `{text(n.ast).splitlines()[0][:60]}` does not depend on max_depth', f.loc(n.ast), ok, det,
               key=f'{qualname}|depth-dep|{kind}|{text(n.ast).splitlines()[0][:50]}')
    # the only things that may depend on it: the recursive descent, fillers and continue
    for b in g.nodes:
        if b.kind == 'if' and _is_depth_test(b.ast.test, tainted):
            ctx.count(f'{rule}:depth tests in {short}')


def rule_a(ctx: Ctx) -> None:
    rule = 'C20.a'
    depth_independence(ctx, rule, 'xmlschema.validators.groups.XsdGroup.raw_decode', 8)
    depth_independence(ctx, rule, 'xmlschema.validators.elements.XsdElement.raw_decode', 20)
    # the depth cut itself: children beyond max_depth are skipped, not reported
    f = ctx.idx.func('xmlschema.validators.groups.XsdGroup.raw_decode')
    g = cfg_of(ctx, f)
    rec = [n for n, c in call_nodes(g, lambda c: text(c.func) == 'xsd_element.raw_decode')]
    ok = bool(rec) and all(any('over_max_depth' in t and lab == 'F' for t, lab in guards(ctx, f, n)) for n in rec)
    ctx.ob(rule, 'XsdGroup.raw_decode: only the descent into children is cut at max_depth', f.loc(), ok, '', key='group|descent-cut')
    od = [s for s in walk_no_nested(f.node) if isinstance(s, ast.Assign) and text(s.targets[0]) == 'over_max_depth']
    ok = len(od) == 1 and text(od[0].value) == 'context.max_depth is not None and context.max_depth <= context.level'
    ctx.ob(rule, 'the cut applies at level >= max_depth', f.loc(od[0]) if od else f.loc(), ok, '' if ok else text(od[0].value) if od else '', key='group|cut-level')
    ctx.explain('C20.a: statements that produce or suppress errors in XsdGroup.raw_decode / XsdElement.raw_decode must not be '
                '(transitively) control dependent on a test that mentions context.max_depth or a local derived from it.')


def rule_b(ctx: Ctx) -> None:
    rule = 'C20.b'
    for meth, recv in (('iter_errors', 'schema'), ('iter_decode', 'schema'), ('raw_decoder', 'self')):
        f = ctx.idx.func(f'{SCHEMA}.{meth}')
        g = cfg_of(ctx, f)
        ge = call_nodes(g, lambda c: isinstance(c.func, ast.Attribute) and c.func.attr == 'get_element')
        ctx.floor(rule, f'get_element call in {meth}', len(ge), 1)
        for n, c in ge:
            a = [text(x) for x in c.args]
            ok = len(a) >= 2 and a[0] == 'elem.tag' and a[1] == 'schema_path'
            ctx.ob(rule, f'{meth}: the declaration is selected by the element tag and the schema path', f.loc(c), ok, '' if ok else f'arguments {a}',
                   key=f'{meth}|get_element-args')
            ok = isinstance(n.ast, ast.Assign) and text(n.ast.targets[0]) == 'xsd_element'
            ctx.ob(rule, f'{meth}: the selected declaration is the one that validates the element', f.loc(c), ok, '', key=f'{meth}|binds')
        # schema_path defaults to the absolute path of the selection
        rd = g.reaching_defs()
        if meth != 'raw_decoder':
            n0 = ge[0][0]
            defs = rd[n0].get('schema_path', set())
            vals = sorted(text(d.ast.value) for d in defs if d.ast is not None and isinstance(d.ast, ast.Assign))
            ok = 'resource.get_absolute_path(path)' in vals and g.entry in defs
            if ok:
                # the default is applied exactly when no schema_path was given
                d = [d for d in defs if d.ast is not None and isinstance(d.ast, ast.Assign)][0]
                gs = guards(ctx, f, d)
                ok = ('not schema_path', 'T') in gs
            ctx.ob(rule, f'{meth}: schema_path defaults to the absolute path of the selected part', f.loc(), ok, '' if ok else f'definitions {vals}',
                   key=f'{meth}|schema-path-default')
        # the element validated is the one selected
        dec = call_nodes(g, lambda c: text(c.func) == 'xsd_element.raw_decode')
        ok = bool(dec) and all(text(c.args[0]) == 'elem' and text(c.args[1]) == 'validation' and text(c.args[2]) == 'context' for n, c in dec)
        ctx.ob(rule, f'{meth}: the selected element is validated with the caller\'s mode and the shared context', f.loc(), ok, '', key=f'{meth}|decode-args')
        # no declaration and no xsi:type: reported as a missing element
        miss = call_nodes(g, lambda c: isinstance(c.func, ast.Attribute) and c.func.attr == 'missing_element_error')
        ok = bool(miss)
        for n, c in miss:
            gs = guards(ctx, f, n)
            ok = ok and ('xsd_element is None', 'T') in gs and ('nm.XSI_TYPE in elem.attrib', 'F') in gs
        ctx.ob(rule, f'{meth}: an element without declaration (and without xsi:type) is reported', f.loc(), ok, '', key=f'{meth}|missing')
    # get_element: the three path forms
    ge = ctx.idx.func(f'{SCHEMA}.get_element')
    g = cfg_of(ctx, ge)
    rets = [n for n in g.nodes if n.kind == 'return']
    globals_ = [n for n in rets if text(n.ast.value) == 'self.maps.elements.get(tag)']
    finds = [s for s in walk_no_nested(ge.node) if isinstance(s, ast.Assign) and 'self.find(' in text(s.value)]
    ok = len(finds) == 2 and any(text(s.value) == 'self.find(path, namespaces)' for s in finds) and \
        any("path[:-1] + tag" in text(s.value) for s in finds)
    ctx.ob(rule, 'get_element resolves a path through schema.find(path) (wildcard step replaced by the tag)', ge.loc(), ok, '', key='get_element|find')
    ok = any(("not path or path == tag or path == f'/{tag}'", 'T') in guards(ctx, ge, n) for n in globals_)
    ctx.ob(rule, 'get_element returns the global declaration for a root-level selection', ge.loc(), ok, '', key='get_element|root')
    # when find() lands on a declaration with another name (a substitution-group head reached through its ref particle), the
    # element's own global declaration governs — unconditionally
    from ..astutil import find_relations
    rels = [(n, r) for n, r in find_relations(ge.node, lambda s_: s_ == 'xsd_element.name', lambda s_: s_ == 'tag')]
    ok = len(rels) == 1
    det = ''
    if ok:
        node, rel = rels[0]
        ifn = [x for x in g.nodes if x.kind == 'if' and x.ast.test is node]
        ok = len(ifn) == 1 and rel in ('!=', '==')
        if ok:
            lab = 'T' if rel == '!=' else 'F'
            tgt = [m for m, l in g.succ[ifn[0]] if l == lab]
            ok = bool(tgt) and all(m.kind == 'return' and text(m.ast.value) == 'self.maps.elements.get(tag)' for m in tgt)
        else:
            det = f'the name comparison is part of a larger test `{text([x for x in g.nodes if x.kind == "if" and node in list(ast.walk(x.ast.test))][0].ast.test)}`' \
                if any(x.kind == 'if' and node in list(ast.walk(x.ast.test)) for x in g.nodes) else ''
    ctx.ob(rule, 'get_element: a path that resolves to a declaration with a different name (substitution-group head) yields the global '
                 'declaration of the tag, unconditionally', ge.loc(), ok, det or ('' if ok else 'the partial run would validate a substitution-group member '
                 'with the declaration (and type) of its head'), key='get_element|name-mismatch')
    ctx.explain('C20.b: the three drivers obtain the declaration from get_element(elem.tag, schema_path, namespaces) with '
                'schema_path defaulting to the absolute path of the selection, and report a missing declaration.')


def rule_c(ctx: Ctx, rule: str = 'C20.c') -> None:
    """An element that a driver hands to XsdElement.raw_decode directly (path-selected, lazy chunk) gets its own namespace
    context: the decoder establishes it itself, on every path, whatever the level."""
    f = ctx.idx.func('xmlschema.validators.elements.XsdElement.raw_decode')
    g = cfg_of(ctx, f)
    sets = [n for n, c in call_nodes(g, lambda c: text(c.func) == 'context.converter.set_xmlns_context' and [text(a) for a in c.args] == ['obj', 'context.level'])]
    decs = [n for n, c in call_nodes(g, lambda c: text(c.func) in ('attribute_group.raw_decode', 'content_decoder.raw_decode'))]
    ctx.floor(rule, 'decoder calls in XsdElement.raw_decode', len(decs), 3)
    w = None
    for d in decs:
        w = w or g.must_pass(g.entry, [d], sets, kinds='nTF')
    ok = bool(sets) and w is None
    ctx.ob(rule, 'XsdElement.raw_decode establishes the namespace context of its element before attributes/content are decoded, on every path '
                 '(not only at level 0)', f.loc(sets[0].ast) if sets else f.loc(), ok,
           '' if ok else 'a path reaches the decoders without set_xmlns_context(obj, context.level): an element selected by a path or streamed by a '
           'lazy resource is decoded with the in-scope namespaces of the previously processed sibling', key='XsdElement.raw_decode|xmlns-context')
    # the parent group does it for the children it walks (so the call above is idempotent there)
    gq = ctx.idx.func('xmlschema.validators.groups.XsdGroup.raw_decode')
    gg = cfg_of(ctx, gq)
    cs = [n for n, c in call_nodes(gg, lambda c: text(c.func) == 'context.converter.set_xmlns_context' and text(c.args[0]) == 'child')]
    rec = [n for n, c in call_nodes(gg, lambda c: text(c.func) in ('xsd_element.raw_decode', 'self.maps.any_type.raw_decode'))]
    dom = gg.dominators(kinds='nTF')
    ok = bool(cs) and all(cs[0] in dom[r] for r in rec)
    ctx.ob(rule, 'XsdGroup.raw_decode sets the namespace context of each child before decoding it', gq.loc(), ok, '', key='XsdGroup.raw_decode|xmlns-context')
    ctx.explain(f'{rule}: must-pass-through from the entry of XsdElement.raw_decode to every decoder call through '
                'set_xmlns_context(obj, context.level).')


LIVE_LIST_MUTATORS = {'append', 'pop', 'clear', 'extend', 'insert', 'remove'}


def rule_d(ctx: Ctx, rule: str = 'C20.d') -> None:
    """The ancestor chain that the element selectors update in place is remembered only through a copy: a local that merely
    aliases the live list always compares equal to it, so the per-subtree identity counters are never reset."""
    idx = ctx.idx
    res = idx.cls('xmlschema.resources.xml_resource.XMLResource')
    # selectors whose parameter is updated in place while they are suspended at a yield
    live_params = {}
    for name, m in res.methods.items():
        if isinstance(m.node, ast.Lambda) or not any(isinstance(x, (ast.Yield, ast.YieldFrom)) for x in walk_no_nested(m.node)):
            continue
        for p in m.params:
            if p == 'self':
                continue
            if any(isinstance(c.func, ast.Attribute) and c.func.attr in LIVE_LIST_MUTATORS and text(c.func.value) == p
                   for st in walk_no_nested(m.node) for c in (calls(st) if isinstance(st, ast.stmt) else [])):
                live_params.setdefault(name, set()).add(p)
    ctx.floor(rule, 'generator selectors of XMLResource that update a list argument in place', len(live_params), 2)
    n = 0
    for q in ('iter_errors', 'iter_decode', 'iter_encode'):
        f = idx.method(SCHEMA, q)
        ctx.analysed(f.qualname)
        live = {}
        for st in walk_no_nested(f.node):
            if not isinstance(st, ast.stmt):
                continue
            for c in calls(st):
                if isinstance(c.func, ast.Attribute) and c.func.attr in live_params:
                    m = res.methods[c.func.attr]
                    pos = [p for p in m.params if p != 'self']
                    for i, a in enumerate(c.args):
                        if i < len(pos) and pos[i] in live_params[c.func.attr] and isinstance(a, ast.Name):
                            live[a.id] = c
                    for kw in c.keywords:
                        if kw.arg in live_params[c.func.attr] and isinstance(kw.value, ast.Name):
                            live[kw.value.id] = c
        for st in walk_no_nested(f.node):
            if not isinstance(st, (ast.Assign, ast.AnnAssign)) or getattr(st, 'value', None) is None:
                continue
            v = st.value
            while isinstance(v, ast.Call) and text(v.func) == 'cast' and len(v.args) == 2:
                v = v.args[1]
            tg = st.targets[0] if isinstance(st, ast.Assign) else st.target
            src = None
            if isinstance(v, ast.Name) and v.id in live:
                src, copied = v.id, False
            elif isinstance(v, ast.Subscript) and isinstance(v.value, ast.Name) and v.value.id in live and isinstance(v.slice, ast.Slice):
                src, copied = v.value.id, True
            elif isinstance(v, ast.Call) and len(v.args) == 1 and isinstance(v.args[0], ast.Name) and v.args[0].id in live \
                    and text(v.func) in ('list', 'tuple', 'copy', 'copy.copy'):
                src, copied = v.args[0].id, True
            elif isinstance(v, ast.Call) and isinstance(v.func, ast.Attribute) and v.func.attr == 'copy' and not v.args \
                    and isinstance(v.func.value, ast.Name) and v.func.value.id in live:
                src, copied = v.func.value.id, True
            if src is None or not isinstance(tg, ast.Name):
                continue
            n += 1
            ctx.ob(rule, f'{q}: `{text(tg)}` remembers the live list `{src}` (updated in place by resource.{live[src].func.attr}) through a copy',
                   f.loc(st), copied,
                   '' if copied else f'`{text(st)[:60]}` binds a second name to the very list the selector keeps mutating: `{text(tg)} != {src}` is '
                   'never true again, the identity-constraint counters of a finished subtree are not reset and the part selected by a path '
                   'reports other errors than the whole document', key=f'{q}|snapshot|{text(tg)}|{src}')
    ctx.floor(rule, 'snapshots of a live ancestors list', n, 1)
    ctx.explain(f'{rule}: parameters that the generator selectors of XMLResource mutate in place (append/pop/clear) are live lists; '
                'in the schema drivers every local initialised from such a list must be a copy (slice, list(), .copy()).')


def rule_e(ctx: Ctx) -> None:
    """Path selection goes through a process-wide cache of compiled selectors: the cache key must determine everything the
    compiled selector depends on - the path text, the class and the namespace map with its *URIs*, not only its prefixes."""
    rule = 'C20.e'
    f = ctx.idx.method('xmlschema.xpath.selectors.ElementSelector', 'cached_selector')
    ctx.analysed(f.qualname)
    # what the cached value is built from
    builds = [c for c in calls(f.node) if text(c.func) in ('cls', 'ElementSelector', 'self.__class__')]
    ctx.floor(rule, 'constructions of the cached selector', len(builds), 1)
    used = {x.id for c in builds for a in list(c.args) + [k.value for k in c.keywords] for x in ast.walk(a) if isinstance(x, ast.Name)} & set(f.params)
    # the key: every definition / extension of the local that subscripts the cache
    keys = {text(x.slice) for x in ast.walk(f.node) if isinstance(x, ast.Subscript) and isinstance(x.slice, ast.Name)
            and isinstance(x.value, ast.Name) and x.value.id.endswith('_cache')}
    if len(keys) != 1:
        raise AnalysisError(f'UNRECOGNISED-IDIOM {rule}: cache subscripts {sorted(keys)} in {f.qualname}')
    kv = keys.pop()
    parts = [s.value for s in walk_no_nested(f.node)
             if isinstance(s, (ast.Assign, ast.AnnAssign, ast.AugAssign)) and getattr(s, 'value', None) is not None
             and text(s.targets[0] if isinstance(s, ast.Assign) else s.target) == kv]
    ctx.floor(rule, 'definitions of the cache key', len(parts), 1)
    for p in sorted(used):
        occ = [(x, part) for part in parts for x in ast.walk(part) if isinstance(x, ast.Name) and x.id == p]
        ok = bool(occ)
        det = '' if ok else f'`{p}` is an input of the compiled selector but not part of the cache key'
        ann = next((a.annotation for a in f.node.args.args + f.node.args.kwonlyargs if a.arg == p), None)
        if ok and ann is not None and ('Nsmap' in text(ann) or 'Mapping' in text(ann) or 'dict' in text(ann).lower()):
            # a mapping contributes its items (keys and values); iterating it, sorting it or taking its keys contributes the keys only
            full = any(isinstance(c, ast.Call) and isinstance(c.func, ast.Attribute) and c.func.attr == 'items' and text(c.func.value) == p
                       for part in parts for c in ast.walk(part))
            ok = full
            det = '' if ok else (f'the key is built from the prefixes of `{p}` only: a selector compiled for one binding of a prefix is reused for a '
                                 'document that binds the same prefix (or the default namespace) to another URI - the path then selects nothing '
                                 'and partial validation reports a valid part')
        ctx.ob(rule, f'cached_selector: the cache key determines the `{p}` the selector is compiled with', f.loc(), ok, det, key=f'cached_selector|key|{p}')
    ctx.explain('C20.e: parameters flowing into the construction of the cached selector must occur in the definitions of the cache '
                'key; a mapping parameter must occur through `.items()`.')


def _edge_means_not_found(t: str, lab: str) -> bool:
    """on the edge (test text, label) the lookup result is known not to be an element (truth table over the atoms of the test)."""
    from .common import atom_forces, bool_atoms
    try:
        te = ast.parse(t, mode='eval').body
    except SyntaxError:
        return False
    for a in bool_atoms(te):
        if a == 'isinstance(xsd_element, XsdElement)' and atom_forces(te, a, True, lab != 'T'):
            return True       # were it an element the test would go the other way
        if a == 'xsd_element is None' and atom_forces(te, a, False, lab != 'T'):
            return True
    return False


def rule_f(ctx: Ctx, rule: str = 'C20.f') -> None:
    """A selection path ending in `*` (every chunk of a lazy resource, or path='…/*') names the children of a known parent: the
    declaration that governs such a child is the one found *under that parent*; the global declaration of the same name is only a
    fallback for a child the parent does not declare."""
    f = ctx.idx.method(SCHEMA, 'get_element')
    ctx.analysed(f.qualname)
    g = cfg_of(ctx, f)
    star = [x for x in g.nodes if x.kind == 'if' and text(x.ast.test) in ("path[-1] == '*'", "path.endswith('*')", "path[-1:] == '*'")]
    if len(star) != 1:
        raise AnalysisError(f'UNRECOGNISED-IDIOM {rule}: wildcard-step branch of {f.qualname}')
    finds = [n for n, c in call_nodes(g, lambda c: text(c.func) == 'self.find') if (text(star[0].ast.test), 'T') in guards(ctx, f, n)]
    globs = []
    for n in g.stmt_nodes():
        if (text(star[0].ast.test), 'T') not in guards(ctx, f, n):
            continue
        if any(text(c.func) == 'self.maps.elements.get' for e in n.exprs for c in calls(e)) or \
                any(isinstance(x, ast.Subscript) and text(x.value) == 'self.maps.elements' for e in n.exprs for x in ast.walk(e)):
            globs.append(n)
    ctx.floor(rule, 'global-declaration fallbacks in the wildcard-step branch', len(globs), 1)
    dom = g.dominators(kinds='nTF')
    for n in globs:
        ok = any(fd in dom[n] for fd in finds) and any(_edge_means_not_found(t, lab) for t, lab in guards(ctx, f, n))
        ctx.ob(rule, 'get_element: for a path ending in `*` the global declaration is consulted only after the lookup under the parent found none', f.loc(n.ast), ok,
               '' if ok else 'the global declaration of the tag is taken before (or without) `self.find(path[:-1] + tag)`: a local child declaration that shares its name '
               'with a global element of another type is validated against the global one - lazy chunks and path=".../*" disagree with the full run',
               key='get_element|star|local-first')
    ctx.explain(f'{rule}: in the `*` branch of XMLSchemaBase.get_element the global lookup is dominated by self.find(...) and reached only '
                'when that found no element.')


NAME_TABLES = ('self.name', 'self.substitutes', 'self.qualified_name')


def rule_g(ctx: Ctx) -> None:
    """Name tests of XPath steps on the schema: a local name given with a default namespace is completed to {namespace}local, and
    every comparison that follows - with the element's own name, its qualified name, the names of its substitution group - uses the
    completed name.  A comparison that still sees the bare name makes the default-namespace form of a path miss what the prefixed
    form finds (sibling pair is_matching / match)."""
    rule = 'C20.g'
    n = 0
    for meth in ('is_matching', 'match'):
        f = ctx.idx.method('xmlschema.validators.elements.XsdElement', meth)
        ctx.analysed(f.qualname)
        g = cfg_of(ctx, f)
        rd = g.reaching_defs(kinds='nTF')
        quals = [x for x in g.nodes if x.kind == 'stmt' and isinstance(x.ast, ast.Assign) and isinstance(x.ast.value, ast.JoinedStr)
                 and 'default_namespace' in text(x.ast.value) and 'name' in names_in(x.ast.value)]
        ctx.floor(rule, f'{meth}: completion of a local name with the default namespace', len(quals), 1)
        if not quals:
            continue
        q = quals[0]
        qvar = text(q.ast.targets[0])
        after = g.reachable([q], kinds='nTF')
        for x in g.nodes:
            if x not in after or x is q:
                continue
            for e in (x.exprs or ([x.ast] if x.kind in ('stmt', 'return') else [])):
                for cmp_ in [y for y in ast.walk(e) if isinstance(y, ast.Compare) and len(y.ops) == 1 and isinstance(y.ops[0], (ast.Eq, ast.NotEq, ast.In, ast.NotIn))]:
                    l, r = cmp_.left, cmp_.comparators[0]
                    tabs = [t for t in (text(l), text(r)) if t in NAME_TABLES or t.endswith('.qualified_name') or t.endswith('.name') and t != 'self.name' and not t.startswith('self.')]
                    if not tabs:
                        continue
                    for opnd in (l, r):
                        if not isinstance(opnd, ast.Name):
                            continue
                        n += 1
                        defs = rd[x].get(opnd.id, set())
                        # on paths through the completion, the operand must carry the completed name: its definitions reaching here are the completion itself
                        # (plus, where the completion is conditional, the parameter for the paths that skipped it)
                        if opnd.id == qvar:
                            ok = q in defs
                        else:
                            ok = False
                        if opnd.id in f.params and opnd.id != qvar:
                            ok = False
                        ctx.ob(rule, f'XsdElement.{meth}: `{text(cmp_)[:60]}` (line {cmp_.lineno}) compares the completed name', f.loc(cmp_), ok,
                               '' if ok else f'`{opnd.id}` is the name as given, not `{qvar}`: with a default namespace a local name is looked up unqualified in {tabs[0]} - '
                               'schema.find("/root/b/member", {"": ns}) returns None for a substitution-group member although /t:root/t:b/t:member finds it, and partial '
                               'validation by that path silently skips the element', key=f'XsdElement.{meth}|completed|{text(cmp_)[:40]}')
    ctx.floor(rule, 'name comparisons after the completion', n, 4)
    ctx.explain('C20.g: reaching definitions in XsdElement.is_matching / match - every operand compared with the element name tables after the statement that completes a local '
                'name with the default namespace is the completed variable.')


def rule_h(ctx: Ctx) -> None:
    """Limiting the depth changes nothing above the cut.  The document-wide reference check (_validate_references) reads tables that the
    walk fills (xs:ID values seen, keyrefs still open); after a walk that skipped everything below max_depth those tables are incomplete,
    so an xs:IDREF above the cut whose xs:ID lies below it is reported as dangling.  The three drivers must agree on not running the
    check after a depth-limited walk."""
    rule = 'C20.h'
    n = 0
    for q in ('xmlschema.validators.schemas.XMLSchemaBase.iter_errors', 'xmlschema.validators.schemas.XMLSchemaBase.iter_decode',
              'xmlschema.validators.schemas.XMLSchemaBase.raw_decoder'):
        f = ctx.idx.func(q)
        ctx.analysed(q)
        g = cfg_of(ctx, f)
        for nd, c in call_nodes(g, lambda c: text(c.func) == 'self._validate_references'):
            n += 1
            gs = guards(ctx, f, nd)
            ok = any(('max_depth is None' in t and lab == 'T') or ('max_depth is not None' in t and lab == 'F') or ('.cut' in t or 'truncated' in t) for t, lab in gs)
            ctx.ob(rule, f'{q.split(".")[-1]}: the document-wide reference check is not run after a depth-limited walk', f.loc(c), ok,
                   '' if ok else 'the check runs whatever max_depth is: xs:ID values below the cut were never registered, so for <root first="a"><sect><def id="a"/></sect></root> '
                   '(first: xs:IDREF, def/@id: xs:ID) max_depth=1 reports "IDREF \'a\' not found" while the full run is clean (the sibling raw_decoder guards the call with '
                   '`context.max_depth is None`)', key=f'{q}|references-after-cut')
    ctx.floor(rule, 'document-wide reference checks', n, 3)
    ctx.explain('C20.h: sibling agreement of iter_errors / iter_decode / raw_decoder on the guard of _validate_references (control dependence on a max_depth test).')


def rule_i(ctx: Ctx) -> None:
    """Limiting the depth changes nothing above the cut: in the loop of XsdGroup.raw_decode over the children, what belongs to the
    parent's level - the character data after a child (child.tail) - is collected whether or not the child itself is beyond the limit."""
    rule = 'C20.i'
    from .common import reach_cut
    n = 0
    for cq in ('xmlschema.validators.groups.XsdGroup',):
        f = ctx.idx.method(cq, 'raw_decode')
        ctx.analysed(f.qualname)
        g = cfg_of(ctx, f)
        loops = [x for x in g.nodes if x.kind == 'for' and text(x.ast.iter) == 'enumerate(obj)']
        if len(loops) != 1:
            raise AnalysisError(f'{rule}: expected `for index, child in enumerate(obj)` in {f.qualname}')
        lp = loops[0]
        tails = [x for x in g.nodes if any(isinstance(y, ast.Attribute) and text(y) == 'child.tail' for e in (x.exprs or ([x.ast] if x.kind == 'stmt' else [])) for y in ast.walk(e))]
        ctx.floor(rule, 'reads of child.tail in the decoding loop', len(tails), 1)
        cuts = [x for x in g.nodes if x.kind == 'if' and text(x.ast.test) == 'over_max_depth' and isinstance(x.ast, ast.If)]
        for x in cuts:
            # the decoding side only (for plain validation nothing is collected)
            if any(m.kind == 'continue' for m, lab in g.succ[x] if lab == 'T') and not any('depth_filler' in text(s_) for s_ in x.ast.body):
                continue
            n += 1
            seen = reach_cut(g, [m for m, lab in g.succ[x] if lab == 'T'], set(), avoid=[lp], kinds='nTF')
            ok = any(t in seen for t in tails)
            ctx.ob(rule, 'XsdGroup.raw_decode: the text after a child beyond max_depth is still collected for the parent', f.loc(x.ast), ok,
                   '' if ok else 'the branch for a child beyond the limit ends the iteration before `child.tail` is read: decode(\'<root>head<p/>mid<p/>tail</root>\', max_depth=1) '
                   'returns only the first chunk, the mixed content above the cut differs from that of the full document', key='XsdGroup.raw_decode|tail-above-cut')
    ctx.floor(rule, 'depth cuts on the decoding side', n, 1)
    ctx.explain('C20.i: within one iteration of the loop over the children, the statement that reads child.tail is reachable from the true edge of the decoding-side '
                '`over_max_depth` test.')


def rule_j(ctx: Ctx) -> None:
    """Validating and decoding the part selected by a path agree: max_depth is counted from `context.level`, so the two drivers have to
    start a path-selected element at the same level."""
    rule = 'C20.j'
    lv = {}
    for q, ctor in (('xmlschema.validators.schemas.XMLSchemaBase.iter_errors', 'ValidationContext'), ('xmlschema.validators.schemas.XMLSchemaBase.iter_decode', 'DecodeContext')):
        f = ctx.idx.func(q)
        ctx.analysed(q)
        cs = [c for c in calls(f.node) if text(c.func) == ctor]
        if len(cs) != 1:
            raise AnalysisError(f'{rule}: expected one {ctor}(…) in {q}')
        kw = {k.arg: k.value for k in cs[0].keywords if k.arg}
        sets = [x for x in walk_no_nested(f.node) if isinstance(x, ast.Assign) and any(text(t) == 'kwargs' for t in x.targets)]
        upd = [c for c in calls(f.node) if text(c.func) == 'kwargs.update' for k in c.keywords if k.arg == 'level']
        level = kw.get('level')
        lv[q] = (text(level) if level is not None else ('kwargs' if upd else '0 (default)'), f.loc(cs[0]))
    a, b = lv.values()
    with_path = {q: ('1' if 'bool(path)' in v[0] else '0') for q, v in lv.items()}
    ok = len(set(with_path.values())) == 1
    ctx.ob(rule, 'iter_errors and iter_decode start a path-selected element at the same level', a[1], ok,
           '' if ok else f'iter_errors starts at level `{a[0]}`, iter_decode at `{b[0]}`: the same max_depth cuts one level earlier for validation - with path="/root/a" and max_depth=3 '
           'iter_errors(\'<root><a><b><c>bad</c></b></a></root>\') reports nothing while decode(…, validation="lax") reports the error at /root/a/b/c',
           key='drivers|initial-level-with-path')
    ctx.explain('C20.j: the `level=` argument of the context constructed by iter_errors is compared with the one of iter_decode for the case of a non-empty path.')


def rule_k(ctx: Ctx) -> None:
    """With max_depth set XsdElement.raw_decode does not check the key references of the top-level element at its end: it leaves their
    counters enabled and relies on the final pass of _validate_references, for every kind of source.  That pass lies on every path
    through _validate_references (no early return for non-lazy sources)."""
    rule = 'C20.k'
    f = ctx.idx.method(SCHEMA, '_validate_references')
    ctx.analysed(f.qualname)
    g = cfg_of(ctx, f)
    loops = [x for x in g.nodes if x.kind == 'for' and text(x.ast.iter).startswith('context.identities')]
    if len(loops) != 1:
        raise AnalysisError(f'UNRECOGNISED-IDIOM {rule}: the keyref pass of {f.qualname}')
    w = g.must_pass(g.entry, [g.exit], loops, kinds='nTF')
    ok = w is None
    ctx.ob(rule, '_validate_references: the pass over the key references still enabled lies on every path', f.loc(loops[0].ast), ok,
           '' if ok else f'the function can end at line {w[-2].lineno if len(w) > 1 else 0} before the pass: a dangling keyref declared on the root element is reported by iter_errors(doc) and lost '
           'by iter_errors(doc, max_depth=10), although nothing is cut', key='_validate_references|keyref-pass-always')
    # the producer side of the contract: under a depth limit the top-level element leaves its counters enabled
    rd = ctx.idx.method('xmlschema.validators.elements.XsdElement', 'raw_decode')
    src = text(rd.node)
    relies = 'context.max_depth is None' in src and 'elif context.level:' in ast.unparse(rd.node)
    ctx.ob(rule, 'XsdElement.raw_decode leaves the counters of the top-level element to the final pass when max_depth is set (the contract relied on)', rd.loc(), relies, '',
           key='raw_decode|level0-deferred', nontrivial=False)
    ctx.explain('C20.k: must-pass-through in XMLSchemaBase._validate_references - every path from the entry to the exit goes through the loop over context.identities.')


def _char_pred(e: ast.AST, var: str, ch: str):
    """value of a character predicate (the forms used by the name scanners) for the character ``ch``; None when not evaluable."""
    if isinstance(e, ast.BoolOp):
        vs = [_char_pred(v, var, ch) for v in e.values]
        if any(v is None for v in vs):
            return None
        return all(vs) if isinstance(e.op, ast.And) else any(vs)
    if isinstance(e, ast.UnaryOp) and isinstance(e.op, ast.Not):
        v = _char_pred(e.operand, var, ch)
        return None if v is None else not v
    if isinstance(e, ast.Call) and isinstance(e.func, ast.Attribute) and isinstance(e.func.value, ast.Name) and e.func.value.id == var and not e.args:
        return {'isalnum': ch.isalnum(), 'isalpha': ch.isalpha(), 'isdigit': ch.isdigit()}.get(e.func.attr)
    if isinstance(e, ast.Compare):
        if len(e.ops) == 1 and isinstance(e.left, ast.Name) and e.left.id == var and isinstance(e.comparators[0], ast.Constant) and isinstance(e.comparators[0].value, str):
            if isinstance(e.ops[0], ast.In):
                return ch in e.comparators[0].value
            if isinstance(e.ops[0], ast.Eq):
                return ch == e.comparators[0].value
        if len(e.ops) == 2 and all(isinstance(o, ast.LtE) for o in e.ops) and text(e.comparators[0]) == f'ord({var})' \
                and isinstance(e.left, ast.Constant) and isinstance(e.comparators[1], ast.Constant):
            return e.left.value <= ord(ch) <= e.comparators[1].value
    return None


def rule_l(ctx: Ctx) -> None:
    """Every element path can be written: the scanner that splits a path into steps (to add the default namespace / expand prefixes)
    recognises the whole NCName alphabet - names may start with a letter or '_' and continue with letters, digits, '.', '-', '_'.  A name
    cut in the middle yields a malformed expression: find(), iter_errors(path=…) and decode(path=…) raise a syntax error."""
    rule = 'C20.l'
    mod = ctx.idx.module('xpath.selectors')
    n = 0
    for fname, chars, what in (('is_ncname_start', 'aZ_', 'first character of a name'), ('is_ncname_continuation', 'aZ09._-', 'further character of a name')):
        f = mod.functions.get(fname)
        if f is None:
            ctx.ob(rule, f'xpath.selectors.{fname} exists', f'{mod.relpath}:1', False, f'the scanner has no predicate for the {what}', key=f'selectors|{fname}')
            continue
        ctx.analysed(f.qualname)
        rets = [r for r in ast.walk(f.node) if isinstance(r, ast.Return) and r.value is not None]
        var = f.params[0]
        for ch in chars:
            n += 1
            v = _char_pred(rets[0].value, var, ch) if len(rets) == 1 else None
            ctx.ob(rule, f'{fname}: {ch!r} is accepted as {what}', f.loc(), v is True,
                   '' if v is True else ('not evaluable' if v is None else f'{ch!r} is refused: a path step such as my_item is cut after `my` and the rewritten path is malformed - '
                                          'schema.find("/root/b/my_item", {"": ns}) raises ElementPathSyntaxError'), key=f'selectors|{fname}|{ch}')
    sp = mod.functions.get('split_path')
    starts = [c for c in calls(sp.node) if isinstance(c.func, ast.Attribute) and c.func.attr in ('isalpha', 'isalnum') and 'path[' in text(c.func.value)]
    ctx.ob(rule, 'split_path recognises the start of a name with the name-start predicate', sp.loc(starts[0]) if starts else sp.loc(), not starts,
           '' if not starts else f'`{text(starts[0])}`: names starting with "_" are not scanned as names', key='split_path|name-start')
    ctx.floor(rule, 'characters of the NCName alphabet checked', n, 10)
    ctx.explain('C20.l: the character predicates of xmlschema/xpath/selectors.py are evaluated (over the expression forms str-method / membership in a literal / code-point range) '
                'for representatives of the NCName alphabet.')


def rule_m(ctx: Ctx) -> None:
    """A path handed to find() / findall() / iterfind() of a schema component is read with the *caller's* prefix map when one is given - the drivers pass the
    map of the instance, in which an unprefixed step means "no namespace" unless the instance says otherwise.  The schema document's own declarations (its
    default namespace, typically the XSD namespace) are a fallback for a missing map only, never merged under a given one.  Sibling agreement of the three."""
    rule = 'C20.m'
    c = ctx.idx.cls('xmlschema.xpath.mixin.ElementPathMixin')
    n = 0
    for meth in ('find', 'findall', 'iterfind'):
        f = c.methods.get(meth)
        if f is None:
            raise AnalysisError(f'missing anchor ElementPathMixin.{meth}')
        ctx.analysed(f.qualname)
        g = cfg_of(ctx, f)
        p = [x for x in f.params if x != 'self']
        nsp = p[1] if len(p) > 1 else 'namespaces'
        defs = [x for x in g.nodes if x.kind == 'stmt' and isinstance(x.ast, ast.Assign) and any(text(t) == nsp for t in x.ast.targets)]
        n += 1
        bad = [d for d in defs if not ((f'{nsp} is None', 'T') in guards(ctx, f, d) or (f'{nsp} is not None', 'F') in guards(ctx, f, d) or (f'not {nsp}', 'T') in guards(ctx, f, d))]
        parsers = [cl for cl in calls(f.node) if text(cl.func).endswith('FindParser') or text(cl.func).endswith('Parser')]
        arg_ok = all(cl.args and text(cl.args[0]) == nsp for cl in parsers) and bool(parsers)
        ok = not bad and arg_ok
        ctx.ob(rule, f'ElementPathMixin.{meth}: a given prefix map is used as it is (the schema\'s own map only replaces a missing one)', f.loc(bad[0].ast) if bad else f.loc(), ok,
               '' if ok else (f'`{text(bad[0].ast)[:60]}` rebinds the map although one was given' if bad else 'the parser does not receive the map parameter') +
               ': the default namespace of the schema document leaks into the lookup - with <schema xmlns="http://www.w3.org/2001/XMLSchema"> the unprefixed steps of '
               'iter_errors(path=\'/root/item\') select nothing on the schema and the selected elements are silently skipped', key=f'ElementPathMixin.{meth}|caller-map')
    ctx.floor(rule, 'path lookup methods', n, 3)
    ctx.explain('C20.m: in ElementPathMixin.find / findall / iterfind every assignment to the `namespaces` parameter is control dependent on `namespaces is None`, and the parser is '
                'constructed with that parameter.')


RULES = [rule_a, rule_b, rule_c, rule_d, rule_e, rule_f, rule_g, rule_h, rule_i, rule_j, rule_k, rule_l, rule_m]
