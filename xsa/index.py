"""L0 source index: every module of /repo/xmlschema parsed with ``ast``.

Nothing from the repository is imported or executed: modules are read as text
(``utf-8-sig`` because six files start with a BOM) and parsed.
"""
from __future__ import annotations

import ast
import hashlib
import os
from dataclasses import dataclass, field
from typing import Iterator, Optional

REPO = os.environ.get('XSA_REPO', '/repo')
PKG = 'xmlschema'


class AnalysisError(Exception):
    """The analysis itself cannot proceed (missing anchor, unknown idiom)."""


@dataclass
class FuncInfo:
    qualname: str               # xmlschema.validators.groups.XsdGroup.raw_decode
    module: 'ModuleInfo'
    node: ast.AST               # FunctionDef | AsyncFunctionDef
    cls: Optional['ClassInfo'] = None

    @property
    def name(self) -> str:
        return self.node.name

    @property
    def file(self) -> str:
        return self.module.relpath

    def loc(self, node: Optional[ast.AST] = None) -> str:
        n = node if node is not None else self.node
        return f'{self.module.relpath}:{getattr(n, "lineno", 0)}'

    @property
    def decorators(self) -> list[str]:
        return [dotted(d.func if isinstance(d, ast.Call) else d) or '?' for d in self.node.decorator_list]

    @property
    def params(self) -> list[str]:
        a = self.node.args
        return [x.arg for x in a.posonlyargs + a.args + a.kwonlyargs]


@dataclass
class ClassInfo:
    qualname: str
    module: 'ModuleInfo'
    node: ast.ClassDef
    base_exprs: list[str] = field(default_factory=list)
    bases: list['ClassInfo'] = field(default_factory=list)
    ext_bases: list[str] = field(default_factory=list)   # resolved dotted names outside the package
    methods: dict[str, FuncInfo] = field(default_factory=dict)
    class_attrs: dict[str, ast.AST] = field(default_factory=dict)
    _mro: Optional[list['ClassInfo']] = None

    @property
    def name(self) -> str:
        return self.node.name

    def mro(self) -> list['ClassInfo']:
        if self._mro is None:
            self._mro = _c3(self)
        return self._mro

    def find_method(self, name: str) -> Optional[FuncInfo]:
        for c in self.mro():
            if name in c.methods:
                return c.methods[name]
        return None

    def find_attr(self, name: str) -> Optional[tuple['ClassInfo', ast.AST]]:
        for c in self.mro():
            if name in c.class_attrs:
                return c, c.class_attrs[name]
        return None

    def all_ext_bases(self) -> set[str]:
        out: set[str] = set()
        for c in self.mro():
            out.update(c.ext_bases)
        return out

    def is_subclass_of(self, other: 'ClassInfo') -> bool:
        return other in self.mro()


def _c3(cls: ClassInfo) -> list[ClassInfo]:
    seqs = [list(b.mro()) for b in cls.bases] + [list(cls.bases)]
    res = [cls]
    while True:
        seqs = [s for s in seqs if s]
        if not seqs:
            return res
        for s in seqs:
            cand = s[0]
            if not any(cand in t[1:] for t in seqs):
                break
        else:  # inconsistent hierarchy: fall back to DFS order
            cand = seqs[0][0]
        res.append(cand)
        for s in seqs:
            if s and s[0] is cand:
                del s[0]


@dataclass
class ModuleInfo:
    name: str                   # xmlschema.validators.groups
    path: str
    relpath: str                # xmlschema/validators/groups.py
    source: str
    tree: ast.Module
    imports: dict[str, str] = field(default_factory=dict)   # local name -> dotted target
    functions: dict[str, FuncInfo] = field(default_factory=dict)   # top-level
    classes: dict[str, ClassInfo] = field(default_factory=dict)
    assigns: dict[str, ast.AST] = field(default_factory=dict)      # module-level NAME = value
    is_package: bool = False

    def segment(self, node: ast.AST) -> str:
        return ast.get_source_segment(self.source, node) or ''


def dotted(node: ast.AST) -> Optional[str]:
    """``a.b.c`` for Name/Attribute chains, else None."""
    parts = []
    while isinstance(node, ast.Attribute):
        parts.append(node.attr)
        node = node.value
    if isinstance(node, ast.Name):
        parts.append(node.id)
        return '.'.join(reversed(parts))
    return None


def norm_text(node: ast.AST) -> str:
    """Normalised text of a statement/expression (position independent)."""
    return ast.unparse(node)


class Index:
    def __init__(self, repo: str = REPO, pkg: str = PKG, overlay: Optional[dict[str, str]] = None) -> None:
        self.repo = repo
        self.overlay = overlay or {}
        self.pkg = pkg
        self.modules: dict[str, ModuleInfo] = {}
        self.functions: dict[str, FuncInfo] = {}     # all functions incl. methods and nested (qualname)
        self.classes: dict[str, ClassInfo] = {}
        self.digest = ''
        self._load()

    # ------------------------------------------------------------------ loading
    def _load(self) -> None:
        root = os.path.join(self.repo, self.pkg)
        if not os.path.isdir(root):
            raise AnalysisError(f'package directory {root} not found')
        h = hashlib.sha256()
        paths = []
        for dp, dn, fn in os.walk(root):
            dn.sort()
            for f in sorted(fn):
                if f.endswith('.py'):
                    paths.append(os.path.join(dp, f))
        for p in paths:
            with open(p, 'rb') as fp:
                raw = fp.read()
            rel = os.path.relpath(p, self.repo)
            if rel in self.overlay:
                raw = self.overlay[rel].encode('utf-8')
            h.update(rel.encode() + b'\0' + raw)
            src = raw.decode('utf-8-sig')
            modname = rel[:-3].replace(os.sep, '.')
            is_pkg = False
            if modname.endswith('.__init__'):
                modname = modname[:-9]
                is_pkg = True
            try:
                tree = ast.parse(src, filename=rel)
            except SyntaxError as e:
                raise AnalysisError(f'cannot parse {rel}: {e}')
            from .roles import drop_logging
            drop_logging(tree)              # pure logging statements decide nothing (and may be added or removed freely)
            m = ModuleInfo(modname, p, rel, src, tree, is_package=is_pkg)
            self.modules[modname] = m
        self.digest = h.hexdigest()
        for m in self.modules.values():
            self._index_module(m)
        for c in self.classes.values():
            self._resolve_bases(c)
        from .roles import canonicalise
        self.recovered_names = canonicalise(self)

    def _index_module(self, m: ModuleInfo) -> None:
        for node in ast.walk(m.tree):
            if isinstance(node, ast.Import):
                for a in node.names:
                    m.imports[a.asname or a.name.split('.')[0]] = a.name if a.asname else a.name.split('.')[0]
            elif isinstance(node, ast.ImportFrom):
                base = node.module or ''
                if node.level:
                    pkg_parts = m.name.split('.')
                    if not m.is_package:
                        pkg_parts = pkg_parts[:-1]
                    if node.level > 1:
                        pkg_parts = pkg_parts[:-(node.level - 1)]
                    base = '.'.join(pkg_parts + ([base] if base else []))
                for a in node.names:
                    m.imports[a.asname or a.name] = f'{base}.{a.name}'
        self._index_body(m, m.tree.body, m.name, None, toplevel=True)

    def _index_body(self, m: ModuleInfo, body: list, prefix: str, cls: Optional[ClassInfo], toplevel=False) -> None:
        for node in body:
            if isinstance(node, (ast.FunctionDef, ast.AsyncFunctionDef)):
                qn = f'{prefix}.{node.name}'
                fi = FuncInfo(qn, m, node, cls)
                # property setters etc. share a name: keep the first (getter), register others with suffix
                if qn in self.functions:
                    k = 2
                    while f'{qn}#{k}' in self.functions:
                        k += 1
                    fi.qualname = f'{qn}#{k}'
                self.functions[fi.qualname] = fi
                if cls is not None and node.name not in cls.methods:
                    cls.methods[node.name] = fi
                elif cls is None and toplevel and node.name not in m.functions:
                    m.functions[node.name] = fi
                self._index_nested(m, node, fi.qualname, cls)
            elif isinstance(node, ast.ClassDef):
                qn = f'{prefix}.{node.name}'
                ci = ClassInfo(qn, m, node, [ast.unparse(b) for b in node.bases])
                self.classes[qn] = ci
                if toplevel:
                    m.classes[node.name] = ci
                self._index_body(m, node.body, qn, ci)
            elif isinstance(node, (ast.Assign, ast.AnnAssign)):
                targets = node.targets if isinstance(node, ast.Assign) else [node.target]
                for t in targets:
                    if isinstance(t, ast.Name) and node.value is not None:
                        if cls is not None:
                            cls.class_attrs.setdefault(t.id, node.value)
                        elif toplevel:
                            m.assigns[t.id] = node.value
                    elif isinstance(t, ast.Name) and cls is not None:
                        cls.class_attrs.setdefault(t.id, node)   # annotation only
            elif isinstance(node, (ast.If, ast.Try)) and (toplevel or cls is not None):
                # conditional definitions at module/class level
                for sub in ast.iter_child_nodes(node):
                    pass
                bodies = []
                if isinstance(node, ast.If):
                    bodies = [node.body, node.orelse]
                else:
                    bodies = [node.body, node.orelse, node.finalbody] + [h.body for h in node.handlers]
                for b in bodies:
                    self._index_body(m, b, prefix, cls, toplevel)

    def _index_nested(self, m: ModuleInfo, fnode: ast.AST, prefix: str, cls: Optional[ClassInfo]) -> None:
        for node in ast.iter_child_nodes(fnode):
            self._nested_walk(m, node, prefix, cls)

    def _nested_walk(self, m, node, prefix, cls):
        if isinstance(node, (ast.FunctionDef, ast.AsyncFunctionDef)):
            qn = f'{prefix}.<locals>.{node.name}'
            fi = FuncInfo(qn, m, node, None)
            self.functions.setdefault(qn, fi)
            self._index_nested(m, node, qn, None)
        elif isinstance(node, ast.ClassDef):
            qn = f'{prefix}.<locals>.{node.name}'
            ci = ClassInfo(qn, m, node, [ast.unparse(b) for b in node.bases])
            self.classes.setdefault(qn, ci)
            self._index_body(m, node.body, qn, ci)
        else:
            for ch in ast.iter_child_nodes(node):
                self._nested_walk(m, ch, prefix, cls)

    # --------------------------------------------------------------- resolution
    def resolve_name(self, m: ModuleInfo, name: str, _depth: int = 0) -> Optional[str]:
        """Resolve a (dotted) name used in module ``m`` to a full dotted target."""
        if _depth > 8:
            return None
        head, _, rest = name.partition('.')
        if head in m.classes:
            tgt = m.classes[head].qualname
        elif head in m.functions:
            tgt = m.functions[head].qualname
        elif head in m.imports:
            tgt = m.imports[head]
        elif head in m.assigns:
            tgt = f'{m.name}.{head}'
        else:
            return None
        full = tgt + ('.' + rest if rest else '')
        return self._canonical(full, _depth)

    def _canonical(self, full: str, _depth: int = 0) -> str:
        """Follow re-exports through package ``__init__`` modules."""
        if full in self.classes or full in self.functions or full in self.modules:
            return full
        # split into module + attr chain
        parts = full.split('.')
        for i in range(len(parts) - 1, 0, -1):
            mod = '.'.join(parts[:i])
            if mod in self.modules:
                mm = self.modules[mod]
                attr = parts[i]
                rest = parts[i + 1:]
                if attr in mm.imports and _depth < 8:
                    tgt = mm.imports[attr]
                    if tgt != full:
                        return self._canonical('.'.join([tgt] + rest), _depth + 1)
                return full
        return full

    def _resolve_bases(self, c: ClassInfo) -> None:
        for b in c.node.bases:
            if isinstance(b, ast.Subscript):   # Generic[...] etc.
                b = b.value
            d = dotted(b)
            if d is None:
                continue
            full = self.resolve_name(c.module, d)
            if full is None:
                c.ext_bases.append(d)   # builtin (Exception, dict, ...)
            elif full in self.classes:
                c.bases.append(self.classes[full])
            else:
                c.ext_bases.append(full)

    # ------------------------------------------------------------------ lookups
    def func(self, qualname: str) -> FuncInfo:
        if not qualname.startswith(self.pkg + '.'):
            qualname = f'{self.pkg}.{qualname}'
        f = self.functions.get(qualname)
        if f is None:
            raise AnalysisError(f'missing anchor {qualname}')
        return f

    def cls(self, qualname: str) -> ClassInfo:
        if not qualname.startswith(self.pkg + '.'):
            qualname = f'{self.pkg}.{qualname}'
        c = self.classes.get(qualname)
        if c is None:
            raise AnalysisError(f'missing anchor class {qualname}')
        return c

    def module(self, name: str) -> ModuleInfo:
        if not name.startswith(self.pkg):
            name = f'{self.pkg}.{name}'
        m = self.modules.get(name)
        if m is None:
            raise AnalysisError(f'missing anchor module {name}')
        return m

    def method(self, cls_qualname: str, name: str) -> FuncInfo:
        c = self.cls(cls_qualname)
        f = c.find_method(name)
        if f is None:
            raise AnalysisError(f'missing anchor {cls_qualname}.{name}')
        return f

    def subclasses(self, c: ClassInfo, strict: bool = False) -> list[ClassInfo]:
        return [k for k in self.classes.values() if c in k.mro() and (not strict or k is not c)]

    def overrides(self, c: ClassInfo, name: str) -> list[FuncInfo]:
        """All definitions of method ``name`` in ``c``'s MRO-resolved one plus those of subclasses."""
        out = []
        seen = set()
        for k in self.subclasses(c):
            f = k.find_method(name)
            if f is not None and id(f) not in seen:
                seen.add(id(f))
                out.append(f)
        return out

    def iter_functions(self, module_prefix: str = '') -> Iterator[FuncInfo]:
        pref = f'{self.pkg}.{module_prefix}' if module_prefix else self.pkg
        for f in self.functions.values():
            if f.module.name == pref or f.module.name.startswith(pref + '.') or not module_prefix:
                yield f

    def exception_class_chain(self, name: str, m: ModuleInfo) -> set[str]:
        """Names of the class ``name`` (as used in module m) and all its ancestors,
        following repo classes and the builtin exception hierarchy."""
        out: set[str] = set()
        full = self.resolve_name(m, name)
        if full in self.classes:
            for c in self.classes[full].mro():
                out.add(c.name)
                for e in c.ext_bases:
                    out |= builtin_exc_chain(e.split('.')[-1])
        else:
            out |= builtin_exc_chain(name.split('.')[-1])
            out.add(name.split('.')[-1])
        return out


_BUILTIN_EXC_PARENT = {
    'BaseException': None, 'Exception': 'BaseException', 'ArithmeticError': 'Exception',
    'OverflowError': 'ArithmeticError', 'ZeroDivisionError': 'ArithmeticError',
    'FloatingPointError': 'ArithmeticError', 'InvalidOperation': 'DecimalException',
    'DecimalException': 'ArithmeticError',
    'LookupError': 'Exception', 'KeyError': 'LookupError', 'IndexError': 'LookupError',
    'ValueError': 'Exception', 'UnicodeError': 'ValueError', 'UnicodeDecodeError': 'UnicodeError',
    'UnicodeEncodeError': 'UnicodeError', 'TypeError': 'Exception', 'AttributeError': 'Exception',
    'OSError': 'Exception', 'IOError': 'Exception', 'URLError': 'OSError', 'HTTPError': 'URLError',
    'FileNotFoundError': 'OSError', 'PermissionError': 'OSError',
    'RuntimeError': 'Exception', 'RecursionError': 'RuntimeError', 'NotImplementedError': 'RuntimeError',
    'StopIteration': 'Exception', 'AssertionError': 'Exception', 'SyntaxError': 'Exception',
    'ParseError': 'SyntaxError', 'ImportError': 'Exception', 'MemoryError': 'Exception',
    'NameError': 'Exception', 'SAXException': 'Exception', 'SAXParseException': 'SAXException',
    'ElementPathError': 'Exception', 'ElementPathKeyError': 'ElementPathError',
    'ElementPathTypeError': 'ElementPathError', 'ElementPathValueError': 'ElementPathError',
    'ElementPathSyntaxError': 'ElementPathError', 'ElementPathNameError': 'ElementPathError',
    'ElementPathLocaleError': 'ElementPathError', 'ElementPathOverflowError': 'ElementPathError',
    'ElementPathZeroDivisionError': 'ElementPathError', 'ElementPathRuntimeError': 'ElementPathError',
    'MissingContextError': 'ElementPathError',
}
_EXTRA_PARENTS = {   # multiple inheritance in elementpath
    'ElementPathKeyError': ['KeyError'], 'ElementPathTypeError': ['TypeError'],
    'ElementPathValueError': ['ValueError'], 'ElementPathSyntaxError': ['SyntaxError'],
    'ElementPathNameError': ['NameError'], 'ElementPathLocaleError': ['ValueError'],
    'ElementPathOverflowError': ['OverflowError'], 'ElementPathZeroDivisionError': ['ZeroDivisionError'],
    'ElementPathRuntimeError': ['RuntimeError'], 'IOError': ['OSError'],
}


def builtin_exc_chain(name: str) -> set[str]:
    out: set[str] = set()
    stack = [name]
    while stack:
        n = stack.pop()
        if n in out or n is None:
            continue
        out.add(n)
        p = _BUILTIN_EXC_PARENT.get(n)
        if p:
            stack.append(p)
        stack.extend(_EXTRA_PARENTS.get(n, []))
    return out
